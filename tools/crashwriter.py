#!/usr/bin/env python3
"""Writer process for the crash-point enumeration (C09): runs one generated
transaction on a database with real SQLite. Started under the LD_PRELOAD crash
shim. argv[1] = JSON file: {"path":..., "journal_mode":..., "cache_size":..., "stmts":[...]}"""
import json
import sqlite3
import sys

spec = json.load(open(sys.argv[1]))
c = sqlite3.connect(spec["path"], isolation_level=None, timeout=0, uri=spec["path"].startswith("file:"))
c.execute("PRAGMA journal_mode=%s" % spec["journal_mode"]).fetchall()
c.execute("PRAGMA cache_size=%d" % spec.get("cache_size", 3))
c.execute("PRAGMA synchronous=%s" % (spec.get("synchronous") or "FULL"))
if spec.get("journal_size_limit"):
    c.execute("PRAGMA journal_size_limit=%d" % int(spec["journal_size_limit"])).fetchall()
for s in spec["stmts"]:
    if s.startswith("@"):  # before the transaction begins (ATTACH)
        c.execute(s[1:])
c.execute("BEGIN")
for s in spec["stmts"]:
    if s.startswith("@"):
        continue
    try:
        c.execute(s)
    except sqlite3.Error as e:
        sys.stderr.write("statement failed: %s: %s\n" % (s[:60], e))
c.execute("COMMIT")
c.close()
