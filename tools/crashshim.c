/* LD_PRELOAD shim: numbers every file operation (pwrite, write, ftruncate,
 * fsync, fdatasync, unlink) a process performs on files whose path contains
 * $CRASH_MATCH, logs them to $CRASH_LOG, and kills the process with
 * _exit(99) right BEFORE the $CRASH_AT-th one (1-based). With $CRASH_TORN=1
 * and a write as that operation, the first half of the write is performed
 * before the process dies (a torn write).
 */
#define _GNU_SOURCE
#include <dlfcn.h>
#include <fcntl.h>
#include <stdio.h>
#include <stdlib.h>
#include <string.h>
#include <unistd.h>
#include <sys/types.h>

static long counter = 0;

static const char *match(void) { return getenv("CRASH_MATCH"); }

static int fd_matches(int fd, char *buf, size_t n) {
  const char *m = match();
  if (!m || !*m) return 0;
  char link[64];
  snprintf(link, sizeof link, "/proc/self/fd/%d", fd);
  ssize_t l = readlink(link, buf, n - 1);
  if (l <= 0) return 0;
  buf[l] = 0;
  return strstr(buf, m) != NULL;
}

static void logop(const char *op, const char *path, long long off, long long len) {
  const char *lp = getenv("CRASH_LOG");
  if (!lp) return;
  int fd = open(lp, O_WRONLY | O_APPEND | O_CREAT, 0644);
  if (fd < 0) return;
  char line[600];
  int n = snprintf(line, sizeof line, "%ld %s %s %lld %lld\n", counter, op, path, off, len);
  ssize_t (*real_write)(int, const void *, size_t) = dlsym(RTLD_NEXT, "write");
  real_write(fd, line, n);
  close(fd);
}

/* returns 1 when the process has to die before this operation */
static int tick(const char *op, const char *path, long long off, long long len) {
  counter++;
  logop(op, path, off, len);
  const char *at = getenv("CRASH_AT");
  if (at && atol(at) == counter) return 1;
  return 0;
}

static int torn(void) {
  const char *t = getenv("CRASH_TORN");
  return t && *t == '1';
}

ssize_t pwrite64(int fd, const void *buf, size_t n, off64_t off) {
  static ssize_t (*real)(int, const void *, size_t, off64_t);
  if (!real) real = dlsym(RTLD_NEXT, "pwrite64");
  char path[512];
  if (fd_matches(fd, path, sizeof path) && tick("pwrite", path, off, n)) {
    if (torn() && n > 1) real(fd, buf, n / 2, off);
    _exit(99);
  }
  return real(fd, buf, n, off);
}

ssize_t pwrite(int fd, const void *buf, size_t n, off_t off) {
  static ssize_t (*real)(int, const void *, size_t, off_t);
  if (!real) real = dlsym(RTLD_NEXT, "pwrite");
  char path[512];
  if (fd_matches(fd, path, sizeof path) && tick("pwrite", path, off, n)) {
    if (torn() && n > 1) real(fd, buf, n / 2, off);
    _exit(99);
  }
  return real(fd, buf, n, off);
}

ssize_t write(int fd, const void *buf, size_t n) {
  static ssize_t (*real)(int, const void *, size_t);
  if (!real) real = dlsym(RTLD_NEXT, "write");
  char path[512];
  if (fd > 2 && fd_matches(fd, path, sizeof path) && tick("write", path, -1, n)) {
    if (torn() && n > 1) real(fd, buf, n / 2);
    _exit(99);
  }
  return real(fd, buf, n);
}

int ftruncate64(int fd, off64_t len) {
  static int (*real)(int, off64_t);
  if (!real) real = dlsym(RTLD_NEXT, "ftruncate64");
  char path[512];
  if (fd_matches(fd, path, sizeof path) && tick("ftruncate", path, len, 0)) _exit(99);
  return real(fd, len);
}

int ftruncate(int fd, off_t len) {
  static int (*real)(int, off_t);
  if (!real) real = dlsym(RTLD_NEXT, "ftruncate");
  char path[512];
  if (fd_matches(fd, path, sizeof path) && tick("ftruncate", path, len, 0)) _exit(99);
  return real(fd, len);
}

int fsync(int fd) {
  static int (*real)(int);
  if (!real) real = dlsym(RTLD_NEXT, "fsync");
  char path[512];
  if (fd_matches(fd, path, sizeof path) && tick("fsync", path, 0, 0)) _exit(99);
  return real(fd);
}

int fdatasync(int fd) {
  static int (*real)(int);
  if (!real) real = dlsym(RTLD_NEXT, "fdatasync");
  char path[512];
  if (fd_matches(fd, path, sizeof path) && tick("fdatasync", path, 0, 0)) _exit(99);
  return real(fd);
}

int unlink(const char *p) {
  static int (*real)(const char *);
  if (!real) real = dlsym(RTLD_NEXT, "unlink");
  const char *m = match();
  if (m && *m && strstr(p, m) && tick("unlink", p, 0, 0)) _exit(99);
  return real(p);
}
