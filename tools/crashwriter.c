/* Writer process for the crash-point enumeration (C09), in C so that it
 * starts in a millisecond: runs one transaction with real SQLite.
 * usage: crashwriter <db> <journal_mode> <cache_size> <file with one statement per line> [synchronous: FULL (default), NORMAL, OFF, EXTRA] [journal_size_limit]
 */
#include <sqlite3.h>
#include <stdio.h>
#include <stdlib.h>
#include <string.h>

static void run(sqlite3 *db, const char *sql, int must) {
  char *err = 0;
  int rc = sqlite3_exec(db, sql, 0, 0, &err);
  if (rc != SQLITE_OK) {
    fprintf(stderr, "statement failed (%d): %.60s: %s\n", rc, sql, err ? err : "");
    if (must) exit(3);
  }
  sqlite3_free(err);
}

int main(int argc, char **argv) {
  if (argc < 5 || argc > 7) return 2;
  sqlite3 *db;
  /* argv[1] may be a file: URI (e.g. file:/path?psow=0 for a 4096 byte sector size) */
  /* CRASHWRITER_CREATE: the file need not exist (its first transaction is the one under test) */
  int flags = SQLITE_OPEN_READWRITE | SQLITE_OPEN_URI;
  if (getenv("CRASHWRITER_CREATE")) flags |= SQLITE_OPEN_CREATE;
  if (sqlite3_open_v2(argv[1], &db, flags, 0) != SQLITE_OK) return 3;
  char buf[256];
  snprintf(buf, sizeof buf, "PRAGMA journal_mode=%s", argv[2]);
  run(db, buf, 1);
  snprintf(buf, sizeof buf, "PRAGMA cache_size=%s", argv[3]);
  run(db, buf, 1);
  snprintf(buf, sizeof buf, "PRAGMA synchronous=%s", argc >= 6 ? argv[5] : "FULL");
  run(db, buf, 1);
  if (argc == 7) {
    snprintf(buf, sizeof buf, "PRAGMA journal_size_limit=%s", argv[6]);
    run(db, buf, 1);
  }
  /* lines that start with '@' run before the transaction begins (ATTACH) */
  FILE *f = fopen(argv[4], "r");
  if (!f) return 3;
  static char line[1 << 16];
  while (fgets(line, sizeof line, f)) {
    size_t n = strlen(line);
    while (n && (line[n - 1] == '\n' || line[n - 1] == '\r')) line[--n] = 0;
    if (n && line[0] == '@') run(db, line + 1, 1);
  }
  rewind(f);
  run(db, "BEGIN", 1);
  while (fgets(line, sizeof line, f)) {
    size_t n = strlen(line);
    while (n && (line[n - 1] == '\n' || line[n - 1] == '\r')) line[--n] = 0;
    if (n && line[0] != '@') run(db, line, 0);
  }
  fclose(f);
  run(db, "COMMIT", 1);
  sqlite3_close(db);
  return 0;
}
