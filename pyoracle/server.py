#!/usr/bin/env python3
"""Real-SQLite oracle / writer co-process for the sqlittle verification harness.

Speaks JSON lines over stdin/stdout. Python stdlib only (sqlite3 module linked
against the system libsqlite3).

Value transport (lossless):
    null                      -> SQL NULL
    ["i", "<decimal>"]        -> INTEGER
    ["r", "<16 hex digits>"]  -> REAL (IEEE-754 bits, big endian)
    ["t", "<hex bytes>"]      -> TEXT  (bytes of the UTF-8 encoding)
    ["b", "<hex bytes>"]      -> BLOB

Text parameters are bound as blobs; statements that need TEXT must wrap the
parameter as CAST(? AS TEXT) (the harness does).  Results distinguish text from
blob through a text_factory returning a bytes subclass.
"""
import json
import os
import shutil
import sqlite3
import struct
import sys


class Text(bytes):
    pass


def enc(v):
    if v is None:
        return None
    if isinstance(v, Text):
        return ["t", bytes(v).hex()]
    if isinstance(v, bytes):
        return ["b", v.hex()]
    if isinstance(v, bool):
        return ["i", str(int(v))]
    if isinstance(v, int):
        return ["i", str(v)]
    if isinstance(v, float):
        return ["r", struct.pack(">d", v).hex()]
    if isinstance(v, str):
        return ["t", v.encode("utf-8", "surrogateescape").hex()]
    raise TypeError("unexpected value type %r" % type(v))


def dec(v):
    if v is None:
        return None
    k, s = v
    if k == "i":
        return int(s)
    if k == "r":
        return struct.unpack(">d", bytes.fromhex(s))[0]
    if k == "t":
        # bound as a blob; the SQL casts it to text
        return bytes.fromhex(s)
    if k == "s":
        # bound as a python str (valid UTF-8 without NUL only)
        return bytes.fromhex(s).decode("utf-8")
    if k == "b":
        return bytes.fromhex(s)
    raise ValueError("bad value kind %r" % k)


conns = {}
cursors = {}


def get_conn(name):
    return conns[name]


def do_open(req):
    name = req["conn"]
    if name in conns:
        try:
            conns[name].close()
        except Exception:
            pass
    uri = req.get("uri", False)
    c = sqlite3.connect(req["path"], isolation_level=None,
                        timeout=req.get("timeout", 0), uri=uri,
                        check_same_thread=False,
                        cached_statements=0 if req.get("nocache") else 128)
    c.text_factory = Text
    # collations an application would define itself (sqlite3_create_collation):
    # definitions may name them; they order like BINARY
    for i in range(64):
        c.create_collation("verifcoll%d" % i, lambda a, b: (a > b) - (a < b))
    conns[name] = c
    return {"ok": True}


def run_stmt(c, sql, params, fetch=True):
    cur = c.execute(sql, [dec(p) for p in params])
    rows = None
    if fetch and cur.description is not None:
        rows = [[enc(v) for v in row] for row in cur.fetchall()]
    return rows


def do_exec(req):
    c = get_conn(req["conn"])
    try:
        rows = run_stmt(c, req["sql"], req.get("params", []))
        return {"ok": True, "rows": rows}
    except sqlite3.Error as e:
        return {"ok": False, "err": str(e), "kind": type(e).__name__}
    except (OverflowError, ValueError) as e:
        return {"ok": False, "err": str(e), "kind": type(e).__name__}


def do_script(req):
    """Run statements in order. Returns per statement status; with
    stop_on_error (default) stops at the first failing one."""
    c = get_conn(req["conn"])
    res = []
    stop = req.get("stop_on_error", True)
    for st in req["stmts"]:
        try:
            rows = run_stmt(c, st["sql"], st.get("params", []),
                            fetch=st.get("fetch", False))
            r = {"ok": True}
            if rows is not None:
                r["rows"] = rows
            res.append(r)
        except (sqlite3.Error, OverflowError, ValueError) as e:
            res.append({"ok": False, "err": str(e), "kind": type(e).__name__})
            if stop:
                break
    return {"ok": True, "results": res}


def do_close(req):
    name = req["conn"]
    for k in [k for k in cursors if k[0] == name]:
        try:
            cursors.pop(k).close()
        except Exception:
            pass
    c = conns.pop(name, None)
    if c is not None:
        try:
            c.close()
        except sqlite3.Error as e:
            return {"ok": False, "err": str(e)}
    return {"ok": True}


def do_cursor_open(req):
    """Open a cursor and fetch `n` rows, leaving the statement active (this
    parks the connection in SHARED)."""
    c = get_conn(req["conn"])
    try:
        cur = c.execute(req["sql"], [dec(p) for p in req.get("params", [])])
        rows = []
        for _ in range(req.get("n", 1)):
            r = cur.fetchone()
            if r is None:
                break
            rows.append([enc(v) for v in r])
        cursors[(req["conn"], req.get("cursor", "c"))] = cur
        return {"ok": True, "rows": rows}
    except sqlite3.Error as e:
        return {"ok": False, "err": str(e), "kind": type(e).__name__}


def do_cursor_close(req):
    cur = cursors.pop((req["conn"], req.get("cursor", "c")), None)
    if cur is not None:
        try:
            cur.fetchall()
        except sqlite3.Error:
            pass
        cur.close()
    return {"ok": True}


def do_rm(req):
    for p in req["paths"]:
        try:
            if os.path.isdir(p):
                shutil.rmtree(p)
            else:
                os.unlink(p)
        except FileNotFoundError:
            pass
    return {"ok": True}


def do_copy(req):
    shutil.copyfile(req["src"], req["dst"])
    return {"ok": True}


def do_version(req):
    return {"ok": True, "version": sqlite3.sqlite_version, "pid": os.getpid()}


OPS = {
    "open": do_open,
    "exec": do_exec,
    "script": do_script,
    "close": do_close,
    "cursor_open": do_cursor_open,
    "cursor_close": do_cursor_close,
    "rm": do_rm,
    "copy": do_copy,
    "version": do_version,
}


def main():
    out = sys.stdout
    for line in sys.stdin:
        line = line.strip()
        if not line:
            continue
        try:
            req = json.loads(line)
            op = req.get("op")
            if op == "quit":
                break
            resp = OPS[op](req)
        except Exception as e:  # harness error, reported as such
            resp = {"ok": False, "err": "oracle-internal: %s: %s" % (type(e).__name__, e),
                    "kind": "internal"}
        out.write(json.dumps(resp))
        out.write("\n")
        out.flush()
    for n in list(conns):
        try:
            conns[n].close()
        except Exception:
            pass


if __name__ == "__main__":
    main()
