// Package btgen holds rapid generators of builder images (bt.Image) shared by
// the checks that need trees of chosen shape: C04, C12, C13, C17, C05, C15.
package btgen

import (
	"pgregory.net/rapid"

	"verif/bt"
	"verif/fmtb"
	"verif/gen"
	"verif/refcmp"
	"verif/val"
)

func Layout(t *rapid.T) fmtb.Layout {
	return fmtb.Layout{
		Seed:         rapid.Uint64().Draw(t, "lseed"),
		ScatterBlock: rapid.SampledFrom([]int{1, 1, 4, 16}).Draw(t, "scatter"),
		FillerEvery:  rapid.SampledFrom([]int{0, 0, 3, 7}).Draw(t, "filler"),
		ShuffleCells: rapid.Bool().Draw(t, "shuffle"),
		Gaps:         rapid.IntRange(0, 3).Draw(t, "gaps") == 0,
		AutoVacuum:   rapid.SampledFrom([]int{0, 0, 0, 1, 2}).Draw(t, "autovacuum"),
	}
}

func Tree(t *rapid.T, label string) fmtb.TreeOpts {
	return fmtb.TreeOpts{
		LeafCells: rapid.SampledFrom([]int{0, 1, 1, 2, 2, 3, 4}).Draw(t, label+"leafcells"),
		Fanout:    rapid.SampledFrom([]int{0, 2, 2, 3, 4}).Draw(t, label+"fanout"),
		SepSlack:  rapid.Bool().Draw(t, label+"slack"),
	}
}

// Rowids draws n distinct rowids: dense runs, gaps, negatives and the int64
// extremes.
func Rowids(t *rapid.T, n int) []int64 {
	used := map[int64]bool{}
	var out []int64
	style := rapid.IntRange(0, 3).Draw(t, "rowidstyle")
	base := int64(1)
	if style == 1 {
		base = rapid.SampledFrom([]int64{-5, -1000, 1 << 31, -(1 << 31) - 3, 1<<62 - 2, -(1 << 62), 9223372036854775807 - 40, -9223372036854775808}).Draw(t, "rowidbase")
	}
	cur := base
	for len(out) < n {
		var r int64
		switch style {
		case 0, 1:
			r = cur
			step := int64(rapid.IntRange(1, 3).Draw(t, "rstep"))
			if cur > 9223372036854775807-step {
				cur = -9223372036854775808
			} else {
				cur += step
			}
		case 2:
			r = gen.Int64().Draw(t, "rowid")
		default:
			r = rapid.SampledFrom([]int64{-9223372036854775808, -9223372036854775807, -1, 0, 1, 2, 127, 128, 9223372036854775806, 9223372036854775807}).Draw(t, "rowidx")
			if used[r] {
				r = gen.Int64().Draw(t, "rowid2")
			}
		}
		if !used[r] {
			used[r] = true
			out = append(out, r)
		}
	}
	return out
}

// smallValue draws from a small pool so that duplicates and collation ties
// are frequent.
func SmallValue(t *rapid.T, label string) val.V {
	switch rapid.IntRange(0, 11).Draw(t, label+"k") {
	case 0:
		return val.Null()
	case 1, 2, 3:
		return val.Int(rapid.SampledFrom([]int64{-1, 0, 1, 2, 3, 5, 9007199254740993, 9007199254740992}).Draw(t, label+"i"))
	case 4:
		return val.Real(rapid.SampledFrom([]float64{-0.5, 0, 1, 1.5, 2, 2.5, 9007199254740992, 9007199254740994}).Draw(t, label+"r"))
	case 5, 6, 7, 8:
		return val.Text(rapid.SampledFrom([]string{"", "a", "A", "a ", "a  ", "a\t", "b", "B", "ab", "aB", "Ab ", "b ", "é", "a\x00", "a\x00b", "A\x00c", "z"}).Draw(t, label+"t"))
	case 9:
		return val.Blob(rapid.SampledFrom([][]byte{{}, {0}, {1}, {0x61}, {0x61, 0x20}, {0xff}}).Draw(t, label+"b"))
	default:
		return gen.Value().Draw(t, label+"v")
	}
}

// Opts steers Image.
type Opts struct {
	MaxRows    int
	Indexes    bool // add secondary indexes to the rowid table
	WR         bool // add a WITHOUT ROWID table
	LongValues bool // some values long enough to overflow
	RowidAlias bool // allow an INTEGER PRIMARY KEY column
	PageSizes  []int
}

// Image draws a database image: one rowid table "t" (optionally with indexes
// i0, i1), optionally a WITHOUT ROWID table "w".
func Image(t *rapid.T, o Opts) bt.Image {
	if o.MaxRows == 0 {
		o.MaxRows = 60
	}
	if o.PageSizes == nil {
		o.PageSizes = []int{512, 512, 512, 1024, 4096}
	}
	u := rapid.SampledFrom(o.PageSizes).Draw(t, "ps")
	img := bt.Image{PageSize: u, Layout: Layout(t), Master: fmtb.TreeOpts{LeafCells: rapid.SampledFrom([]int{0, 0, 1}).Draw(t, "masterleaf"), KeylessRoot: rapid.IntRange(0, 5).Draw(t, "keylessroot") == 0}}
	// mostly the current schema format; sometimes an older one, in which DESC
	// in index definitions is ignored (everything is stored ascending)
	img.Header.SchemaFormat = rapid.SampledFrom([]uint32{0, 0, 0, 0, 4, 3, 2}).Draw(t, "schemaformat")
	if rapid.IntRange(0, 5).Draw(t, "stalesize") == 0 {
		// an in-header size that is out of date and marked so
		img.Header.StaleSize = rapid.IntRange(1, 999).Draw(t, "stalesizepm")
	}
	ncols := rapid.IntRange(1, 4).Draw(t, "ncols")
	nrows := rapid.IntRange(0, o.MaxRows).Draw(t, "nrows")
	if rapid.IntRange(0, 5).Draw(t, "fewrows") == 0 {
		nrows = rapid.IntRange(0, 3).Draw(t, "nrows2")
	}
	tab := bt.Table{Name: "t", NCols: ncols, Tree: Tree(t, "t")}
	tab.RowidAlias = o.RowidAlias && rapid.Bool().Draw(t, "alias")
	rowids := Rowids(t, nrows)
	long := func() val.V {
		n := rapid.SampledFrom([]int{u / 4, u - 40, u, 2*u + 13}).Draw(t, "longn")
		b := make([]byte, n)
		for i := range b {
			b[i] = byte('k' + i%7)
		}
		if rapid.Bool().Draw(t, "longtext") {
			return val.Text(string(b))
		}
		return val.Blob(b)
	}
	for _, rid := range rowids {
		row := bt.Row{Rowid: rid}
		nf := ncols
		if rapid.IntRange(0, 9).Draw(t, "short") == 0 {
			nf = rapid.IntRange(1, ncols).Draw(t, "nf")
		}
		for c := 0; c < nf; c++ {
			var v val.V
			if c == 0 && tab.RowidAlias {
				v = val.Null()
			} else if o.LongValues && rapid.IntRange(0, 14).Draw(t, "long") == 0 {
				v = long()
			} else {
				v = SmallValue(t, "v")
			}
			row.Fields = append(row.Fields, fmtb.F(v))
		}
		tab.Rows = append(tab.Rows, row)
	}
	if o.Indexes {
		ni := rapid.IntRange(1, 2).Draw(t, "nidx")
		for i := 0; i < ni; i++ {
			ix := bt.Index{Name: []string{"i0", "i1"}[i], Tree: Tree(t, "i")}
			nc := rapid.IntRange(1, min(3, ncols)).Draw(t, "idxcols")
			perm := rapid.Permutation(seq(ncols)).Draw(t, "idxperm")
			for k := 0; k < nc; k++ {
				ix.Cols = append(ix.Cols, perm[k])
				ix.Desc = append(ix.Desc, rapid.IntRange(0, 2).Draw(t, "idesc") == 0)
				ix.Coll = append(ix.Coll, rapid.SampledFrom([]string{"", "", refcmp.Nocase, refcmp.Rtrim, refcmp.Binary}).Draw(t, "icoll"))
			}
			tab.Indexes = append(tab.Indexes, ix)
		}
	}
	img.Tables = append(img.Tables, tab)
	if o.WR {
		wr := bt.Table{Name: "w", WithoutRowid: true, Tree: Tree(t, "w")}
		wr.NCols = rapid.IntRange(1, 4).Draw(t, "wcols")
		wr.PKCols = rapid.IntRange(1, min(2, wr.NCols)).Draw(t, "wpk")
		for k := 0; k < wr.PKCols; k++ {
			wr.PKDesc = append(wr.PKDesc, rapid.IntRange(0, 2).Draw(t, "wdesc") == 0)
			wr.PKColl = append(wr.PKColl, rapid.SampledFrom([]string{"", "", refcmp.Nocase, refcmp.Rtrim}).Draw(t, "wcoll"))
		}
		n := rapid.IntRange(0, o.MaxRows).Draw(t, "wrows")
		var have [][]val.V
	rows:
		for i := 0; i < n; i++ {
			row := bt.Row{}
			for c := 0; c < wr.NCols; c++ {
				var v val.V
				for {
					if o.LongValues && c >= wr.PKCols && rapid.IntRange(0, 14).Draw(t, "wlong") == 0 {
						v = long()
					} else {
						v = SmallValue(t, "wv")
					}
					if c >= wr.PKCols || v.T != 'n' {
						break // primary key columns are NOT NULL
					}
				}
				row.Fields = append(row.Fields, fmtb.F(v))
			}
			// primary keys are unique under the declared collations
			pk := row.Values()[:wr.PKCols]
			for _, h := range have {
				same := true
				for k := range pk {
					c := wr.PKColl[k]
					if c == "" {
						c = refcmp.Binary
					}
					if refcmp.Compare(pk[k], h[k], c) != 0 {
						same = false
						break
					}
				}
				if same {
					continue rows
				}
			}
			have = append(have, pk)
			wr.Rows = append(wr.Rows, row)
		}
		if o.Indexes && rapid.IntRange(0, 2).Draw(t, "windexed") > 0 {
			// secondary indexes of the WITHOUT ROWID table: any columns,
			// primary key columns included (same or other collation)
			ni := rapid.IntRange(1, 2).Draw(t, "wnidx")
			for i := 0; i < ni; i++ {
				ix := bt.Index{Name: []string{"wi0", "wi1"}[i], Tree: Tree(t, "wi")}
				nc := rapid.IntRange(1, min(3, wr.NCols)).Draw(t, "widxcols")
				perm := rapid.Permutation(seq(wr.NCols)).Draw(t, "widxperm")
				for k := 0; k < nc; k++ {
					ix.Cols = append(ix.Cols, perm[k])
					ix.Desc = append(ix.Desc, rapid.IntRange(0, 2).Draw(t, "widesc") == 0)
					ix.Coll = append(ix.Coll, rapid.SampledFrom([]string{"", "", refcmp.Nocase, refcmp.Rtrim, refcmp.Binary}).Draw(t, "wicoll"))
				}
				wr.Indexes = append(wr.Indexes, ix)
			}
		}
		img.Tables = append(img.Tables, wr)
	}
	return img
}

func seq(n int) []int {
	out := make([]int, n)
	for i := range out {
		out[i] = i
	}
	return out
}
