// Package bt turns JSON-serialisable specs of tables and indexes into
// database images with the independent builder (fmtb), keeps the expected
// logical content, serves images to sqlittle through the memory pager and
// cross-validates images with real SQLite.
package bt

import (
	"fmt"
	"os"
	"sort"
	"strings"

	sdb "github.com/alicebob/sqlittle/db"

	"verif/fmtb"
	"verif/oracle"
	"verif/pagers"
	"verif/refcmp"
	"verif/val"
)

// Row is one table row with encoding choices.
type Row struct {
	Rowid    int64
	Fields   []fmtb.Field
	SizeLen  int `json:",omitempty"`
	RowidLen int `json:",omitempty"`
	HdrLen   int `json:",omitempty"`
}

func (r Row) Values() []val.V {
	out := make([]val.V, len(r.Fields))
	for i, f := range r.Fields {
		out[i] = f.V
	}
	return out
}

// Index is a secondary index on a rowid table.
type Index struct {
	Name string
	Cols []int    // table column numbers
	Desc []bool   // per indexed column
	Coll []string // per indexed column: "", "binary", "nocase", "rtrim"
	Tree fmtb.TreeOpts
}

// Table is a table (rowid, or WITHOUT ROWID with the first PKCols columns as
// primary key).
type Table struct {
	Name         string
	NCols        int
	Rows         []Row
	Tree         fmtb.TreeOpts
	RowidAlias   bool     `json:",omitempty"` // column c0 is INTEGER PRIMARY KEY (stored as NULL)
	WithoutRowid bool     `json:",omitempty"`
	PKCols       int      `json:",omitempty"`
	PKDesc       []bool   `json:",omitempty"`
	PKColl       []string `json:",omitempty"`
	Indexes      []Index  `json:",omitempty"`
	// Phantom rows have entries in the secondary indexes but are missing in
	// the table itself: a damaged file (index entries without a row). Their
	// index entries carry Row = -(position+1).
	Phantom []Row `json:",omitempty"`
	// PhantomShort (WITHOUT ROWID tables): the index entries of the phantom
	// rows are also cut short: they hold the indexed columns only, not the
	// primary key columns every entry ends with. (Not for rowid tables: there
	// the last field of an entry is the rowid whatever it is - SQLite reads it
	// so, too - and a shortened entry is not something a reader finds.)
	PhantomShort bool `json:",omitempty"`
}

// MasterRow replaces a row of sqlite_master (hostile schema generation). If
// RootOf names a built object, field 3 is replaced by that object's root page.
type MasterRow struct {
	Fields []val.V
	RootOf string `json:",omitempty"`
}

// Image is a whole database.
type Image struct {
	PageSize int
	Layout   fmtb.Layout
	Header   fmtb.Header
	Master   fmtb.TreeOpts
	Tables   []Table
	// MasterRows, when set, replaces the generated sqlite_master content.
	MasterRows []MasterRow `json:",omitempty"`
}

func colName(i int) string { return fmt.Sprintf("c%d", i) }

func idxColSQL(col int, coll string, desc bool) string {
	s := colName(col)
	if coll != "" {
		s += " COLLATE " + strings.ToUpper(coll)
	}
	if desc {
		s += " DESC"
	}
	return s
}

// SQL gives the CREATE TABLE text.
func (t Table) SQL() string {
	var cols []string
	for i := 0; i < t.NCols; i++ {
		c := colName(i)
		if i == 0 && t.RowidAlias {
			c += " INTEGER PRIMARY KEY"
		}
		cols = append(cols, c)
	}
	s := "CREATE TABLE " + t.Name + " (" + strings.Join(cols, ", ")
	if t.WithoutRowid {
		var pk []string
		for i := 0; i < t.PKCols; i++ {
			pk = append(pk, idxColSQL(i, at(t.PKColl, i), atb(t.PKDesc, i)))
		}
		s += ", PRIMARY KEY (" + strings.Join(pk, ", ") + ")) WITHOUT ROWID"
	} else {
		s += ")"
	}
	return s
}

func at(s []string, i int) string {
	if i < len(s) {
		return s[i]
	}
	return ""
}

func atb(s []bool, i int) bool {
	return i < len(s) && s[i]
}

func (ix Index) SQL(table string) string {
	var cols []string
	for i, c := range ix.Cols {
		cols = append(cols, idxColSQL(c, at(ix.Coll, i), atb(ix.Desc, i)))
	}
	return "CREATE INDEX " + ix.Name + " ON " + table + " (" + strings.Join(cols, ", ") + ")"
}

// Entry is one index entry (or WITHOUT ROWID row) in logical form.
type Entry struct {
	Values []val.V
	Row    int // position in Table.Rows it came from
}

// Built is the result of building an image.
type Built struct {
	Img    []byte
	Tables map[string]*BuiltTable
	Pages  int
	Refs   []fmtb.Ref
	Roots  map[string]int
}

type BuiltTable struct {
	Spec    *Table
	Shape   fmtb.TableShape // rowid tables
	IShape  fmtb.IndexShape // WITHOUT ROWID tables
	Rows    []Row           // sorted by rowid (rowid tables)
	Entries []Entry         // sorted by key (WITHOUT ROWID tables)
	PKKey   []refcmp.KeyCol // the key's effective comparison attributes (WITHOUT ROWID tables)
	Indexes map[string]*BuiltIndex
}

type BuiltIndex struct {
	Spec    *Index
	Shape   fmtb.IndexShape
	Entries []Entry // sorted; values are the indexed columns + rowid
	Key     []refcmp.KeyCol
}

func collOrBinary(c string) string {
	if c == "" {
		return refcmp.Binary
	}
	return c
}

// KeyCols gives the comparison attributes of the first n key columns.
func keyCols(coll []string, desc []bool, n int) []refcmp.KeyCol {
	out := make([]refcmp.KeyCol, n)
	for i := range out {
		out[i] = refcmp.KeyCol{Collate: at(coll, i), Desc: atb(desc, i)}
	}
	return out
}

// CmpEntries orders two entries by the key attributes, all remaining columns
// ascending binary.
func CmpEntries(a, b []val.V, key []refcmp.KeyCol) int {
	for i := 0; i < len(a) && i < len(b); i++ {
		coll, desc := "", false
		if i < len(key) {
			coll, desc = key[i].Collate, key[i].Desc
		}
		if coll == "" {
			coll = refcmp.Binary
		}
		c := refcmp.Compare(a[i], b[i], coll)
		if desc {
			c = -c
		}
		if c != 0 {
			return c
		}
	}
	return len(a) - len(b)
}

// Build makes the image. A layout the builder cannot realise is returned as
// an error (fmtb.LayoutError), never a panic.
func Build(spec *Image) (res *Built, err error) {
	defer func() {
		if p := recover(); p != nil {
			if le, ok := p.(fmtb.LayoutError); ok {
				res, err = nil, le
				return
			}
			panic(p)
		}
	}()
	b := fmtb.NewBuilder(spec.PageSize, spec.Layout)
	out := &Built{Tables: map[string]*BuiltTable{}}
	// Files with a schema format before 4 ignore DESC: every index (and
	// WITHOUT ROWID key) is stored ascending whatever its definition says.
	legacy := spec.Header.SchemaFormat >= 1 && spec.Header.SchemaFormat <= 3
	keyCols := func(coll []string, desc []bool, n int) []refcmp.KeyCol {
		k := keyCols(coll, desc, n)
		if legacy {
			for i := range k {
				k[i].Desc = false
			}
		}
		return k
	}
	var objs []fmtb.Object
	for ti := range spec.Tables {
		t := &spec.Tables[ti]
		bt := &BuiltTable{Spec: t, Indexes: map[string]*BuiltIndex{}}
		if t.WithoutRowid {
			key := keyCols(t.PKColl, t.PKDesc, t.PKCols)
			bt.PKKey = key
			for i, r := range t.Rows {
				bt.Entries = append(bt.Entries, Entry{Values: r.Values(), Row: i})
			}
			sort.SliceStable(bt.Entries, func(i, j int) bool {
				return CmpEntries(bt.Entries[i].Values[:t.PKCols], bt.Entries[j].Values[:t.PKCols], key) < 0
			})
			var recs [][]byte
			for _, e := range bt.Entries {
				r := t.Rows[e.Row]
				recs = append(recs, fmtb.EncodeRecord(r.Fields, r.HdrLen))
			}
			bt.IShape = b.BuildIndex(recs, t.Tree)
			objs = append(objs, fmtb.Object{Type: "table", Name: t.Name, TblName: t.Name, Root: bt.IShape.Root, SQL: t.SQL()})
			// secondary indexes: the indexed columns, then the primary key
			// columns the index does not hold already (same column under the
			// same collation), with the key's collation and direction
			for ii := range t.Indexes {
				ix := &t.Indexes[ii]
				bi := &BuiltIndex{Spec: ix, Key: keyCols(ix.Coll, ix.Desc, len(ix.Cols))}
				var extra []int
				for k := 0; k < t.PKCols; k++ {
					dup := false
					for i, c := range ix.Cols {
						if c == k && strings.EqualFold(collOrBinary(at(ix.Coll, i)), collOrBinary(at(t.PKColl, k))) {
							dup = true
						}
					}
					if !dup {
						extra = append(extra, k)
						bi.Key = append(bi.Key, refcmp.KeyCol{Collate: at(t.PKColl, k), Desc: atb(t.PKDesc, k) && !legacy})
					}
				}
				addEntry := func(ri int, r Row) {
					all := pad(r.Values(), t.NCols)
					var vs []val.V
					for _, c := range ix.Cols {
						vs = append(vs, all[c])
					}
					for _, k := range extra {
						vs = append(vs, all[k])
					}
					if ri < 0 && t.PhantomShort {
						vs = vs[:len(ix.Cols)]
					}
					bi.Entries = append(bi.Entries, Entry{Values: vs, Row: ri})
				}
				for ri, r := range t.Rows {
					addEntry(ri, r)
				}
				for pi, r := range t.Phantom {
					addEntry(-(pi + 1), r)
				}
				sort.SliceStable(bi.Entries, func(i, j int) bool {
					return CmpEntries(bi.Entries[i].Values, bi.Entries[j].Values, bi.Key) < 0
				})
				var irecs [][]byte
				for _, e := range bi.Entries {
					irecs = append(irecs, fmtb.EncodeRecord(fmtb.Values(e.Values...), 0))
				}
				bi.Shape = b.BuildIndex(irecs, ix.Tree)
				bt.Indexes[ix.Name] = bi
				objs = append(objs, fmtb.Object{Type: "index", Name: ix.Name, TblName: t.Name, Root: bi.Shape.Root, SQL: ix.SQL(t.Name)})
			}
		} else {
			bt.Rows = append([]Row{}, t.Rows...)
			sort.SliceStable(bt.Rows, func(i, j int) bool { return bt.Rows[i].Rowid < bt.Rows[j].Rowid })
			var rows []fmtb.TableRow
			for _, r := range bt.Rows {
				rows = append(rows, fmtb.TableRow{Rowid: r.Rowid, Payload: fmtb.EncodeRecord(r.Fields, r.HdrLen), SizeLen: r.SizeLen, RowidLen: r.RowidLen})
			}
			bt.Shape = b.BuildTable(rows, t.Tree)
			objs = append(objs, fmtb.Object{Type: "table", Name: t.Name, TblName: t.Name, Root: bt.Shape.Root, SQL: t.SQL()})
			for ii := range t.Indexes {
				ix := &t.Indexes[ii]
				bi := &BuiltIndex{Spec: ix, Key: keyCols(ix.Coll, ix.Desc, len(ix.Cols))}
				addEntry := func(ri int, r Row) {
					var vs []val.V
					logical := t.Logical(r)
					for _, c := range ix.Cols {
						vs = append(vs, logical[c])
					}
					vs = append(vs, val.Int(r.Rowid))
					bi.Entries = append(bi.Entries, Entry{Values: vs, Row: ri})
				}
				for ri, r := range t.Rows {
					addEntry(ri, r)
				}
				for pi, r := range t.Phantom {
					addEntry(-(pi + 1), r)
				}
				sort.SliceStable(bi.Entries, func(i, j int) bool {
					return CmpEntries(bi.Entries[i].Values, bi.Entries[j].Values, bi.Key) < 0
				})
				var recs [][]byte
				for _, e := range bi.Entries {
					recs = append(recs, fmtb.EncodeRecord(fmtb.Values(e.Values...), 0))
				}
				bi.Shape = b.BuildIndex(recs, ix.Tree)
				bt.Indexes[ix.Name] = bi
				objs = append(objs, fmtb.Object{Type: "index", Name: ix.Name, TblName: t.Name, Root: bi.Shape.Root, SQL: ix.SQL(t.Name)})
			}
		}
		out.Tables[t.Name] = bt
	}
	out.Roots = map[string]int{}
	for _, o := range objs {
		out.Roots[o.Name] = o.Root
	}
	if spec.MasterRows != nil {
		var raw [][]fmtb.Field
		for _, mr := range spec.MasterRows {
			fs := fmtb.Values(mr.Fields...)
			if root, ok := out.Roots[mr.RootOf]; ok && len(fs) > 3 {
				fs[3] = fmtb.F(val.Int(int64(root)))
			}
			raw = append(raw, fs)
		}
		out.Img = b.FinishRaw(raw, spec.Header, spec.Master)
	} else {
		out.Img = b.Finish(objs, spec.Header, spec.Master)
	}
	out.Refs = b.Refs
	out.Pages = len(out.Img) / spec.PageSize
	return out, nil
}

// Open serves the image to sqlittle through a memory pager.
func Open(img []byte) (*sdb.Database, *pagers.Mem, error) {
	m := pagers.NewMem(img)
	d, err := sdb.VerifOpen(m, "")
	return d, m, err
}

// RecordVals converts a sqlittle record.
func RecordVals(rec sdb.Record) ([]val.V, bool) {
	out := make([]val.V, len(rec))
	for i, x := range rec {
		v, ok := val.FromGo(x)
		if !ok {
			return nil, false
		}
		out[i] = v
	}
	return out, true
}

func ValsEqual(a, b []val.V) bool {
	if len(a) != len(b) {
		return false
	}
	for i := range a {
		if !a[i].Equal(b[i]) {
			return false
		}
	}
	return true
}

// SQLiteAgrees writes the image to a file and asks real SQLite whether it is
// well-formed (PRAGMA integrity_check) and holds exactly the expected
// content. It returns "" when SQLite agrees with the builder, else what
// differs (which makes the case a harness problem, not a violation).
func SQLiteAgrees(o *oracle.Oracle, dir string, built *Built) (string, error) {
	path := dir + "/btcheck.sqlite"
	os.Remove(path)
	os.Remove(path + "-journal")
	if err := os.WriteFile(path, built.Img, 0o644); err != nil {
		return "", err
	}
	defer os.Remove(path)
	if err := o.Open("btc", path); err != nil {
		return "", err
	}
	defer o.Close("btc")
	rows, err := o.Query("btc", "PRAGMA integrity_check")
	if err != nil {
		return "integrity_check fails: " + err.Error(), nil
	}
	if len(rows) != 1 || string(rows[0][0].B) != "ok" {
		var msgs []string
		for _, r := range rows {
			msgs = append(msgs, string(r[0].B))
			if len(msgs) > 5 {
				break
			}
		}
		return "integrity_check: " + strings.Join(msgs, "; "), nil
	}
	names := make([]string, 0, len(built.Tables))
	for n := range built.Tables {
		names = append(names, n)
	}
	sort.Strings(names)
	for _, name := range names {
		bt := built.Tables[name]
		t := bt.Spec
		var cols []string
		for i := 0; i < t.NCols; i++ {
			cols = append(cols, colName(i))
		}
		if t.WithoutRowid {
			var ob []string
			for i := 0; i < t.PKCols; i++ {
				// (the effective direction: DESC is ignored in files of a schema format before 4)
				ob = append(ob, idxColSQL(i, at(t.PKColl, i), i < len(bt.PKKey) && bt.PKKey[i].Desc))
			}
			got, err := o.Query("btc", "SELECT "+strings.Join(cols, ", ")+" FROM "+t.Name+" ORDER BY "+strings.Join(ob, ", "))
			if err != nil {
				return "select " + t.Name + ": " + err.Error(), nil
			}
			if len(got) != len(bt.Entries) {
				return fmt.Sprintf("table %s: SQLite sees %d rows, builder %d", t.Name, len(got), len(bt.Entries)), nil
			}
			for i, e := range bt.Entries {
				if !ValsEqual(pad(e.Values, t.NCols), got[i]) {
					return fmt.Sprintf("table %s row %d: SQLite %v, builder %v", t.Name, i, got[i], val.Row(e.Values)), nil
				}
			}
			continue
		}
		got, err := o.Query("btc", "SELECT rowid, "+strings.Join(cols[:min(len(cols), 1000)], ", ")+" FROM "+t.Name+" ORDER BY rowid")
		if err != nil {
			return "select " + t.Name + ": " + err.Error(), nil
		}
		// (a result set has at most 2000 columns: a table of that many is read in two parts)
		if len(cols) > 1000 {
			more, err := o.Query("btc", "SELECT "+strings.Join(cols[1000:], ", ")+" FROM "+t.Name+" ORDER BY rowid")
			if err != nil {
				return "select " + t.Name + ": " + err.Error(), nil
			}
			if len(more) != len(got) {
				return fmt.Sprintf("table %s: SQLite sees %d and %d rows", t.Name, len(got), len(more)), nil
			}
			for i := range got {
				got[i] = append(got[i], more[i]...)
			}
		}
		if len(got) != len(bt.Rows) {
			return fmt.Sprintf("table %s: SQLite sees %d rows, builder %d", t.Name, len(got), len(bt.Rows)), nil
		}
		for i, r := range bt.Rows {
			want := append([]val.V{val.Int(r.Rowid)}, pad(r.Values(), t.NCols)...)
			if t.RowidAlias {
				want[1] = val.Int(r.Rowid)
			}
			if !ValsEqual(want, got[i]) {
				return fmt.Sprintf("table %s row %d: SQLite %v, builder %v", t.Name, i, got[i], val.Row(want)), nil
			}
		}
	}
	return "", nil
}

func pad(vs []val.V, n int) []val.V {
	out := append([]val.V{}, vs...)
	for len(out) < n {
		out = append(out, val.Null())
	}
	return out
}

// Logical gives the values a select of all columns must return for a row of
// a rowid table: short rows completed with NULL (no defaults are declared),
// the rowid alias column holding the rowid.
func (t *Table) Logical(r Row) []val.V {
	out := pad(r.Values(), t.NCols)
	if t.RowidAlias {
		out[0] = val.Int(r.Rowid)
	}
	return out
}

// ColNames lists the column names.
func (t *Table) ColNames() []string {
	var cols []string
	for i := 0; i < t.NCols; i++ {
		cols = append(cols, colName(i))
	}
	return cols
}
