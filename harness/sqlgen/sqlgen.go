// Package sqlgen generates CREATE TABLE / CREATE INDEX statements as lists of
// elements (column definitions, table constraints, indexed columns) so that
// checks can render them whole, alone, reordered or with other neighbours.
// Whether a statement is valid is decided by real SQLite, not here; the
// generator only tries to keep the rejection rate low.
package sqlgen

import (
	"fmt"
	"strings"
	"verif/fold"

	"pgregory.net/rapid"
)

// Ident is an identifier with its rendered (possibly quoted) form.
type Ident struct {
	Name string // logical name, as SQLite reports it
	SQL  string // as written
}

var bareNames = []string{"a", "b", "c", "d", "e", "f", "g", "x1", "y_2", "Name", "VALUE", "é", "naïve", "col_é", "日本", "rowid", "oid", "_rowid_", "Ab", "data", "ü", "ñ1", "Ωmega", "ÉCOLE", "ж",
	// bytes >= 0x80 are identifier characters to SQLite whatever Unicode calls them (spaces, digits, symbols)
	"a\u00a0b", "x\u0085", "\u3000z", "w\u2003w", "smile😀", "n٣", "٣n", "p·q", "€",
	// names that differ from another one of this list only in the case of a non-ASCII letter: different names to SQLite
	"É", "Ж", "ωmega", "NAÏVE", "\u212a", "k", "ſ", "s",
	// the ends of the ranges: the last letters of the alphabet, the first code point above ASCII
	"z", "Z_z", "\u0080q",
	// words of the ON CONFLICT clause, which are ordinary names elsewhere
	"fail", "ignore", "abort", "rollback"}
var quotedNames = []string{"select", "my col", "a\"b", "from", "a]b", "x`y", "tab,le", "1st", "é é", "primary", "key", "(", "a'b", "", "x.y", "--c", "q\"", "tick`", "\"\"", "end]x", "it's", "*", "*", "*", "100%done", "%s", "%d%%"}

func quote(name string, style int) string {
	switch style {
	case 1:
		return `"` + strings.ReplaceAll(name, `"`, `""`) + `"`
	case 2:
		if !strings.Contains(name, "]") {
			return "[" + name + "]"
		}
		return `"` + strings.ReplaceAll(name, `"`, `""`) + `"`
	case 3:
		return "`" + strings.ReplaceAll(name, "`", "``") + "`"
	}
	return name
}

// GenIdent draws an identifier not (case-insensitively) in used.
func GenIdent(t *rapid.T, used map[string]bool, label string) Ident {
	for tries := 0; ; tries++ {
		var id Ident
		if rapid.IntRange(0, 5).Draw(t, label+"q") == 0 {
			n := rapid.SampledFrom(quotedNames).Draw(t, label+"qn")
			if n == "" && label != "col" && label != "in" {
				n = "q" // (tables; a column or an index may have the empty name)
			}
			id = Ident{n, quote(n, rapid.IntRange(1, 3).Draw(t, label+"qs"))}
		} else {
			n := rapid.SampledFrom(bareNames).Draw(t, label+"n")
			style := 0
			if rapid.IntRange(0, 4).Draw(t, label+"bq") == 0 {
				style = rapid.IntRange(1, 3).Draw(t, label+"bs")
			}
			id = Ident{n, quote(n, style)}
		}
		if tries > 20 {
			id.Name = fmt.Sprintf("%s_%d", id.Name, tries)
			id.SQL = quote(id.Name, 1)
		}
		k := fold.Lower(id.Name)
		if !used[k] {
			used[k] = true
			return id
		}
	}
}

var typeNames = []string{
	"", "", "INTEGER", "INTEGER", "INTEGER", "integer", "Integer", "INT", "int", "BIGINT", "TEXT", "TEXT", "text", "VARCHAR(10)", "varchar(255)",
	"CHAR(3)", "REAL", "real", "FLOAT", "DOUBLE", "NUMERIC", "DECIMAL(10,5)", "BLOB", "blob", "BOOLEAN", "DATETIME", "\"INTEGER\"", "[INTEGER]", "INTEGER(10)", "INTEGER(8,2)",
	"STRING", "FLOATING POINT", "DOUBLE PRECISION", "UNSIGNED BIG INT", "INT(+5)", "NUM(-1)",
	// one word that holds the mark of two affinities: SQLite goes by the first rule that fits (INT, then CHAR/CLOB/TEXT, then BLOB, then REAL/FLOA/DOUB)
	"DOUBLEPOINT", "REALCHAR", "FLOATBLOB", "REALINT", "DOUBLEPOINT",
}

var collations = []string{"BINARY", "NOCASE", "RTRIM", "binary", "nocase", "rtrim", "NoCase"}

// Col is one column definition.
type Col struct {
	Ident
	Type string
	Cons []string // constraints in textual order
}

func (c Col) SQL() string {
	s := c.Ident.SQL
	if c.Type != "" {
		s += " " + c.Type
	}
	for _, k := range c.Cons {
		s += " " + k
	}
	return s
}

// HasAttr tells whether the column carries anything beyond its name.
// Generated: the column is a generated column (its value cannot be inserted).
func (c Col) Generated() bool {
	for _, k := range c.Cons {
		if strings.HasPrefix(k, "AS (") || strings.HasPrefix(k, "GENERATED ALWAYS") {
			return true
		}
	}
	return false
}

func (c Col) HasAttr() bool { return c.Type != "" || len(c.Cons) > 0 }

// Table is a CREATE TABLE statement in element form.
type Table struct {
	Ident
	Cols         []Col
	Cons         []string // table constraints (without the leading comma)
	WithoutRowid bool
	Lead         string // text between CREATE and TABLE / comments, usually ""
	// Comment: an SQL comment written after element CommentAt of the
	// parenthesised list (SQLite stores the statement text as typed)
	Comment   string `json:",omitempty"`
	CommentAt int    `json:",omitempty"`
	// Strict: the STRICT table option (SQLite 3.37+), written before (1) or
	// after (2) WITHOUT ROWID when the table has both
	Strict int `json:",omitempty"`
	// Sep: what separates the elements of the parenthesised list (and stands
	// in front of the options) instead of ", ": the statement is stored as it
	// was typed - line ends of another system, tabs, a form feed
	Sep string `json:",omitempty"`
}

// Separators: white space to SQLite - space, tab, line feed, form feed, carriage return - around the commas
var Separators = []string{",\r\n\t", ",\n  ", ",\f", " ,\r", ",\t\r\n", "\r\n,\r\n"}

var comments = []string{"--1\n", "-- a note\n", "/* x */", "/* - 1 */", "--\n", "/**/", "/* ' */", "-- \"q\n", "/* a, b */", "--,\n",
	// a comment that starts with /*/ runs to the next */ like any other (the
	// "toggle" idiom); what it hides would parse in its place
	"/*/ UNIQUE /*/", "/*/ DESC /*/", "/*/ COLLATE NOCASE /*/", "/*/ NOT NULL UNIQUE /*/", "/*/*/", "/*/ , UNIQUE (a) */", "/* */ /*/ PRIMARY KEY /*/", "/*/ , zz_commented_out INT /*/", "/*/ , zz_commented_out /*/"}

// comments whose text is a piece of definition (a commented-out column, a
// constraint): a line comment ends at the line feed only - a lone carriage
// return is part of it - and a block comment at the first */ after its /*
var hidingComments = []string{"/*/ , zz_commented_out INT /*/", "/*/ , zz_commented_out /*/", "/* , zz_commented_out TEXT */", "-- old:\r , zz_commented_out INT\n", "--\r UNIQUE\n", "-- was\r COLLATE nocase DESC\n", "/*/ UNIQUE /*/", "--\r , zz_commented_out\r\n"}

// withComment writes the comment after element at (mod the number of elements).
func withComment(parts []string, comment string, at int) []string {
	if comment == "" || len(parts) == 0 {
		return parts
	}
	out := append([]string{}, parts...)
	out[at%len(out)] += " " + comment
	return out
}

func (tb Table) SQL() string {
	var parts []string
	for _, c := range tb.Cols {
		parts = append(parts, c.SQL())
	}
	parts = append(parts, tb.Cons...)
	parts = withComment(parts, tb.Comment, tb.CommentAt)
	sep, gap := ", ", " "
	if tb.Sep != "" {
		sep, gap = tb.Sep, strings.Trim(tb.Sep, ",")
	}
	s := "CREATE TABLE " + tb.Ident.SQL + " (" + strings.Join(parts, ", ") + ")"
	if tb.Sep != "" {
		s = "CREATE TABLE " + tb.Ident.SQL + gap + "(" + gap + strings.Join(parts, sep) + gap + ")"
	}
	var opts []string
	if tb.WithoutRowid {
		opts = append(opts, "WITHOUT ROWID")
	}
	switch tb.Strict {
	case 1:
		opts = append([]string{"STRICT"}, opts...)
	case 2:
		opts = append(opts, "strict")
	}
	if len(opts) > 0 {
		s += gap + strings.Join(opts, sep)
	}
	return s
}

// ColumnIdents gives the identifiers of all columns.
func (tb Table) ColumnIdents() []Ident {
	var out []Ident
	for _, c := range tb.Cols {
		out = append(out, c.Ident)
	}
	return out
}

func genLiteralDefault(t *rapid.T) string {
	return rapid.SampledFrom([]string{
		"DEFAULT 0", "DEFAULT 1", "DEFAULT -1", "DEFAULT +5", "DEFAULT 42", "DEFAULT 'x'", "DEFAULT ''", "DEFAULT 'it''s'", "DEFAULT NULL",
		"DEFAULT TRUE", "DEFAULT FALSE", "DEFAULT abc", "DEFAULT '12'", "DEFAULT 9223372036854775807", "DEFAULT 0x10",
		"DEFAULT 1.5", "DEFAULT -2.25", "DEFAULT (1+1)", "DEFAULT CURRENT_TIMESTAMP", "DEFAULT x'00ff'", "DEFAULT 1e3", "DEFAULT '  7 '",
	}).Draw(t, "default")
}

// Ref is how a constraint, index or expression spells a column it refers to:
// mostly as the definition does, sometimes with the ASCII letters in the other
// case (identifiers are case-insensitive, quoted or not).
func Ref(t *rapid.T, id Ident, label string) string {
	if rapid.IntRange(0, 5).Draw(t, label+"case") != 0 {
		return id.SQL
	}
	b := []byte(id.SQL)
	for i, c := range b {
		switch {
		case c >= 'a' && c <= 'z':
			b[i] = c - 'a' + 'A'
		case c >= 'A' && c <= 'Z':
			b[i] = c - 'A' + 'a'
		}
	}
	return string(b)
}

// KeyRef is Ref for the column lists of PRIMARY KEY (...), UNIQUE (...) and
// CREATE INDEX: there SQLite also takes a string literal for the name of a
// column ('a' is the column a, not a constant).
func KeyRef(t *rapid.T, id Ident, label string) string {
	if rapid.IntRange(0, 9).Draw(t, label+"lit") == 0 {
		return "'" + strings.ReplaceAll(id.Name, "'", "''") + "'"
	}
	return Ref(t, id, label)
}

// GenExpr draws an expression over the given columns. simple=true keeps to
// the forms sqlittle's grammar knows.
func GenExpr(t *rapid.T, cols []Ident, simple bool) string {
	c := Ref(t, rapid.SampledFrom(cols).Draw(t, "ecol"), "ecol")
	c2 := Ref(t, rapid.SampledFrom(cols).Draw(t, "ecol2"), "ecol2")
	forms := []string{
		c + "+1", c + " || 'x'", "lower(" + c + ")", "abs(" + c + ")", c + " > 5", "(" + c + ")", c + " * 2", c + "-" + c2,
		"length(" + c + ")", c + " >= 10", c + " = 'lit'", "coalesce(" + c + ", 0)", c + " + " + c2, "substr(" + c + ", 1, 2)",
		c + "<>3", c + " == " + c2, c + " < 100", "(" + c + "+1)", "(" + c + " || 'x')", "(lower(" + c + "))", "((" + c + "))",
	}
	if !simple {
		forms = append(forms,
			c+" IS NOT NULL", c+" IN (1,2,3)", "CASE WHEN "+c+" THEN 1 ELSE 2 END", c+" LIKE 'a%'", "NOT "+c, c+" AND "+c2,
			c+" BETWEEN 1 AND 5", "-"+c, "+"+c, "~"+c, "+("+c+")", "CAST("+c+" AS TEXT)", c+" IS NULL", c+" > 1 OR "+c2+" < 1", c+" COLLATE NOCASE = 'a'", "typeof("+c+") = 'text'")
	}
	return rapid.SampledFrom(forms).Draw(t, "expr")
}

func genFK(t *rapid.T, cols []Ident, conservative bool) string {
	if conservative {
		return "REFERENCES " + rapid.SampledFrom([]string{"other", "\"other t\"", "t2"}).Draw(t, "fkt") +
			rapid.SampledFrom([]string{"(id)", "(a, b)"}).Draw(t, "fkc") +
			rapid.SampledFrom([]string{"", "", " DEFERRABLE", " DEFERRABLE INITIALLY DEFERRED", " ON DELETE CASCADE", " ON UPDATE SET NULL ON DELETE RESTRICT",
				" ON DELETE NO ACTION", " ON UPDATE SET DEFAULT", " INITIALLY DEFERRED ON DELETE CASCADE"}).Draw(t, "fkx")
	}
	s := "REFERENCES " + rapid.SampledFrom([]string{"other", "\"other t\"", "t2"}).Draw(t, "fkt")
	s += rapid.SampledFrom([]string{"(id)", "(a, b)", "", ""}).Draw(t, "fkc") // (no list: the parent's primary key)
	s += rapid.SampledFrom([]string{"", "", " DEFERRABLE", " DEFERRABLE INITIALLY DEFERRED", " ON DELETE CASCADE", " ON UPDATE SET NULL ON DELETE RESTRICT",
		" ON DELETE NO ACTION", " ON UPDATE SET DEFAULT", " MATCH FULL", " NOT DEFERRABLE", " ON DELETE CASCADE DEFERRABLE INITIALLY IMMEDIATE"}).Draw(t, "fkx")
	return s
}

func genOnConflict(t *rapid.T, conservative bool) string {
	if conservative {
		return rapid.SampledFrom([]string{"", "", "", " ON CONFLICT REPLACE"}).Draw(t, "onconf")
	}
	return rapid.SampledFrom([]string{"", "", "", " ON CONFLICT ROLLBACK", " ON CONFLICT ABORT", " ON CONFLICT FAIL", " ON CONFLICT IGNORE", " ON CONFLICT REPLACE"}).Draw(t, "onconf")
}

// Opts steers GenTable.
type Opts struct {
	MaxCols int
	// Conservative keeps to constructs sqlittle's grammar is known to accept
	// (the "core grammar" whose acceptance rate is measured).
	Conservative bool
}

// GenIndexedCols draws a list of distinct plain columns with optional
// COLLATE and direction, as used by PRIMARY KEY(...) / UNIQUE(...).
func GenIndexedCols(t *rapid.T, cols []Ident, max int, label string) string {
	n := rapid.IntRange(1, min(max, len(cols))).Draw(t, label+"n")
	perm := rapid.Permutation(cols).Draw(t, label+"p")[:n]
	repeated := false
	if rapid.IntRange(0, 5).Draw(t, label+"rep") == 0 {
		// a column may be listed twice (PRIMARY KEY (a, b, a) is legal; under
		// another collation both copies are kept)
		perm = append(perm, perm[rapid.IntRange(0, len(perm)-1).Draw(t, label+"repi")])
		repeated = true
	}
	var parts []string
	for i, c := range perm {
		s := KeyRef(t, c, label)
		if rapid.IntRange(0, 4).Draw(t, label+"c") == 0 || (repeated && i == len(perm)-1 && rapid.Bool().Draw(t, label+"repc")) {
			s += " COLLATE " + rapid.SampledFrom(collations).Draw(t, label+"cn")
		}
		s += rapid.SampledFrom([]string{"", "", "", " ASC", " DESC", " DESC"}).Draw(t, label+"d")
		parts = append(parts, s)
	}
	return strings.Join(parts, ", ")
}

// GenTable draws a table definition.
func GenTable(t *rapid.T, name Ident, o Opts) Table {
	if o.MaxCols == 0 {
		o.MaxCols = 6
	}
	tb := Table{Ident: name}
	used := map[string]bool{}
	n := rapid.IntRange(1, o.MaxCols).Draw(t, "ncols")
	for i := 0; i < n; i++ {
		tb.Cols = append(tb.Cols, Col{Ident: GenIdent(t, used, "col")})
	}
	ids := tb.ColumnIdents()
	tb.WithoutRowid = rapid.IntRange(0, 4).Draw(t, "wr") == 0
	// primary key style: 0 none, 1 column constraint, 2 table constraint
	pk := rapid.IntRange(0, 2).Draw(t, "pkstyle")
	if tb.WithoutRowid && pk == 0 {
		pk = rapid.IntRange(1, 2).Draw(t, "pkstyle2")
	}
	pkcol := rapid.IntRange(0, n-1).Draw(t, "pkcol")
	tpkSingle := pk == 2 && rapid.Bool().Draw(t, "tpksingle") // table constraint on exactly the column pkcol
	for i := range tb.Cols {
		c := &tb.Cols[i]
		if o.Conservative {
			c.Type = rapid.SampledFrom([]string{"", "INTEGER", "integer", "INT", "TEXT", "VARCHAR(10)", "REAL", "NUMERIC", "BLOB", "DECIMAL(10,5)"}).Draw(t, "type")
		} else {
			c.Type = rapid.SampledFrom(typeNames).Draw(t, "type")
		}
		var cons []string
		if (pk == 1 || (pk == 2 && tpkSingle)) && i == pkcol && rapid.Bool().Draw(t, "intlike") {
			// exercise the rowid-alias rule: type names near INTEGER
			c.Type = rapid.SampledFrom([]string{"INTEGER", "INTEGER", "integer", "Integer", "INT", "INTEGER(10)", "INTEGER(8,2)", "integer(3)", "BIGINT", "\"INTEGER\"", "[INTEGER]", "`integer`", "INTEGERS", "UNSIGNED INTEGER"}).Draw(t, "inttype")
		}
		if pk == 1 && i == pkcol {
			s := "PRIMARY KEY" + rapid.SampledFrom([]string{"", "", " ASC", " DESC"}).Draw(t, "pkdir")
			if !o.Conservative {
				s += genOnConflict(t, false)
			}
			if !tb.WithoutRowid && fold.Equal(c.Type, "INTEGER") && !strings.Contains(s, "DESC") && rapid.IntRange(0, 3).Draw(t, "ai") == 0 {
				s += " AUTOINCREMENT"
			}
			cons = append(cons, s)
		}
		k := rapid.IntRange(0, 3).Draw(t, "ncons")
		if rapid.IntRange(0, 9).Draw(t, "manycons") == 0 {
			k = rapid.IntRange(4, 7).Draw(t, "ncons2")
		}
		if rapid.IntRange(0, 3).Draw(t, "plaincol") == 0 {
			// plain columns (name only) are common in real schemas
			c.Type, k = "", 0
		}
		for j := 0; j < k; j++ {
			var s string
			top := 9
			if o.Conservative {
				top = 6
			}
			switch rapid.IntRange(0, top).Draw(t, "ck") {
			case 0:
				s = "NOT NULL"
			case 1:
				s = "UNIQUE"
			case 2:
				s = "COLLATE " + rapid.SampledFrom(collations).Draw(t, "coll")
			case 3:
				if o.Conservative {
					s = rapid.SampledFrom([]string{"DEFAULT 0", "DEFAULT -1", "DEFAULT 'x'", "DEFAULT NULL", "DEFAULT 42"}).Draw(t, "cdef")
				} else {
					s = genLiteralDefault(t)
				}
			case 4:
				s = "NULL"
			case 5:
				s = "CHECK (" + GenExpr(t, ids, true) + ")"
			case 6:
				s = genFK(t, ids, o.Conservative)
			case 7:
				s = "CHECK (" + GenExpr(t, ids, false) + ")"
			case 8:
				s = "CONSTRAINT " + rapid.SampledFrom([]string{"cn", "\"c n\"", "uq1"}).Draw(t, "cname") + " " +
					rapid.SampledFrom([]string{"NOT NULL", "UNIQUE", "CHECK (1)", "DEFAULT 3"}).Draw(t, "cnamed")
			case 9:
				s = rapid.SampledFrom([]string{"NOT NULL ON CONFLICT IGNORE", "UNIQUE ON CONFLICT REPLACE", "GENERATED ALWAYS AS (1) VIRTUAL", "AS (2) STORED", "NOT NULL UNIQUE", "AS (5)", "AS (7)", "GENERATED ALWAYS AS (3)",
					// to SQLite a column constraint of its own, wherever it stands (it needs no REFERENCES before it)
					"DEFERRABLE", "DEFERRABLE INITIALLY DEFERRED", "NOT DEFERRABLE", "DEFERRABLE INITIALLY IMMEDIATE"}).Draw(t, "cmisc")
			}
			cons = append(cons, s)
		}
		// constraints in any textual order
		if len(cons) > 1 {
			cons = rapid.Permutation(cons).Draw(t, "consorder")
		}
		if i != pkcol && n > 1 && rapid.IntRange(0, 29).Draw(t, "gencol") == 0 {
			// a virtual generated column, also among otherwise plain columns:
			// SQLite does not store it, so a reader that takes it for an
			// ordinary column reads every later column from the wrong place
			c.Type = ""
			cons = []string{"AS (" + rapid.SampledFrom([]string{"5", "'g'", "NULL", "1+1"}).Draw(t, "genexpr") + ")"}
			if rapid.IntRange(0, 3).Draw(t, "genuq") == 0 {
				cons = append(cons, "UNIQUE")
			}
		}
		for i, k := range cons {
			if strings.HasPrefix(k, "AS (") && !strings.HasSuffix(k, "STORED") {
				// a virtual generated column in its shortest spelling: name AS
				// (expr), no type, nothing before it
				cons[0], cons[i] = cons[i], cons[0]
				c.Type = ""
				break
			}
		}
		c.Cons = cons
	}
	// table constraints
	prefix := func() string {
		if rapid.IntRange(0, 4).Draw(t, "tcn") == 0 {
			return "CONSTRAINT " + rapid.SampledFrom([]string{"tc1", "\"t c\"", "pk", "[u x]"}).Draw(t, "tcname") + " "
		}
		return ""
	}
	if pk == 2 {
		pkcols := ""
		if tpkSingle {
			pkcols = ids[pkcol].SQL
			if rapid.IntRange(0, 2).Draw(t, "tpkcoll") == 0 {
				// (on a column that aliases the rowid SQLite ignores this COLLATE)
				pkcols += " COLLATE " + rapid.SampledFrom(collations).Draw(t, "tpkcolln")
			}
			pkcols += rapid.SampledFrom([]string{"", "", " ASC", " DESC"}).Draw(t, "tpkdir")
		} else {
			pkcols = GenIndexedCols(t, ids, 3, "tpk")
		}
		tb.Cons = append(tb.Cons, prefix()+"PRIMARY KEY ("+pkcols+")"+func() string {
			if o.Conservative {
				return ""
			}
			return genOnConflict(t, false)
		}())
	}
	ntc := rapid.IntRange(0, 2).Draw(t, "ntc")
	for j := 0; j < ntc; j++ {
		top := 3
		if o.Conservative {
			top = 1
		}
		switch rapid.IntRange(0, top).Draw(t, "tck") {
		case 0, 1:
			tb.Cons = append(tb.Cons, prefix()+"UNIQUE ("+GenIndexedCols(t, ids, 3, "tu")+")"+genOnConflict(t, o.Conservative))
		case 2:
			child := rapid.SampledFrom(ids).Draw(t, "fkcol").SQL
			fk := genFK(t, ids, o.Conservative)
			if len(ids) >= 2 && rapid.IntRange(0, 2).Draw(t, "fktwo") == 0 {
				// a composite key: two child columns, two parent columns
				child += ", " + rapid.SampledFrom(ids).Draw(t, "fkcol2").SQL
				fk = strings.Replace(fk, "(id)", "(x, y)", 1)
			}
			tb.Cons = append(tb.Cons, prefix()+"FOREIGN KEY ("+child+") "+fk)
		case 3:
			tb.Cons = append(tb.Cons, prefix()+"CHECK ("+GenExpr(t, ids, rapid.Bool().Draw(t, "tcsimple"))+")")
		}
	}
	if len(tb.Cons) > 1 && rapid.Bool().Draw(t, "tcshuffle") {
		tb.Cons = rapid.Permutation(tb.Cons).Draw(t, "tcorder")
	}
	if rapid.IntRange(0, 14).Draw(t, "strict") == 0 {
		// a STRICT table: only these type names are allowed there
		tb.Strict = rapid.IntRange(1, 2).Draw(t, "strictpos")
		for i := range tb.Cols {
			if !tb.Cols[i].Generated() {
				tb.Cols[i].Type = rapid.SampledFrom([]string{"INT", "INTEGER", "REAL", "TEXT", "BLOB", "ANY", "integer", "Text"}).Draw(t, "stricttype")
			}
		}
	}
	if rapid.IntRange(0, 11).Draw(t, "tcomment") == 0 {
		tb.Comment = rapid.SampledFrom(comments).Draw(t, "tcommenttext")
		if rapid.IntRange(0, 2).Draw(t, "tcommenthides") == 0 {
			// a comment that hides something which would parse in its place
			tb.Comment = rapid.SampledFrom(hidingComments).Draw(t, "tcommenthiding")
		}
		tb.CommentAt = rapid.IntRange(0, 8).Draw(t, "tcommentat")
	}
	if rapid.IntRange(0, 5).Draw(t, "sepkind") == 0 {
		tb.Sep = rapid.SampledFrom(Separators).Draw(t, "sep")
	}
	return tb
}

// Index is a CREATE INDEX statement in element form.
type Index struct {
	Ident
	Table  Ident
	Unique bool
	Cols   []string // indexed column texts
	Exprs  []string // the same without COLLATE / ASC / DESC (for ORDER BY in the oracle)
	Plain  []bool   // the indexed column is a plain column reference
	Where  string   // "" = none
	// Comment: an SQL comment after indexed column CommentAt
	Comment   string `json:",omitempty"`
	CommentAt int    `json:",omitempty"`
	// Sep: see Table.Sep
	Sep string `json:",omitempty"`
}

func (ix Index) SQL() string {
	s := "CREATE "
	if ix.Unique {
		s += "UNIQUE "
	}
	sep, gap := ", ", " "
	if ix.Sep != "" {
		sep, gap = ix.Sep, strings.Trim(ix.Sep, ",")
	}
	s += "INDEX " + ix.Ident.SQL + gap + "ON" + gap + ix.Table.SQL + gap + "(" + strings.Join(withComment(ix.Cols, ix.Comment, ix.CommentAt), sep) + ")"
	if ix.Where != "" {
		s += " WHERE " + ix.Where
	}
	return s
}

// GenIndex draws an index on the table. exprs allows expression columns,
// partial allows a WHERE clause.
func GenIndex(t *rapid.T, name Ident, tb Table, unique, exprs, partial bool) Index {
	ids := tb.ColumnIdents()
	ix := Index{Ident: name, Table: tb.Ident, Unique: unique}
	// (the ON clause may spell the table in another letter case)
	ix.Table.SQL = Ref(t, tb.Ident, "ontable")
	n := rapid.IntRange(1, min(3, len(ids))).Draw(t, "nic")
	perm := rapid.Permutation(ids).Draw(t, "icp")
	for i := 0; i < n; i++ {
		var s, asExpr string
		if exprs && rapid.IntRange(0, 24).Draw(t, "idqs") == 0 {
			// a double-quoted name that is no column of the table: SQLite takes
			// it for a string literal (an expression column on a constant)
			s = rapid.SampledFrom([]string{`"no such column"`, `"zzz"`, `"nope"`}).Draw(t, "idqsname")
			asExpr = "'" + strings.Trim(s, `"`) + "'"
			ix.Plain = append(ix.Plain, false)
		} else if exprs && rapid.IntRange(0, 4).Draw(t, "iexpr") == 0 {
			s = GenExpr(t, ids, rapid.IntRange(0, 3).Draw(t, "iexprsimple") > 0)
			ix.Plain = append(ix.Plain, false)
		} else {
			c := perm[i]
			if i > 0 && rapid.IntRange(0, 7).Draw(t, "icrep") == 0 {
				c = perm[rapid.IntRange(0, i-1).Draw(t, "icrepi")] // a column listed twice
			}
			s = KeyRef(t, c, "ic")
			ix.Plain = append(ix.Plain, true)
			if strings.HasPrefix(s, "'") {
				asExpr = c.SQL // (in an expression the literal would be a constant)
			}
		}
		if asExpr == "" {
			asExpr = s
		}
		ix.Exprs = append(ix.Exprs, asExpr)
		if rapid.IntRange(0, 3).Draw(t, "icoll") == 0 {
			s += " COLLATE " + rapid.SampledFrom(collations).Draw(t, "icolln")
		} else if rapid.IntRange(0, 5).Draw(t, "icollwr") == 0 || (tb.WithoutRowid && rapid.IntRange(0, 2).Draw(t, "icollwr2") == 0) {
			// spell out the default collation, too: it overrides the column's
			// own, and on WITHOUT ROWID tables the collation of an indexed key
			// column decides whether SQLite appends the key column again
			s += " COLLATE " + rapid.SampledFrom([]string{"BINARY", "binary"}).Draw(t, "icollwrn")
		}
		if !ix.Plain[len(ix.Plain)-1] && !strings.HasPrefix(ix.Exprs[len(ix.Exprs)-1], "'") {
			// the COLLATE is part of what the expression computes: after a
			// comparison it belongs to the right operand and decides the
			// result (a = b COLLATE RTRIM)
			ix.Exprs[len(ix.Exprs)-1] = s
		}
		s += rapid.SampledFrom([]string{"", "", "", " ASC", " DESC", " DESC"}).Draw(t, "idir")
		ix.Cols = append(ix.Cols, s)
	}
	if partial && rapid.IntRange(0, 3).Draw(t, "ipartial") == 0 {
		c := Ref(t, rapid.SampledFrom(ids).Draw(t, "wc"), "wc")
		ix.Where = rapid.SampledFrom([]string{c + " > 0", c + " IS NOT NULL", c + " = 'lit'", c + " >= 10", c + " < 5", c + " <> 1", "abs(" + c + ") > 2", c + " > 0 AND " + c + " < 100"}).Draw(t, "where")
	}
	if rapid.IntRange(0, 9).Draw(t, "icomment") == 0 {
		ix.Comment = rapid.SampledFrom(comments).Draw(t, "icommenttext")
		if rapid.IntRange(0, 2).Draw(t, "icommenthides") == 0 {
			ix.Comment = rapid.SampledFrom([]string{"-- was\r COLLATE nocase DESC\n", "--\r DESC\n", "/*/ DESC /*/", "/*/ COLLATE NOCASE /*/", "-- x\r COLLATE rtrim\r\n"}).Draw(t, "icommenthiding")
		}
		ix.CommentAt = rapid.IntRange(0, 5).Draw(t, "icommentat")
	}
	if rapid.IntRange(0, 7).Draw(t, "isepkind") == 0 {
		ix.Sep = rapid.SampledFrom(Separators).Draw(t, "isep")
	}
	return ix
}
