// Package oracle is the client of the real-SQLite co-process
// (/verif/pyoracle/server.py).
package oracle

import (
	"bufio"
	"encoding/json"
	"errors"
	"fmt"
	"io"
	"os"
	"os/exec"
	"path/filepath"
	"strings"
	"sync"

	"verif/val"
)

type Oracle struct {
	mu  sync.Mutex
	cmd *exec.Cmd
	in  io.WriteCloser
	out *bufio.Reader
	Pid int
}

// VerifRoot is the /verif directory (env VERIF_ROOT, default /verif).
func VerifRoot() string {
	if r := os.Getenv("VERIF_ROOT"); r != "" {
		return r
	}
	return "/verif"
}

func Start() (*Oracle, error) {
	py := os.Getenv("VERIF_PYTHON")
	if py == "" {
		py = "python3"
	}
	cmd := exec.Command(py, filepath.Join(VerifRoot(), "pyoracle", "server.py"))
	cmd.Stderr = os.Stderr
	in, err := cmd.StdinPipe()
	if err != nil {
		return nil, err
	}
	out, err := cmd.StdoutPipe()
	if err != nil {
		return nil, err
	}
	if err := cmd.Start(); err != nil {
		return nil, err
	}
	o := &Oracle{cmd: cmd, in: in, out: bufio.NewReaderSize(out, 1<<20)}
	var v struct {
		Ok      bool
		Version string
		Pid     int
	}
	if err := o.call(map[string]interface{}{"op": "version"}, &v); err != nil {
		return nil, err
	}
	o.Pid = v.Pid
	return o, nil
}

func (o *Oracle) Stop() {
	o.mu.Lock()
	defer o.mu.Unlock()
	if o.cmd == nil {
		return
	}
	fmt.Fprintln(o.in, `{"op":"quit"}`)
	o.in.Close()
	o.cmd.Wait()
	o.cmd = nil
}

// ErrHarness marks failures of the oracle machinery itself (never a
// property violation).
var ErrHarness = errors.New("oracle harness error")

func (o *Oracle) call(req interface{}, resp interface{}) error {
	o.mu.Lock()
	defer o.mu.Unlock()
	b, err := json.Marshal(req)
	if err != nil {
		return fmt.Errorf("%w: marshal: %v", ErrHarness, err)
	}
	b = append(b, '\n')
	if _, err := o.in.Write(b); err != nil {
		return fmt.Errorf("%w: write: %v", ErrHarness, err)
	}
	line, err := o.out.ReadBytes('\n')
	if err != nil {
		return fmt.Errorf("%w: read: %v", ErrHarness, err)
	}
	if err := json.Unmarshal(line, resp); err != nil {
		return fmt.Errorf("%w: unmarshal %q: %v", ErrHarness, line, err)
	}
	return nil
}

type basic struct {
	Ok   bool
	Err  string
	Kind string
}

func (o *Oracle) simple(req map[string]interface{}) error {
	var r basic
	if err := o.call(req, &r); err != nil {
		return err
	}
	if !r.Ok {
		if r.Kind == "internal" {
			return fmt.Errorf("%w: %s", ErrHarness, r.Err)
		}
		return &SQLError{Msg: r.Err, Kind: r.Kind}
	}
	return nil
}

// SQLError is an error SQLite itself reported.
type SQLError struct {
	Msg, Kind string
}

func (e *SQLError) Error() string { return e.Kind + ": " + e.Msg }

func IsBusy(err error) bool {
	var se *SQLError
	if errors.As(err, &se) {
		return strings.Contains(se.Msg, "locked") || strings.Contains(se.Msg, "busy")
	}
	return false
}

func (o *Oracle) Open(conn, path string) error {
	return o.simple(map[string]interface{}{"op": "open", "conn": conn, "path": path})
}

func (o *Oracle) OpenNoCache(conn, path string) error {
	return o.simple(map[string]interface{}{"op": "open", "conn": conn, "path": path, "nocache": true})
}

func (o *Oracle) Close(conn string) error {
	return o.simple(map[string]interface{}{"op": "close", "conn": conn})
}

func (o *Oracle) Rm(paths ...string) error {
	return o.simple(map[string]interface{}{"op": "rm", "paths": paths})
}

func (o *Oracle) Copy(src, dst string) error {
	return o.simple(map[string]interface{}{"op": "copy", "src": src, "dst": dst})
}

type Stmt struct {
	SQL    string  `json:"sql"`
	Params []val.V `json:"params,omitempty"`
	Fetch  bool    `json:"fetch,omitempty"`
}

type StmtResult struct {
	Ok   bool
	Err  string
	Kind string
	Rows []val.Row
}

// Query runs one statement and returns its rows.
func (o *Oracle) Query(conn, sql string, params ...val.V) ([]val.Row, error) {
	var r struct {
		basic
		Rows []val.Row
	}
	if params == nil {
		params = []val.V{}
	}
	if err := o.call(map[string]interface{}{"op": "exec", "conn": conn, "sql": sql, "params": params}, &r); err != nil {
		return nil, err
	}
	if !r.Ok {
		if r.Kind == "internal" {
			return nil, fmt.Errorf("%w: %s", ErrHarness, r.Err)
		}
		return nil, &SQLError{Msg: r.Err, Kind: r.Kind}
	}
	return r.Rows, nil
}

func (o *Oracle) Exec(conn, sql string, params ...val.V) error {
	_, err := o.Query(conn, sql, params...)
	return err
}

// Script runs statements in order (one round trip).
func (o *Oracle) Script(conn string, stmts []Stmt, stopOnError bool) ([]StmtResult, error) {
	var r struct {
		basic
		Results []StmtResult
	}
	if err := o.call(map[string]interface{}{"op": "script", "conn": conn, "stmts": stmts, "stop_on_error": stopOnError}, &r); err != nil {
		return nil, err
	}
	if !r.Ok {
		return nil, fmt.Errorf("%w: %s", ErrHarness, r.Err)
	}
	return r.Results, nil
}

// CursorOpen starts a statement and fetches n rows, leaving it active.
func (o *Oracle) CursorOpen(conn, cursor, sql string, n int) ([]val.Row, error) {
	var r struct {
		basic
		Rows []val.Row
	}
	if err := o.call(map[string]interface{}{"op": "cursor_open", "conn": conn, "cursor": cursor, "sql": sql, "n": n}, &r); err != nil {
		return nil, err
	}
	if !r.Ok {
		return nil, &SQLError{Msg: r.Err, Kind: r.Kind}
	}
	return r.Rows, nil
}

func (o *Oracle) CursorClose(conn, cursor string) error {
	return o.simple(map[string]interface{}{"op": "cursor_close", "conn": conn, "cursor": cursor})
}
