module verif

go 1.23

require (
	github.com/alicebob/sqlittle v0.0.0
	golang.org/x/sys v0.5.0
	pgregory.net/rapid v1.3.0
)

require golang.org/x/exp v0.0.0-20230224173230-c95f2b4c22f2 // indirect

replace github.com/alicebob/sqlittle => /repo
