//go:build ignore

package main

import (
	"fmt"

	"github.com/alicebob/sqlittle"
)

func main() {
	db, err := sqlittle.Open("/tmp/dbg/e.sqlite")
	if err != nil {
		panic(err)
	}
	for _, tn := range []string{"t1", "t2", "t3", "t4"} {
		cols, err := db.Columns(tn)
		fmt.Printf("%s cols=%q err=%v\n", tn, cols, err)
		if err != nil {
			continue
		}
		err = db.Select(tn, func(r sqlittle.Row) { fmt.Printf("   %v\n", r) }, cols...)
		fmt.Println("  select err", err)
	}
	err = db.IndexedSelect("t1", "i1", func(r sqlittle.Row) { fmt.Printf("   %v\n", r) }, "a", "b", "c")
	fmt.Println("  indexed err", err)
}
