// lockprobe: reads database paths on stdin, answers with the lock state of
// each (JSON per line). Lives in its own process because F_GETLK does not
// report the caller's own locks.
package main

import (
	"bufio"
	"encoding/json"
	"fmt"
	"os"

	"verif/locks"
)

func main() {
	files := map[string]*os.File{}
	sc := bufio.NewScanner(os.Stdin)
	out := bufio.NewWriter(os.Stdout)
	for sc.Scan() {
		path := sc.Text()
		var resp struct {
			State locks.State
			Err   string
		}
		f := files[path]
		if f == nil {
			var err error
			f, err = os.Open(path)
			if err != nil {
				resp.Err = err.Error()
			} else {
				files[path] = f
			}
		}
		if f != nil {
			st, err := locks.ProbeFd(f)
			resp.State = st
			if err != nil {
				resp.Err = err.Error()
			}
		}
		b, _ := json.Marshal(resp)
		fmt.Fprintf(out, "%s\n", b)
		out.Flush()
	}
}
