// peer: uses sqlittle handles in another process on command (JSON lines).
//
//	{"cmd":"read","path":p}    open, select everything from table t, close
//	{"cmd":"hold","path":p}    start a select and park inside its row callback
//	{"cmd":"hold-forgotten","path":p}  the same on a handle nothing refers to once the select runs (and that is never closed), with garbage collections inside the callback
//	{"cmd":"release"}          let the parked select finish
//	{"cmd":"rawlock","path":p} / {"cmd":"rawshared","path":p} / {"cmd":"rawunlock"}   fcntl locks on the shared range without any reading
package main

import (
	"bufio"
	"encoding/json"
	"fmt"
	"os"
	"runtime"
	"time"

	"github.com/alicebob/sqlittle"
	"golang.org/x/sys/unix"
)

type req struct {
	Cmd  string
	Path string
}

type resp struct {
	Rows int
	Err  string
	Held bool
}

// scanForgotten opens a handle and selects from t the way a one-shot helper
// without a Close does: once Select runs nothing refers to the handle any
// more. The first row's callback lets the garbage collector run (twice, with
// time for finalisers) and parks.
//
//go:noinline
func scanForgotten(path string, inside chan bool, release chan struct{}) (rows int, err error, entered bool) {
	db, err := sqlittle.Open(path)
	if err != nil {
		return 0, err, false
	}
	err = db.Select("t", func(sqlittle.Row) {
		rows++
		if !entered {
			entered = true
			runtime.GC()
			time.Sleep(2 * time.Millisecond)
			runtime.GC()
			time.Sleep(time.Millisecond)
			inside <- true
			<-release
		}
	}, "a")
	return rows, err, entered
}

func main() {
	sc := bufio.NewScanner(os.Stdin)
	out := bufio.NewWriter(os.Stdout)
	reply := func(r resp) {
		b, _ := json.Marshal(r)
		fmt.Fprintf(out, "%s\n", b)
		out.Flush()
	}
	var release chan struct{}
	var done chan resp
	var rawFile *os.File
	for sc.Scan() {
		var q req
		if err := json.Unmarshal(sc.Bytes(), &q); err != nil {
			reply(resp{Err: err.Error()})
			continue
		}
		switch q.Cmd {
		case "read":
			db, err := sqlittle.Open(q.Path)
			if err != nil {
				reply(resp{Err: err.Error()})
				continue
			}
			n := 0
			err = db.Select("t", func(sqlittle.Row) { n++ }, "a")
			db.Close()
			r := resp{Rows: n}
			if err != nil {
				r.Err = err.Error()
			}
			reply(r)
		case "hold":
			if release != nil {
				reply(resp{Err: "already holding"})
				continue
			}
			release = make(chan struct{})
			done = make(chan resp, 1)
			inside := make(chan bool, 1) // true: parked inside the callback, holding the read lock
			go func(path string, release chan struct{}) {
				db, err := sqlittle.Open(path)
				if err != nil {
					done <- resp{Err: err.Error()}
					inside <- false
					return
				}
				n := 0
				first := true
				err = db.Select("t", func(sqlittle.Row) {
					n++
					if first {
						first = false
						inside <- true
						<-release
					}
				}, "a")
				db.Close()
				r := resp{Rows: n}
				if err != nil {
					r.Err = err.Error()
				}
				done <- r
				if first {
					// the select ended without a row (empty table, or an
					// error such as a hot journal): nothing is held
					inside <- false
				}
			}(q.Path, release)
			if <-inside {
				reply(resp{Held: true})
			} else {
				r := <-done
				release, done = nil, nil
				reply(r)
			}
		case "hold-forgotten":
			if release != nil {
				reply(resp{Err: "already holding"})
				continue
			}
			release = make(chan struct{})
			done = make(chan resp, 1)
			{
				inside := make(chan bool, 1)
				go func(path string, release chan struct{}) {
					n, err, entered := scanForgotten(path, inside, release)
					r := resp{Rows: n}
					if err != nil {
						r.Err = err.Error()
					}
					done <- r
					if !entered {
						inside <- false
					}
				}(q.Path, release)
				if <-inside {
					reply(resp{Held: true})
				} else {
					r := <-done
					release, done = nil, nil
					reply(r)
				}
			}
		case "release":
			if release == nil {
				reply(resp{Err: "not holding"})
				continue
			}
			close(release)
			r := <-done
			release, done = nil, nil
			reply(r)
		case "rawlock":
			// a write lock on SQLite's shared range WITHOUT the pending byte
			// (what a process using the lock bytes directly could do)
			f, err := os.OpenFile(q.Path, os.O_RDWR, 0)
			if err != nil {
				reply(resp{Err: err.Error()})
				continue
			}
			fl := unix.Flock_t{Type: unix.F_WRLCK, Whence: 0, Start: 0x40000000 + 2, Len: 510}
			if err := unix.FcntlFlock(f.Fd(), unix.F_SETLK, &fl); err != nil {
				f.Close()
				reply(resp{Err: err.Error()})
				continue
			}
			rawFile = f
			reply(resp{Held: true})
		case "rawshared":
			// a read lock on the shared range, as any reader holds it while it
			// looks at the file (also while it decides whether a journal is hot)
			f, err := os.Open(q.Path)
			if err != nil {
				reply(resp{Err: err.Error()})
				continue
			}
			fl := unix.Flock_t{Type: unix.F_RDLCK, Whence: 0, Start: 0x40000000 + 2, Len: 510}
			if err := unix.FcntlFlock(f.Fd(), unix.F_SETLK, &fl); err != nil {
				f.Close()
				reply(resp{Err: err.Error()})
				continue
			}
			if rawFile != nil {
				rawFile.Close()
			}
			rawFile = f
			reply(resp{Held: true})
		case "rawunlock":
			if rawFile != nil {
				rawFile.Close()
				rawFile = nil
			}
			reply(resp{})
		default:
			reply(resp{Err: "unknown command"})
		}
	}
}
