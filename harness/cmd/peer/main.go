// peer: uses sqlittle handles in another process on command (JSON lines).
//
//	{"cmd":"read","path":p}    open, select everything from table t, close
//	{"cmd":"hold","path":p}    start a select and park inside its row callback
//	{"cmd":"release"}          let the parked select finish
package main

import (
	"bufio"
	"encoding/json"
	"fmt"
	"os"

	"github.com/alicebob/sqlittle"
)

type req struct {
	Cmd  string
	Path string
}

type resp struct {
	Rows int
	Err  string
	Held bool
}

func main() {
	sc := bufio.NewScanner(os.Stdin)
	out := bufio.NewWriter(os.Stdout)
	reply := func(r resp) {
		b, _ := json.Marshal(r)
		fmt.Fprintf(out, "%s\n", b)
		out.Flush()
	}
	var release chan struct{}
	var done chan resp
	for sc.Scan() {
		var q req
		if err := json.Unmarshal(sc.Bytes(), &q); err != nil {
			reply(resp{Err: err.Error()})
			continue
		}
		switch q.Cmd {
		case "read":
			db, err := sqlittle.Open(q.Path)
			if err != nil {
				reply(resp{Err: err.Error()})
				continue
			}
			n := 0
			err = db.Select("t", func(sqlittle.Row) { n++ }, "a")
			db.Close()
			r := resp{Rows: n}
			if err != nil {
				r.Err = err.Error()
			}
			reply(r)
		case "hold":
			if release != nil {
				reply(resp{Err: "already holding"})
				continue
			}
			release = make(chan struct{})
			done = make(chan resp, 1)
			inside := make(chan struct{}, 1)
			go func(path string, release chan struct{}) {
				db, err := sqlittle.Open(path)
				if err != nil {
					inside <- struct{}{}
					done <- resp{Err: err.Error()}
					return
				}
				n := 0
				first := true
				err = db.Select("t", func(sqlittle.Row) {
					n++
					if first {
						first = false
						inside <- struct{}{}
						<-release
					}
				}, "a")
				if first {
					inside <- struct{}{}
				}
				db.Close()
				r := resp{Rows: n}
				if err != nil {
					r.Err = err.Error()
				}
				done <- r
			}(q.Path, release)
			<-inside
			reply(resp{Held: true})
		case "release":
			if release == nil {
				reply(resp{Err: "not holding"})
				continue
			}
			close(release)
			r := <-done
			release, done = nil, nil
			reply(r)
		default:
			reply(resp{Err: "unknown command"})
		}
	}
}
