// Package grid is the shared value grid: every storage class, the numeric
// boundaries where int64 and float64 comparison and width selection change,
// and text/blob variants that separate the collations.
package grid

import (
	"math"
	"strings"

	"verif/val"
)

func Ints() []int64 {
	var out []int64
	seen := map[int64]bool{}
	add := func(n int64) {
		if !seen[n] {
			seen[n] = true
			out = append(out, n)
		}
	}
	for _, n := range []int64{0, 1, -1, 2, 5, 42, -42} {
		add(n)
	}
	for _, sh := range []uint{7, 8, 15, 16, 23, 24, 31, 32, 47, 48, 53, 62} {
		p := int64(1) << sh
		for _, d := range []int64{-2, -1, 0, 1, 2} {
			add(p + d)
			add(-p + d)
		}
	}
	add(math.MaxInt64)
	add(math.MaxInt64 - 1)
	add(math.MinInt64)
	add(math.MinInt64 + 1)
	add(math.MaxInt64 - 512)
	add(math.MaxInt64 - 1023)
	return out
}

func Reals() []float64 {
	out := []float64{
		0, math.Copysign(0, -1), 1, -1, 0.5, -0.5, 1.5, 2.5, 41.9, 42.0, 42.1, -42.5,
		math.SmallestNonzeroFloat64, -math.SmallestNonzeroFloat64,
		2.2250738585072014e-308, // smallest normal
		math.MaxFloat64, -math.MaxFloat64,
		math.Inf(1), math.Inf(-1),
		1e15 + 0.5, 127.5, 128.0, -128.5, 32767.5, 8388607.5, 2147483647.5,
		140737488355327.5,
	}
	for _, e := range []int{31, 32, 47, 48, 52, 53, 54, 62, 63, 64} {
		p := math.Ldexp(1, e)
		out = append(out, p, -p, math.Nextafter(p, 0), math.Nextafter(p, math.Inf(1)),
			-math.Nextafter(p, 0), -math.Nextafter(p, math.Inf(1)))
	}
	return out
}

func Texts() []string {
	return []string{
		"", " ", "  ", "a", "A", "b", "B", "a ", "a  ", "A ", "a\t", "a\n", "a\r", " a", "ab", "aB", "AB", "Ab", "abc",
		"a\x00", "a\x00b", "a\x00c", "A\x00b", "a\x00bd", "\x00", "\x00a", "\x00A",
		"z", "Z", "[", "`", "@", "{", "_", "0", "1", "10", "9", "-1", "1.5", "1e3",
		"é", "É", "e", "ß", "ǅ", "日本", "日本 ", "😀", "a😀", "aé", "aÉ",
		"abc ", "abc  ", "ABC", "ABC ", "abd", "ab\t", "K", "k", "K", // Kelvin sign
		strings.Repeat("x", 70), strings.Repeat("x", 70) + " ", strings.Repeat("X", 70),
	}
}

func Blobs() [][]byte {
	return [][]byte{
		{}, {0}, {0, 0}, {1}, {0x61}, {0x41}, {0x61, 0x20}, {0x61, 0x00, 0x62}, {0xff}, {0xff, 0xff}, {0x7f}, {0x80},
		[]byte("abc"), []byte("ABC"), []byte(strings.Repeat("y", 70)),
	}
}

// All gives the whole grid as values.
func All() []val.V {
	out := []val.V{val.Null()}
	for _, i := range Ints() {
		out = append(out, val.Int(i))
	}
	for _, r := range Reals() {
		out = append(out, val.Real(r))
	}
	for _, s := range Texts() {
		out = append(out, val.Text(s))
	}
	for _, b := range Blobs() {
		out = append(out, val.Blob(b))
	}
	return out
}
