// Package refcmp is a reference implementation of SQLite's value ordering,
// written for obviousness. It shares no code with sqlittle and is validated
// against real SQLite (see checks/c11) before it is used as an oracle.
package refcmp

import (
	"bytes"
	"math/big"

	"verif/val"
)

const (
	Binary = "binary"
	Nocase = "nocase"
	Rtrim  = "rtrim"
)

var Collations = []string{Binary, Nocase, Rtrim}

func classRank(v val.V) int {
	switch v.T {
	case 'n':
		return 0
	case 'i', 'r':
		return 1
	case 't':
		return 2
	case 'b':
		return 3
	}
	panic("bad kind")
}

func num(v val.V) *big.Float {
	if v.T == 'i' {
		return new(big.Float).SetPrec(64).SetInt64(v.I)
	}
	return new(big.Float).SetPrec(53).SetFloat64(v.Float()) // NaN is never generated
}

func lowerASCII(c byte) byte {
	if c >= 'A' && c <= 'Z' {
		return c + 32
	}
	return c
}

func sign(n int) int {
	switch {
	case n < 0:
		return -1
	case n > 0:
		return 1
	}
	return 0
}

// nocase as SQLite 3.40 implements it: sqlite3StrNICmp over the common
// length (it stops at a NUL byte in the left string), then the lengths.
func nocase(a, b []byte) int {
	n := len(a)
	if len(b) < n {
		n = len(b)
	}
	for i := 0; i < n; i++ {
		ca, cb := lowerASCII(a[i]), lowerASCII(b[i])
		if a[i] == 0 || ca != cb {
			if d := int(ca) - int(cb); d != 0 {
				return sign(d)
			}
			break // both NUL: StrNICmp says equal
		}
	}
	return sign(len(a) - len(b))
}

func rtrim(a []byte) []byte {
	for len(a) > 0 && a[len(a)-1] == ' ' {
		a = a[:len(a)-1]
	}
	return a
}

// Compare orders two storable values the way SQLite does under the named
// collation (only used for text vs text).
func Compare(a, b val.V, coll string) int {
	ra, rb := classRank(a), classRank(b)
	if ra != rb {
		return sign(ra - rb)
	}
	switch ra {
	case 0:
		return 0
	case 1:
		return num(a).Cmp(num(b))
	case 2:
		switch coll {
		case Nocase:
			return nocase(a.B, b.B)
		case Rtrim:
			return bytes.Compare(rtrim(a.B), rtrim(b.B))
		default:
			return bytes.Compare(a.B, b.B)
		}
	default:
		return bytes.Compare(a.B, b.B)
	}
}

// KeyCol mirrors a column of an index key.
type KeyCol struct {
	V       val.V
	Collate string // "" = binary
	Desc    bool
}

func coll(c string) string {
	if c == "" {
		return Binary
	}
	return c
}

// CmpRecord compares a record with a key in index order over the key's
// columns: -1 record sorts before the key, 0 equal on all key columns, +1
// after. A record with fewer columns than the key sorts before it when the
// shared columns are equal.
func CmpRecord(key []KeyCol, rec []val.V) int {
	for i, k := range key {
		if i >= len(rec) {
			return -1
		}
		c := Compare(rec[i], k.V, coll(k.Collate))
		if k.Desc {
			c = -c
		}
		if c != 0 {
			return c
		}
	}
	return 0
}

// Equals: the record equals the key on all the key's columns.
func Equals(key []KeyCol, rec []val.V) bool { return CmpRecord(key, rec) == 0 && len(rec) >= len(key) }

// NotLess: the record is not less than the key (in index order).
func NotLess(key []KeyCol, rec []val.V) bool { return CmpRecord(key, rec) >= 0 }
