// Package locks observes SQLite's POSIX advisory locks on a database file.
//
// POSIX record locks are per process: F_GETLK only reports locks held by
// OTHER processes. Probe (in process) therefore sees the locks of the SQLite
// writer in the oracle process; to see the locks sqlittle holds in this
// process the out-of-process helper (cmd/lockprobe, Client) is needed.
package locks

import (
	"bufio"
	"encoding/json"
	"fmt"
	"io"
	"os"
	"os/exec"
	"path/filepath"
	"sync"

	"golang.org/x/sys/unix"
)

const (
	PendingByte  = 0x40000000
	ReservedByte = PendingByte + 1
	SharedFirst  = PendingByte + 2
	SharedSize   = 510
)

// Lock describes who blocks a range: Type "none", "read" or "write".
type Lock struct {
	Type string
	Pid  int
}

// State is the lock state of a database file as seen from the probing process.
type State struct {
	Pending, Reserved, Shared Lock
}

func (s State) String() string {
	return fmt.Sprintf("pending=%s/%d reserved=%s/%d shared=%s/%d", s.Pending.Type, s.Pending.Pid, s.Reserved.Type, s.Reserved.Pid, s.Shared.Type, s.Shared.Pid)
}

// SQLiteLevel names the SQLite lock level another process appears to hold.
func (s State) SQLiteLevel() string {
	switch {
	case s.Shared.Type == "write":
		return "EXCLUSIVE"
	case s.Pending.Type == "write":
		return "PENDING"
	case s.Reserved.Type == "write":
		return "RESERVED"
	case s.Shared.Type == "read":
		return "SHARED"
	}
	return "UNLOCKED"
}

func probeRange(fd uintptr, start, length int64) (Lock, error) {
	// would a write lock conflict? reports the blocking lock of another process
	fl := unix.Flock_t{Type: unix.F_WRLCK, Whence: 0, Start: start, Len: length}
	if err := unix.FcntlFlock(fd, unix.F_GETLK, &fl); err != nil {
		return Lock{}, err
	}
	switch fl.Type {
	case unix.F_UNLCK:
		return Lock{Type: "none"}, nil
	case unix.F_RDLCK:
		return Lock{Type: "read", Pid: int(fl.Pid)}, nil
	default:
		return Lock{Type: "write", Pid: int(fl.Pid)}, nil
	}
}

// ProbeFd probes through an open descriptor (closing a descriptor of the file
// drops this process' own locks on it, so callers keep it open).
func ProbeFd(f *os.File) (State, error) {
	var s State
	var err error
	if s.Pending, err = probeRange(f.Fd(), PendingByte, 1); err != nil {
		return s, err
	}
	if s.Reserved, err = probeRange(f.Fd(), ReservedByte, 1); err != nil {
		return s, err
	}
	s.Shared, err = probeRange(f.Fd(), SharedFirst, SharedSize)
	return s, err
}

// Client talks to the out-of-process probe.
type Client struct {
	mu  sync.Mutex
	cmd *exec.Cmd
	in  io.WriteCloser
	out *bufio.Reader
}

// ToolPath gives the path of a helper binary built by the driver.
func ToolPath(name string) string {
	dir := os.Getenv("VERIF_TOOLS_DIR")
	if dir == "" {
		dir = "/verif/harness/.build"
	}
	// helpers that link sqlittle are built per repository copy
	if suf := os.Getenv("VERIF_TOOLS_SUFFIX"); suf != "" {
		if _, err := os.Stat(filepath.Join(dir, name+suf)); err == nil {
			return filepath.Join(dir, name+suf)
		}
	}
	return filepath.Join(dir, name)
}

// StartClient starts cmd/lockprobe (built by the driver into VERIF_TOOLS_DIR).
func StartClient() (*Client, error) {
	cmd := exec.Command(ToolPath("lockprobe"))
	cmd.Stderr = os.Stderr
	in, err := cmd.StdinPipe()
	if err != nil {
		return nil, err
	}
	out, err := cmd.StdoutPipe()
	if err != nil {
		return nil, err
	}
	if err := cmd.Start(); err != nil {
		return nil, err
	}
	return &Client{cmd: cmd, in: in, out: bufio.NewReader(out)}, nil
}

// Probe asks the helper for the lock state of path.
func (c *Client) Probe(path string) (State, error) {
	c.mu.Lock()
	defer c.mu.Unlock()
	var s State
	if _, err := fmt.Fprintf(c.in, "%s\n", path); err != nil {
		return s, err
	}
	line, err := c.out.ReadBytes('\n')
	if err != nil {
		return s, err
	}
	var resp struct {
		State State
		Err   string
	}
	if err := json.Unmarshal(line, &resp); err != nil {
		return s, err
	}
	if resp.Err != "" {
		return s, fmt.Errorf("lockprobe: %s", resp.Err)
	}
	return resp.State, nil
}

func (c *Client) Stop() {
	if c == nil || c.cmd == nil {
		return
	}
	c.in.Close()
	c.cmd.Wait()
	c.cmd = nil
}

// Peer is a client of cmd/peer: sqlittle handles and raw fcntl locks in
// another process.
type Peer struct {
	cmd *exec.Cmd
	in  io.WriteCloser
	out *bufio.Reader
	Pid int
}

type PeerResp struct {
	Rows int
	Err  string
	Held bool
}

func StartPeer() (*Peer, error) {
	cmd := exec.Command(ToolPath("peer"))
	cmd.Stderr = os.Stderr
	in, err := cmd.StdinPipe()
	if err != nil {
		return nil, err
	}
	out, err := cmd.StdoutPipe()
	if err != nil {
		return nil, err
	}
	if err := cmd.Start(); err != nil {
		return nil, err
	}
	return &Peer{cmd: cmd, in: in, out: bufio.NewReader(out), Pid: cmd.Process.Pid}, nil
}

func (p *Peer) Call(cmd, path string) (PeerResp, error) {
	var r PeerResp
	b, _ := json.Marshal(map[string]string{"cmd": cmd, "path": path})
	if _, err := p.in.Write(append(b, '\n')); err != nil {
		return r, err
	}
	line, err := p.out.ReadBytes('\n')
	if err != nil {
		return r, err
	}
	return r, json.Unmarshal(line, &r)
}

func (p *Peer) Stop() {
	if p != nil && p.cmd != nil {
		p.in.Close()
		p.cmd.Wait()
	}
}
