// Package e1 is the differential engine against real SQLite: it generates
// database specs (schema + data + a history of statements), has SQLite build
// the file, reads SQLite's catalogue and answers reference queries.
package e1

import (
	"fmt"
	"os"
	"strings"
	"verif/fold"

	"pgregory.net/rapid"

	"verif/gen"
	"verif/oracle"
	"verif/sqdb"
	"verif/sqlgen"
	"verif/val"
	"verif/vt"
)

// TableSpec is a table with its indexes and initial data.
type TableSpec struct {
	Def     sqlgen.Table
	Indexes []sqlgen.Index
	Rows    []RowSpec
	Bulk    []BulkSpec
}

// RowSpec is one INSERT OR IGNORE with parameters.
type RowSpec struct {
	Rowid *int64  `json:",omitempty"` // explicit rowid (rowid tables without a shadowing column only)
	Vals  []val.V // one per column
}

// BulkSpec inserts N rows computed by SQLite from a counter x.
type BulkSpec struct {
	N     int
	From  int
	Exprs []string // one per column, expressions over x
}

// Spec is a whole database.
type Spec struct {
	PageSize   int
	AutoVacuum int
	Tables     []TableSpec
	History    []string // statements run after the initial load (may fail; SQLite decides)
	// SchemaFormat 2 or 3: SQLite is made to write the file in that older
	// format (it keeps the format of a file it finds), in which DESC in index
	// definitions is ignored. 0: the current format (4).
	SchemaFormat int `json:",omitempty"`
	// TriggerNames: before the last table is created, a trigger of that very
	// name is created on the first table (triggers have a namespace of their
	// own: the table is still what its name refers to)
	TriggerNames bool `json:",omitempty"`
}

var bulkExprs = []string{
	"x", "x", "-x", "x*1.5", "x/2", "x%7", "'v'||x", "printf('%05d',x)", "printf('%d',x%10)", "NULL", "CASE WHEN x%5=0 THEN NULL ELSE x END",
	"zeroblob(x%9)", "CAST(x AS TEXT)", "x*1.0", "substr('abcdefghijklmnopqrstuvwxyz', 1+x%20, 1+x%5)", "upper(substr('abcdefghijklmnopqrstuvwxyz', 1+x%20, 2))",
	"x%3", "'dup'", "CASE x%4 WHEN 0 THEN 'a' WHEN 1 THEN 'A' WHEN 2 THEN 'a ' ELSE 'b' END", "x*1000003%1009", "9007199254740992+x", "x-500",
	"substr(hex(zeroblob(2000)),1,(x*37)%1100)", "CASE WHEN x%50=0 THEN hex(zeroblob(@BIG@)) ELSE x END",
}

// Opts steers Gen.
type Opts struct {
	MaxTables    int
	Indexes      bool
	History      bool
	Conservative bool // keep to the core grammar sqlittle is expected to accept
	BigRows      int  // upper bound of bulk rows (0 = no bulk inserts)
	PageSizes    []int
	OnlyRowid    bool
	// WideWR: now and then one more table - WITHOUT ROWID, 66-75 columns, a
	// key column beyond the 64th
	WideWR bool
}

func genColValue(t *rapid.T, u int) val.V {
	switch rapid.IntRange(0, 12).Draw(t, "cvk") {
	case 9:
		// short blobs, the empty one among them (not NULL, and not '')
		return val.Blob(rapid.SampledFrom([][]byte{{}, {}, {0}, {0xff}, []byte("ab"), {0, 0}, []byte("a ")}).Draw(t, "cvb"))
	case 0:
		// payload sized around the spill thresholds
		n := rapid.SampledFrom([]int{u - 40, u - 36, u - 35, u - 34, u, 2*u + 10, u/4 - 25, u / 4}).Draw(t, "cvlen") + rapid.IntRange(-6, 2).Draw(t, "cvd")
		if n < 0 {
			n = 0
		}
		b := make([]byte, n)
		for i := range b {
			b[i] = byte('a' + i%26)
		}
		if rapid.Bool().Draw(t, "cvtext") {
			return val.Text(string(b))
		}
		return val.Blob(b)
	case 1, 2, 3:
		return val.Int(rapid.SampledFrom([]int64{0, 1, 2, 3, -1, 5, 7, 10, 42, 127, 128, 32768, 1 << 31, -(1 << 31), 1 << 47, 9007199254740992, 9007199254740993, 9223372036854775807, -9223372036854775808}).Draw(t, "cvi"))
	case 4:
		return val.Real(rapid.SampledFrom([]float64{0, 1, 1.5, -2.5, 3.0, 42.0, 1e10, 9007199254740992, 9007199254740994, 1e300, 0.1}).Draw(t, "cvr"))
	case 5, 6, 7:
		return val.Text(rapid.SampledFrom([]string{"", "a", "A", "a ", "a  ", "b", "B", "ab", "abc", "é", "É", "1", "12", "1.5", "1e3", " 7", "0x10", "a\x00b", "lit", "x", "7 ", "-3",
			// text of every UTF-8 length class (collations compare bytes; NOCASE folds A-Z only)
			"€", "日本", "ж", "Ж", "ω", "𝔘", "é€", "É€", "z€", "ÿ", "ß",
			// TEXT that is not well-formed UTF-8: SQLite stores and returns any bytes
			"caf\xe9", "\xff\xfe", "\xed\xa0\x80", "a\xc3"}).Draw(t, "cvt"))
	case 8:
		return val.Null()
	default:
		return gen.Value().Draw(t, "cvv")
	}
}

func shadowsRowid(tb sqlgen.Table) bool {
	for _, c := range tb.Cols {
		switch fold.Lower(c.Name) {
		case "rowid", "oid", "_rowid_":
			return true
		}
	}
	return false
}

// Gen draws a database spec.
func Gen(t *rapid.T, o Opts) Spec {
	if o.MaxTables == 0 {
		o.MaxTables = 2
	}
	if o.PageSizes == nil {
		o.PageSizes = []int{512, 512, 512, 1024, 1024, 2048, 4096, 4096, 8192, 65536}
	}
	s := Spec{PageSize: rapid.SampledFrom(o.PageSizes).Draw(t, "ps"), AutoVacuum: rapid.SampledFrom([]int{0, 0, 0, 1, 2}).Draw(t, "av"),
		SchemaFormat: rapid.SampledFrom([]int{0, 0, 0, 0, 0, 0, 3, 2}).Draw(t, "schemaformat")}
	used := map[string]bool{"other": true, "t2": true, "sqlite_master": true}
	nt := rapid.IntRange(1, o.MaxTables).Draw(t, "ntables")
	s.TriggerNames = nt > 1 && rapid.IntRange(0, 5).Draw(t, "triggernames") == 0
	for ti := 0; ti < nt; ti++ {
		ts := TableSpec{}
		for {
			ts.Def = sqlgen.GenTable(t, sqlgen.GenIdent(t, used, "tn"), sqlgen.Opts{MaxCols: 5, Conservative: o.Conservative || rapid.IntRange(0, 3).Draw(t, "cons") > 0})
			if !o.OnlyRowid || !ts.Def.WithoutRowid {
				break
			}
		}
		if o.Indexes {
			ni := rapid.IntRange(0, 3).Draw(t, "nidx")
			for i := 0; i < ni; i++ {
				ts.Indexes = append(ts.Indexes, sqlgen.GenIndex(t, sqlgen.GenIdent(t, used, "in"), ts.Def, rapid.IntRange(0, 4).Draw(t, "uq") == 0, true, true))
			}
		}
		nrows := rapid.SampledFrom([]int{0, 1, 3, 8, 8, 20, 20, 45}).Draw(t, "nrows")
		explicit := !ts.Def.WithoutRowid && !shadowsRowid(ts.Def)
		for r := 0; r < nrows; r++ {
			var row RowSpec
			if explicit && rapid.IntRange(0, 3).Draw(t, "explicit") == 0 {
				id := rapid.SampledFrom([]int64{-9223372036854775808, -5, -1, 0, 1, 2, 100, 1 << 31, 1 << 40, 9223372036854775806}).Draw(t, "rid") + int64(rapid.IntRange(0, 50).Draw(t, "ridd"))
				row.Rowid = &id
			}
			for range ts.Def.Cols {
				row.Vals = append(row.Vals, genColValue(t, s.PageSize))
			}
			ts.Rows = append(ts.Rows, row)
		}
		if len(ts.Rows) > 0 && rapid.Bool().Draw(t, "variants") {
			// rows that repeat another row except for the letter case or the
			// trailing spaces of one or two of its texts: equal under NOCASE or
			// RTRIM, different under BINARY - what multi-column keys with mixed
			// collations tell apart
			nv := rapid.IntRange(1, 6).Draw(t, "nvariants")
			for v := 0; v < nv; v++ {
				src := ts.Rows[rapid.IntRange(0, len(ts.Rows)-1).Draw(t, "vsrc")]
				row := RowSpec{Vals: append([]val.V{}, src.Vals...)}
				for k := rapid.IntRange(1, 2).Draw(t, "vcols"); k > 0; k-- {
					c := rapid.IntRange(0, len(row.Vals)-1).Draw(t, "vcol")
					if row.Vals[c].T != 't' {
						row.Vals[c] = val.Text(rapid.SampledFrom([]string{"ab", "AB", "ab ", "Ab", "aB  "}).Draw(t, "vtext"))
						continue
					}
					b := append([]byte{}, row.Vals[c].B...)
					switch rapid.IntRange(0, 2).Draw(t, "vhow") {
					case 0, 1:
						for i, ch := range b {
							switch {
							case ch >= 'a' && ch <= 'z':
								b[i] = ch - 'a' + 'A'
							case ch >= 'A' && ch <= 'Z':
								b[i] = ch - 'A' + 'a'
							}
						}
					}
					if rapid.IntRange(0, 2).Draw(t, "vspace") == 0 {
						b = append(b, "  "[:rapid.IntRange(1, 2).Draw(t, "vnspace")]...)
					}
					row.Vals[c] = val.Text(string(b))
				}
				ts.Rows = append(ts.Rows, row)
			}
		}
		if o.BigRows > 0 && rapid.IntRange(0, 2).Draw(t, "bulk") == 0 {
			b := BulkSpec{N: rapid.SampledFrom([]int{30, 100, 300, o.BigRows}).Draw(t, "bulkn"), From: rapid.SampledFrom([]int{1, 1, -50, 1000}).Draw(t, "bulkfrom")}
			for range ts.Def.Cols {
				e := rapid.SampledFrom(bulkExprs).Draw(t, "bulkexpr")
				if strings.Contains(e, "@BIG@") {
					e = strings.ReplaceAll(e, "@BIG@", fmt.Sprint(s.PageSize/2+rapid.IntRange(0, 40).Draw(t, "bulkbig")))
				}
				b.Exprs = append(b.Exprs, e)
			}
			ts.Bulk = append(ts.Bulk, b)
		}
		s.Tables = append(s.Tables, ts)
	}
	if o.History {
		nh := rapid.IntRange(0, 5).Draw(t, "nhist")
		// some databases only grow columns: every old row then reads the
		// declared-type x DEFAULT combinations of several added columns
		addOnly := rapid.IntRange(0, 4).Draw(t, "haddonly") == 0
		if addOnly {
			nh = rapid.IntRange(2, 5).Draw(t, "nhist2")
		}
		for i := 0; i < nh; i++ {
			ts := s.Tables[rapid.IntRange(0, len(s.Tables)-1).Draw(t, "htab")]
			tn := ts.Def.Ident.SQL
			col := rapid.SampledFrom(ts.Def.Cols).Draw(t, "hcol").Ident.SQL
			k := rapid.IntRange(2, 5).Draw(t, "hk")
			j := rapid.IntRange(0, 4).Draw(t, "hj")
			var st string
			hkind := rapid.IntRange(0, 13).Draw(t, "hkind")
			if addOnly {
				hkind = 3
			}
			switch hkind {
			case 0, 1:
				st = fmt.Sprintf("DELETE FROM %s WHERE %s IN (SELECT %s FROM %s ORDER BY 1 LIMIT %d OFFSET %d)", tn, col, col, tn, k*3, j)
			case 2:
				st = fmt.Sprintf("UPDATE OR IGNORE %s SET %s = %s WHERE %s IN (SELECT %s FROM %s ORDER BY 1 LIMIT %d OFFSET %d)", tn, col,
					rapid.SampledFrom([]string{"NULL", "'updated'", "hex(zeroblob(700))", "7", "1.25", col + " || 'x'", "x''"}).Draw(t, "hval"), col, col, tn, k*2, j)
			case 3:
				nn := fmt.Sprintf("added%d", i)
				// declared type x DEFAULT: rows written before the ALTER get
				// the default with the column's affinity applied
				def := rapid.SampledFrom(AddDefaults).Draw(t, "hadddef")
				if rapid.IntRange(0, 3).Draw(t, "haddold") == 0 {
					def = rapid.SampledFrom([]string{"", "DEFAULT 'dflt'", "DEFAULT 5", "DEFAULT 7", "DEFAULT NULL", "DEFAULT -3", "DEFAULT TRUE", "DEFAULT abc", "DEFAULT ''"}).Draw(t, "hadddef2")
				}
				st = strings.TrimSpace(fmt.Sprintf("ALTER TABLE %s ADD COLUMN %s %s %s", tn, nn, rapid.SampledFrom(AddTypes).Draw(t, "haddtype"), def))
			case 4:
				st = "VACUUM"
			case 5:
				st = "PRAGMA incremental_vacuum"
			case 6:
				st = fmt.Sprintf("DELETE FROM %s", tn)
			case 7:
				st = fmt.Sprintf("INSERT OR IGNORE INTO %s SELECT * FROM %s LIMIT %d", tn, tn, k*4)
			case 8:
				st = fmt.Sprintf("REINDEX")
			case 10:
				// objects in sqlite_master that are no tables or indexes
				st = fmt.Sprintf("CREATE VIEW IF NOT EXISTS view%d AS SELECT * FROM %s", i, tn)
			case 11:
				st = fmt.Sprintf("CREATE TRIGGER IF NOT EXISTS trig%d AFTER INSERT ON %s BEGIN SELECT 1; END", i, tn)
			case 12:
				st = "ANALYZE" // makes the table sqlite_stat1
			case 13:
				// a table without a b-tree of its own (root page 0) and its shadow tables
				st = fmt.Sprintf("CREATE VIRTUAL TABLE IF NOT EXISTS ft%d USING fts5(x)", i)
			default:
				st = fmt.Sprintf("UPDATE OR IGNORE %s SET %s = %s", tn, col, rapid.SampledFrom([]string{"NULL", "rowid", "'same'", col}).Draw(t, "hval2"))
			}
			s.History = append(s.History, st)
		}
	}
	if o.WideWR && !s.TriggerNames && !used["widewr"] && rapid.IntRange(0, 11).Draw(t, "widewr") == 0 {
		n := rapid.IntRange(66, 75).Draw(t, "widecols")
		k := rapid.IntRange(64, n-2).Draw(t, "widekey")
		ts := TableSpec{Def: sqlgen.Table{Ident: sqlgen.Ident{Name: "widewr", SQL: "widewr"}, WithoutRowid: true}}
		for i := 0; i < n; i++ {
			c := fmt.Sprintf("c%d", i)
			ts.Def.Cols = append(ts.Def.Cols, sqlgen.Col{Ident: sqlgen.Ident{Name: c, SQL: c}})
		}
		pk := fmt.Sprintf("PRIMARY KEY (c%d)", k)
		if rapid.Bool().Draw(t, "widekey2") {
			pk = fmt.Sprintf("PRIMARY KEY (c%d, c2)", k)
		}
		ts.Def.Cons = []string{pk}
		for r := 0; r < 3; r++ {
			var row RowSpec
			for i := 0; i < n; i++ {
				row.Vals = append(row.Vals, val.Text(fmt.Sprintf("r%d-c%d", r, i)))
			}
			ts.Rows = append(ts.Rows, row)
		}
		s.Tables = append(s.Tables, ts)
	}
	return s
}

// Statements renders the spec as the script SQLite runs.
func (s Spec) Statements() []oracle.Stmt {
	var out []oracle.Stmt
	for i, ts := range s.Tables {
		if s.TriggerNames && i > 0 && i == len(s.Tables)-1 {
			out = append(out, oracle.Stmt{SQL: fmt.Sprintf("CREATE TRIGGER %s AFTER INSERT ON %s BEGIN SELECT 1; END", ts.Def.Ident.SQL, s.Tables[0].Def.Ident.SQL)})
		}
		out = append(out, oracle.Stmt{SQL: ts.Def.SQL()})
	}
	out = append(out, oracle.Stmt{SQL: "BEGIN"})
	for _, ts := range s.Tables {
		var cols, ph []string
		generated := map[int]bool{} // (values of generated columns cannot be inserted)
		for i, c := range ts.Def.Cols {
			if c.Generated() {
				generated[i] = true
				continue
			}
			cols = append(cols, c.Ident.SQL)
		}
		for _, r := range ts.Rows {
			ph = ph[:0]
			var params []val.V
			cl := cols
			if r.Rowid != nil {
				cl = append([]string{"rowid"}, cols...)
				ph = append(ph, "?")
				params = append(params, val.Int(*r.Rowid))
			}
			for i, v := range r.Vals {
				if generated[i] {
					continue
				}
				ph = append(ph, sqdb.TextParam(v))
				params = append(params, v)
			}
			out = append(out, oracle.Stmt{SQL: fmt.Sprintf("INSERT OR IGNORE INTO %s (%s) VALUES (%s)", ts.Def.Ident.SQL, strings.Join(cl, ", "), strings.Join(ph, ", ")), Params: params})
		}
		for _, b := range ts.Bulk {
			out = append(out, oracle.Stmt{SQL: fmt.Sprintf("WITH RECURSIVE c(x) AS (SELECT %d UNION ALL SELECT x+1 FROM c WHERE x < %d) INSERT OR IGNORE INTO %s (%s) SELECT %s FROM c",
				b.From, b.From+b.N-1, ts.Def.Ident.SQL, strings.Join(cols, ", "), strings.Join(dropAt(b.Exprs, generated), ", "))})
		}
	}
	out = append(out, oracle.Stmt{SQL: "COMMIT"})
	for _, ts := range s.Tables {
		for _, ix := range ts.Indexes {
			out = append(out, oracle.Stmt{SQL: ix.SQL()})
		}
	}
	for _, h := range s.History {
		out = append(out, oracle.Stmt{SQL: h})
	}
	return out
}

// Build has SQLite write the database. Statements that fail are skipped
// (SQLite decides what exists); the connection is closed afterwards.
// created[i] tells whether table i exists.
func Build(r *vt.Run, t vt.TB, env *sqdb.Env, s Spec, path string) (created []bool, failed int) {
	stmts := s.Statements()
	sqdb.Remove(path)
	if err := env.O.Open("e1w", path); err != nil {
		r.Harness(t, "open: %v", err)
	}
	pre := []oracle.Stmt{{SQL: fmt.Sprintf("PRAGMA page_size=%d", s.PageSize)}, {SQL: fmt.Sprintf("PRAGMA auto_vacuum=%d", s.AutoVacuum)}}
	if s.SchemaFormat == 2 || s.SchemaFormat == 3 {
		// an empty file with that schema format in its header: SQLite keeps
		// the format for everything it creates in the file afterwards
		if _, err := env.O.Script("e1w", append(pre, oracle.Stmt{SQL: "VACUUM"}), true); err != nil {
			r.Harness(t, "legacy format: %v", err)
		}
		if err := env.O.Close("e1w"); err != nil {
			r.Harness(t, "legacy format: close: %v", err)
		}
		b, err := os.ReadFile(path)
		if err != nil || len(b) < 100 {
			r.Harness(t, "legacy format: empty database has %d bytes: %v", len(b), err)
		}
		b[44], b[45], b[46], b[47] = 0, 0, 0, byte(s.SchemaFormat)
		b[56], b[57], b[58], b[59] = 0, 0, 0, 1 // UTF-8, which SQLite sets together with the format
		if err := os.WriteFile(path, b, 0o644); err != nil {
			r.Harness(t, "legacy format: %v", err)
		}
		if err := env.O.Open("e1w", path); err != nil {
			r.Harness(t, "legacy format: reopen: %v", err)
		}
		r.Count(fmt.Sprintf("schema-format=%d", s.SchemaFormat), 1)
	}
	res, err := env.O.Script("e1w", append(pre, stmts...), false)
	if err != nil {
		r.Harness(t, "script: %v", err)
	}
	if len(res) != len(stmts)+2 {
		r.Harness(t, "script: %d results for %d statements", len(res), len(stmts)+2)
	}
	for i, ts := range s.Tables {
		_ = ts
		at := 2 + i
		if s.TriggerNames && i > 0 && i == len(s.Tables)-1 {
			at++ // (the trigger's statement stands before this table's)
		}
		created = append(created, res[at].Ok)
	}
	for _, x := range res {
		if !x.Ok {
			failed++
			if x.Kind == "internal" {
				r.Harness(t, "oracle: %s", x.Err)
			}
		}
	}
	// a failed statement inside BEGIN..COMMIT leaves the transaction open only
	// if COMMIT itself failed; make sure nothing is pending
	env.O.Script("e1w", []oracle.Stmt{{SQL: "COMMIT"}}, false)
	if err := env.O.Close("e1w"); err != nil {
		r.Harness(t, "close: %v", err)
	}
	return created, failed
}

// Column is a row of PRAGMA table_xinfo.
type Column struct {
	Cid     int
	Name    string
	Type    string
	NotNull bool
	Dflt    val.V
	PK      int
	Hidden  int
}

// XInfo is a row of PRAGMA index_xinfo.
type XInfo struct {
	Seq  int
	Cid  int    // -1 rowid, -2 expression
	Name string // "" for rowid/expression
	Desc bool
	Coll string
	Key  bool
}

// IndexInfo is a row of PRAGMA index_list plus its xinfo.
type IndexInfo struct {
	Name    string
	Unique  bool
	Origin  string // c, u, pk
	Partial bool
	Cols    []XInfo
}

// Catalog is what SQLite says about a table.
type Catalog struct {
	Name         string
	Columns      []Column
	WithoutRowid bool
	Indexes      []IndexInfo
	PKIndex      *IndexInfo // WITHOUT ROWID: the table itself
}

func qident(s string) string { return `"` + strings.ReplaceAll(s, `"`, `""`) + `"` }

// QIdent quotes an identifier for use in oracle queries.
func QIdent(s string) string { return qident(s) }

// ReadCatalog asks SQLite about a table (connection conn must be open).
func ReadCatalog(r *vt.Run, t vt.TB, o *oracle.Oracle, conn, table string) *Catalog {
	c := &Catalog{Name: table}
	q := func(sql string) []val.Row {
		rows, err := o.Query(conn, sql)
		if err != nil {
			r.Harness(t, "catalog query %q: %v", sql, err)
		}
		return rows
	}
	for _, row := range q("PRAGMA table_xinfo(" + qident(table) + ")") {
		c.Columns = append(c.Columns, Column{Cid: int(row[0].I), Name: string(row[1].B), Type: string(row[2].B), NotNull: row[3].I != 0, Dflt: row[4], PK: int(row[5].I), Hidden: int(row[6].I)})
	}
	for _, row := range q("PRAGMA table_list(" + qident(table) + ")") {
		// schema, name, type, ncol, wr, strict
		c.WithoutRowid = row[4].I != 0
	}
	for _, row := range q("PRAGMA index_list(" + qident(table) + ")") {
		ii := IndexInfo{Name: string(row[1].B), Unique: row[2].I != 0, Origin: string(row[3].B), Partial: row[4].I != 0}
		for _, x := range q("PRAGMA index_xinfo(" + qident(ii.Name) + ")") {
			xi := XInfo{Seq: int(x[0].I), Cid: int(x[1].I), Desc: x[3].I != 0, Coll: string(x[4].B), Key: x[5].I != 0}
			if x[2].T == 't' {
				xi.Name = string(x[2].B)
			}
			ii.Cols = append(ii.Cols, xi)
		}
		if ii.Origin == "pk" && c.WithoutRowid {
			cp := ii
			c.PKIndex = &cp
			continue
		}
		c.Indexes = append(c.Indexes, ii)
	}
	return c
}

// RowidName gives a spelling of the rowid no column shadows ("" if none).
func (c *Catalog) RowidName() string {
	if c.WithoutRowid {
		return ""
	}
	for _, n := range []string{"rowid", "oid", "_rowid_"} {
		sh := false
		for _, col := range c.Columns {
			if fold.Equal(col.Name, n) {
				sh = true
			}
		}
		if !sh {
			return n
		}
	}
	return ""
}

// OrderByTable gives the ORDER BY list of the table's native order.
func (c *Catalog) OrderByTable() (string, bool) {
	if !c.WithoutRowid {
		n := c.RowidName()
		return n, n != ""
	}
	if c.PKIndex == nil {
		return "", false
	}
	var parts []string
	for _, x := range c.PKIndex.Cols {
		if !x.Key {
			continue
		}
		p := qident(x.Name) + " COLLATE " + x.Coll
		if x.Desc {
			p += " DESC"
		}
		parts = append(parts, p)
	}
	return strings.Join(parts, ", "), len(parts) > 0
}

// SameValue compares what sqlittle returned with what SQLite returned. The
// only tolerance is the documented one: an integral REAL may surface as an
// integer.
func SameValue(got interface{}, want val.V) bool {
	g, ok := val.FromGo(got)
	if !ok {
		return false
	}
	if g.Equal(want) {
		return true
	}
	if g.T == 'i' && want.T == 'r' {
		f := want.Float()
		return f == float64(g.I) && f > -9.1e18 && f < 9.1e18 && int64(f) == g.I
	}
	return false
}

// SameRow compares a row.
func SameRow(got []interface{}, want val.Row) bool {
	if len(got) != len(want) {
		return false
	}
	for i := range got {
		if !SameValue(got[i], want[i]) {
			return false
		}
	}
	return true
}

// ShowGot renders a sqlittle row.
func ShowGot(got []interface{}) string {
	var vs val.Row
	for _, x := range got {
		v, ok := val.FromGo(x)
		if !ok {
			return fmt.Sprint(got)
		}
		vs = append(vs, v)
	}
	return vs.String()
}

var AddTypes = []string{"", "", "INTEGER", "INT", "TEXT", "REAL", "NUMERIC", "BLOB", "VARCHAR(10)", "DECIMAL(10,5)", "FLOAT", "DOUBLE", "BOOLEAN", "TEXT COLLATE NOCASE", "BIGINT", "DATETIME"}

// DEFAULT clauses for added columns: integer, real and text literals, among
// them texts that look like numbers to some parsers and not to SQLite.
var AddDefaults = []string{"", "DEFAULT 5", "DEFAULT -3", "DEFAULT +7", "DEFAULT 1", "DEFAULT 010", "DEFAULT 0x10", "DEFAULT 1e3", "DEFAULT 1.5", "DEFAULT -2.25", "DEFAULT 3.0",
	"DEFAULT 9223372036854775807", "DEFAULT 9223372036854775808", "DEFAULT -9223372036854775808", "DEFAULT TRUE", "DEFAULT FALSE", "DEFAULT abc", "DEFAULT NULL",
	"DEFAULT ''", "DEFAULT 'dflt'", "DEFAULT 'x'", "DEFAULT 'Q'", "DEFAULT '12'", "DEFAULT ' 12 '", "DEFAULT '1e2'", "DEFAULT '1e999'", "DEFAULT '-1e999'", "DEFAULT 'inf'",
	"DEFAULT 'Infinity'", "DEFAULT '-inf'", "DEFAULT 'nan'", "DEFAULT 'NaN'", "DEFAULT '0x10'", "DEFAULT '0x1p4'", "DEFAULT '+-5'", "DEFAULT '++5'", "DEFAULT '+5'", "DEFAULT '-5'",
	"DEFAULT '5.'", "DEFAULT '.5'", "DEFAULT '5e'", "DEFAULT '1_000'", "DEFAULT '1.0'", "DEFAULT '1.50'", "DEFAULT '9223372036854775808'", "DEFAULT '-9223372036854775809'",
	"DEFAULT '00012'", "DEFAULT '012'", "DEFAULT 'e5'", "DEFAULT '1e5'", "DEFAULT '123abc'", "DEFAULT x'00ff'", "DEFAULT x''", "DEFAULT 1e999", "DEFAULT -1e999", "DEFAULT 0.0", "DEFAULT -0.0", "DEFAULT '-0'",
	"DEFAULT '1e-400'", "DEFAULT 100000000000000000000", "DEFAULT '100000000000000000000'", "DEFAULT .5", "DEFAULT 5.", "DEFAULT 1e+2", "DEFAULT '1E2'",
	// the first and the last digit in every place a digit can stand
	"DEFAULT '9'", "DEFAULT '0'", "DEFAULT '90'", "DEFAULT '-19'", "DEFAULT '0.9'", "DEFAULT '9.0'", "DEFAULT '1e9'", "DEFAULT '1e09'", "DEFAULT '+9'", "DEFAULT '.9'", "DEFAULT '.0'", "DEFAULT '1e0'", "DEFAULT '9e-9'"}

// IntegerArgsPK tells whether the table has a shape that used to be a listed
// known finding (repaired by def0057; now only counted as a coverage class):
// a table (rowid, or WITHOUT ROWID where the same rule decides when
// the key's index is numbered) whose single-column primary key is declared with a
// type INTEGER followed by arguments, e.g. `a INTEGER(10) PRIMARY KEY`. SQLite
// does not make such a column a rowid alias (the declared type is not exactly
// "INTEGER"); sqlittle's parser dropped the arguments and treated it as one.
func IntegerArgsPK(tb sqlgen.Table) bool {
	for _, c := range tb.Cols {
		ty := fold.Upper(strings.TrimSpace(c.Type))
		if !strings.HasPrefix(ty, "INTEGER(") && !strings.HasPrefix(ty, "INTEGER (") {
			continue
		}
		for _, k := range c.Cons {
			if strings.HasPrefix(k, "PRIMARY KEY") {
				return true
			}
		}
		for _, k := range tb.Cons {
			ku := fold.Upper(k)
			i := strings.Index(ku, "PRIMARY KEY (")
			if i < 0 {
				continue
			}
			inner := k[i+len("PRIMARY KEY ("):]
			if j := strings.LastIndex(inner, ")"); j >= 0 {
				inner = inner[:j]
			}
			inner = strings.TrimSpace(inner)
			if strings.HasPrefix(inner, c.Ident.SQL) && !strings.Contains(inner[len(c.Ident.SQL):], ",") {
				return true
			}
		}
	}
	return false
}

// KnownRawDefault is the signature of the listed finding about DEFAULT values.
const KnownRawDefault = "short-row-default-raw-literal"

// RawDefault: every differing position is a column with a DEFAULT whose
// literal text, taken as is, is what sqlittle returned (SQLite applies the
// column affinity / evaluates TRUE and FALSE).
func RawDefault(cat *Catalog, cols []string, got []interface{}, want val.Row) bool {
	if len(got) != len(want) {
		return false
	}
	found := false
	for j := range want {
		if SameValue(got[j], want[j]) {
			continue
		}
		var col *Column
		for k := range cat.Columns {
			if fold.Equal(cat.Columns[k].Name, cols[j]) {
				col = &cat.Columns[k]
			}
		}
		if col == nil || col.Dflt.T != 't' {
			return false
		}
		lit := string(col.Dflt.B)
		var raw string
		switch g := got[j].(type) {
		case int64:
			raw = fmt.Sprint(g)
			lit = strings.TrimPrefix(lit, "+")
		case string:
			raw = g
			if strings.HasPrefix(lit, "'") && strings.HasSuffix(lit, "'") && len(lit) >= 2 {
				lit = strings.ReplaceAll(lit[1:len(lit)-1], "''", "'")
			}
		default:
			return false
		}
		if raw != lit {
			return false
		}
		found = true
	}
	return found
}

func dropAt(xs []string, drop map[int]bool) []string {
	if len(drop) == 0 {
		return xs
	}
	var out []string
	for i, x := range xs {
		if !drop[i] {
			out = append(out, x)
		}
	}
	return out
}
