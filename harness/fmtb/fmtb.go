// Package fmtb is an independent SQLite database image builder, written from
// the file format description (https://sqlite.org/fileformat2.html). It shares
// no code with sqlittle. It is cross-validated against real SQLite (PRAGMA
// integrity_check and SELECT equality) by the checks that use it.
package fmtb

import (
	"encoding/binary"
	"fmt"
	"math"

	"verif/val"
)

// ---------------------------------------------------------------- varints

// VarintLen is the minimal encoded length of v.
func VarintLen(v uint64) int {
	n := 1
	for x := v >> 7; x != 0 && n < 9; x >>= 7 {
		n++
	}
	if v>>56 != 0 {
		return 9
	}
	return n
}

// Varint encodes v in n bytes (0 = minimal length). n larger than minimal
// gives a padded (non-canonical but decodable) encoding.
func Varint(v uint64, n int) []byte {
	min := VarintLen(v)
	if n == 0 {
		n = min
	}
	if n < min || n > 9 {
		panic(fmt.Sprintf("varint %d does not fit %d bytes", v, n))
	}
	out := make([]byte, n)
	if n == 9 {
		out[8] = byte(v)
		v >>= 8
		for i := 7; i >= 0; i-- {
			out[i] = byte(v&0x7f) | 0x80
			v >>= 7
		}
		return out
	}
	for i := n - 1; i >= 0; i-- {
		out[i] = byte(v & 0x7f)
		if i != n-1 {
			out[i] |= 0x80
		}
		v >>= 7
	}
	return out
}

// ---------------------------------------------------------------- records

// Field is one value of a record with encoding choices.
type Field struct {
	V        val.V
	IntWidth int // 0: as SQLite would (smallest, constants 8/9 for 0/1); else 1,2,3,4,6,8 bytes
	TypeLen  int // length of the serial type varint, 0 = minimal
}

func F(v val.V) Field { return Field{V: v} }

// MinIntWidth is the number of bytes SQLite uses for i (0 for the constants).
func MinIntWidth(i int64) int {
	switch {
	case i == 0 || i == 1:
		return 0
	case i >= -128 && i <= 127:
		return 1
	case i >= -32768 && i <= 32767:
		return 2
	case i >= -8388608 && i <= 8388607:
		return 3
	case i >= -2147483648 && i <= 2147483647:
		return 4
	case i >= -140737488355328 && i <= 140737488355327:
		return 6
	}
	return 8
}

// IntWidths lists the legal storage widths for i (0 = constant form).
func IntWidths(i int64) []int {
	var out []int
	for _, w := range []int{0, 1, 2, 3, 4, 6, 8} {
		if w >= MinIntWidth(i) && (w != 0 || i == 0 || i == 1) {
			out = append(out, w)
		}
	}
	return out
}

func serial(f Field) (uint64, []byte) {
	switch f.V.T {
	case 'n':
		return 0, nil
	case 'i':
		w := f.IntWidth
		if w == 0 {
			w = MinIntWidth(f.V.I)
			if w == 0 {
				return uint64(8 + f.V.I), nil
			}
		}
		if w < MinIntWidth(f.V.I) {
			panic("int width too small")
		}
		b := make([]byte, 8)
		binary.BigEndian.PutUint64(b, uint64(f.V.I))
		st := map[int]uint64{1: 1, 2: 2, 3: 3, 4: 4, 6: 5, 8: 6}[w]
		if st == 0 {
			panic("bad int width")
		}
		return st, b[8-w:]
	case 'r':
		b := make([]byte, 8)
		binary.BigEndian.PutUint64(b, f.V.R)
		return 7, b
	case 't':
		return uint64(len(f.V.B))*2 + 13, f.V.B
	case 'b':
		return uint64(len(f.V.B))*2 + 12, f.V.B
	}
	panic("bad value kind")
}

// EncodeRecord encodes a record; hdrLen is the length of the header-size
// varint (0 = minimal).
func EncodeRecord(fs []Field, hdrLen int) []byte {
	var types, body []byte
	for _, f := range fs {
		st, b := serial(f)
		types = append(types, Varint(st, f.TypeLen)...)
		body = append(body, b...)
	}
	// header size includes its own varint
	n := hdrLen
	if n == 0 {
		n = 1
		for VarintLen(uint64(len(types)+n)) > n {
			n++
		}
	}
	total := uint64(len(types) + n)
	if VarintLen(total) > n {
		panic("header size varint too short")
	}
	out := Varint(total, n)
	out = append(out, types...)
	return append(out, body...)
}

// Values makes minimal fields out of values.
func Values(vs ...val.V) []Field {
	out := make([]Field, len(vs))
	for i, v := range vs {
		out[i] = F(v)
	}
	return out
}

// ---------------------------------------------------------------- local payload rule

// Thresholds of the usable size U: X for table leaves, X for index pages, M.
func TableX(u int) int   { return u - 35 }
func IndexX(u int) int   { return ((u-12)*64)/255 - 23 }
func MinLocal(u int) int { return ((u-12)*32)/255 - 23 }

// LocalSize is the number of payload bytes stored on the b-tree page.
func LocalSize(p, u int, index bool) int {
	x := TableX(u)
	if index {
		x = IndexX(u)
	}
	if p <= x {
		return p
	}
	m := MinLocal(u)
	k := m + (p-m)%(u-4)
	if k <= x {
		return k
	}
	return m
}

// ---------------------------------------------------------------- pages

const (
	TableLeaf     = 0x0d
	TableInterior = 0x05
	IndexLeaf     = 0x0a
	IndexInterior = 0x02
)

type rng struct{ s uint64 }

func (r *rng) next() uint64 {
	r.s += 0x9e3779b97f4a7c15
	z := r.s
	z = (z ^ (z >> 30)) * 0xbf58476d1ce4e5b9
	z = (z ^ (z >> 27)) * 0x94d049bb133111eb
	return z ^ (z >> 31)
}

func (r *rng) intn(n int) int {
	if n <= 0 {
		return 0
	}
	return int(r.next() % uint64(n))
}

// Layout steers physical choices that do not change the logical content.
type Layout struct {
	Seed         uint64 // all pseudo random layout choices derive from it (a pure function of the spec)
	ScatterBlock int    // page numbers are handed out in shuffled blocks of this size (0/1 = sequential)
	FillerEvery  int    // leave every n-th page number unused (it goes to the freelist); 0 = none
	ShuffleCells bool   // cell content in random physical order
	Gaps         bool   // leave free blocks between cells
	// AutoVacuum (1 = full, 2 = incremental): an auto-vacuum file - pointer
	// map pages at their fixed places (never handed out for content), every
	// other page described there, largest root page in the header.
	AutoVacuum int `json:",omitempty"`
}

// Ref names a field of the image: where structure-aware corruption can aim.
type Ref struct {
	Off  int    // byte offset in the image
	Len  int    // length of the field
	Kind string // page.type, page.ncells, page.cellptr, page.content, page.rightmost, cell.child, cell.paysize, cell.rowid, cell.ovfl, ovfl.next, rec.hdrsize, rec.serial
	Page int
}

// Builder assembles a database image.
type Builder struct {
	Refs   []Ref
	U      int // page size (= usable size, reserved space is 0)
	Layout Layout
	r      rng
	pages  map[int][]byte
	queue  []int // page numbers ready to hand out
	nextPg int   // next fresh page number to put in a block
	free   []int
	// bookkeeping for checks
	OverflowPages int
}

func NewBuilder(pageSize int, l Layout) *Builder {
	b := &Builder{U: pageSize, Layout: l, r: rng{s: l.Seed}, pages: map[int][]byte{}, nextPg: 2}
	b.pages[1] = make([]byte, pageSize)
	return b
}

// Alloc hands out an unused page number.
func (b *Builder) Alloc() int {
	for len(b.queue) == 0 {
		n := b.Layout.ScatterBlock
		if n < 1 {
			n = 1
		}
		var blk []int
		for i := 0; i < n; i++ {
			p := b.nextPg
			b.nextPg++
			if b.Layout.AutoVacuum > 0 && b.isPtrmap(p) {
				continue
			}
			if b.Layout.FillerEvery > 0 && p%b.Layout.FillerEvery == 0 {
				b.free = append(b.free, p)
				continue
			}
			blk = append(blk, p)
		}
		for i := len(blk) - 1; i > 0; i-- {
			j := b.r.intn(i + 1)
			blk[i], blk[j] = blk[j], blk[i]
		}
		b.queue = append(b.queue, blk...)
	}
	p := b.queue[0]
	b.queue = b.queue[1:]
	b.pages[p] = make([]byte, b.U)
	return p
}

// isPtrmap: pointer map pages are page 2 and every (U/5 + 1)-th page after it
// (the images built here stay far below the pending-byte page).
func (b *Builder) isPtrmap(p int) bool {
	return p >= 2 && (p-2)%(b.U/5+1) == 0
}

// writePtrmap fills in the pointer map pages by walking the finished trees
// from their roots: type 1 root, 2 free, 3 first overflow page (parent: the
// page with the cell), 4 later overflow page (parent: the one before), 5
// b-tree page that is not a root (parent: the interior page above).
func (b *Builder) writePtrmap(roots []int, free []int, maxPg int) {
	per := b.U/5 + 1
	for p := 2; p <= maxPg; p += per {
		b.pages[p] = make([]byte, b.U)
	}
	set := func(p int, typ byte, parent int) {
		if p < 2 || p > maxPg || b.isPtrmap(p) {
			return
		}
		m := (p-2)/per*per + 2
		off := 5 * (p - m - 1)
		buf := b.pages[m]
		buf[off] = typ
		binary.BigEndian.PutUint32(buf[off+1:], uint32(parent))
	}
	chain := func(first, parent int) {
		typ := byte(3)
		for pg, n := first, 0; pg != 0 && n <= maxPg; n++ {
			set(pg, typ, parent)
			buf := b.pages[pg]
			if buf == nil {
				return
			}
			parent, typ = pg, 4
			pg = int(binary.BigEndian.Uint32(buf))
		}
	}
	seen := map[int]bool{}
	var walk func(pg int)
	walk = func(pg int) {
		buf := b.pages[pg]
		if buf == nil || seen[pg] {
			return
		}
		seen[pg] = true
		h := 0
		if pg == 1 {
			h = 100
		}
		typ := buf[h]
		interior := typ == 2 || typ == 5
		n := int(binary.BigEndian.Uint16(buf[h+3:]))
		ptrs := h + 8
		if interior {
			ptrs += 4
		}
		for i := 0; i < n; i++ {
			c := int(binary.BigEndian.Uint16(buf[ptrs+2*i:]))
			if interior {
				child := int(binary.BigEndian.Uint32(buf[c:]))
				set(child, 5, pg)
				walk(child)
				c += 4
			}
			if typ == 5 {
				continue
			}
			size, k := readVar(buf[c:])
			c += k
			if typ == 13 {
				_, k = readVar(buf[c:])
				c += k
			}
			l := LocalSize(int(size), b.U, typ != 13)
			if l < int(size) {
				chain(int(binary.BigEndian.Uint32(buf[c+l:])), pg)
			}
		}
		if interior {
			child := int(binary.BigEndian.Uint32(buf[h+8:]))
			set(child, 5, pg)
			walk(child)
		}
	}
	for _, r := range roots {
		set(r, 1, 0)
		func() {
			// a hostile sqlite_master may name anything as a root page: what
			// cannot be read as a b-tree is left undescribed
			defer func() { recover() }()
			walk(r)
		}()
	}
	for _, p := range free {
		set(p, 2, 0)
	}
}

// Cell is an encoded cell plus what the checks want to know about it.
type Cell struct {
	Bytes    []byte
	Overflow int // number of overflow pages
	refs     []Ref
}

// recRefs finds the header fields of the record starting at off in the cell
// (only as far as the local part reaches).
func recRefs(c []byte, off int) []Ref {
	var out []Ref
	if off >= len(c) {
		return nil
	}
	hs, n := readVar(c[off:])
	if n <= 0 {
		return nil
	}
	out = append(out, Ref{Off: off, Len: n, Kind: "rec.hdrsize"})
	p := off + n
	end := off + int(hs)
	for p < end && p < len(c) && len(out) < 12 {
		_, m := readVar(c[p:])
		if m <= 0 {
			break
		}
		out = append(out, Ref{Off: p, Len: m, Kind: "rec.serial"})
		p += m
	}
	return out
}

func readVar(b []byte) (uint64, int) {
	var v uint64
	for i := 0; i < 9 && i < len(b); i++ {
		if i == 8 {
			return v<<8 | uint64(b[i]), 9
		}
		v = v<<7 | uint64(b[i]&0x7f)
		if b[i] < 0x80 {
			return v, i + 1
		}
	}
	return 0, -1
}

// payload splits a payload into the local part and an overflow chain.
func (b *Builder) payload(p []byte, index bool) (local []byte, first int, npages int) {
	n := LocalSize(len(p), b.U, index)
	local = p[:n]
	rest := p[n:]
	if len(rest) == 0 {
		return local, 0, 0
	}
	// allocate the chain first so that its pages can be scattered and reversed
	var pgs []int
	for l := len(rest); l > 0; l -= b.U - 4 {
		pgs = append(pgs, b.Alloc())
	}
	for i, pg := range pgs {
		buf := b.pages[pg]
		for j := range buf {
			buf[j] = 0
		}
		next := 0
		if i+1 < len(pgs) {
			next = pgs[i+1]
		}
		binary.BigEndian.PutUint32(buf[0:4], uint32(next))
		b.Refs = append(b.Refs, Ref{Off: (pg - 1) * b.U, Len: 4, Kind: "ovfl.next", Page: pg})
		n := copy(buf[4:], rest)
		rest = rest[n:]
	}
	b.OverflowPages += len(pgs)
	return local, pgs[0], len(pgs)
}

// TableLeafCell: payload-size varint, rowid varint, local payload, overflow page.
// sizeLen and rowidLen are varint lengths (0 = minimal).
func (b *Builder) TableLeafCell(rowid int64, p []byte, sizeLen, rowidLen int) Cell {
	local, first, n := b.payload(p, false)
	c := Varint(uint64(len(p)), sizeLen)
	a := len(c)
	c = append(c, Varint(uint64(rowid), rowidLen)...)
	bb := len(c)
	c = append(c, local...)
	refs := []Ref{{Off: 0, Len: a, Kind: "cell.paysize"}, {Off: a, Len: bb - a, Kind: "cell.rowid"}}
	refs = append(refs, recRefs(c, bb)...)
	if first != 0 {
		refs = append(refs, Ref{Off: len(c), Len: 4, Kind: "cell.ovfl"})
		c = binary.BigEndian.AppendUint32(c, uint32(first))
	}
	return Cell{c, n, refs}
}

func TableInteriorCell(left int, key int64, keyLen int) Cell {
	c := binary.BigEndian.AppendUint32(nil, uint32(left))
	c = append(c, Varint(uint64(key), keyLen)...)
	return Cell{c, 0, []Ref{{Off: 0, Len: 4, Kind: "cell.child"}, {Off: 4, Len: len(c) - 4, Kind: "cell.rowid"}}}
}

func (b *Builder) IndexLeafCell(p []byte, sizeLen int) Cell {
	local, first, n := b.payload(p, true)
	c := Varint(uint64(len(p)), sizeLen)
	a := len(c)
	c = append(c, local...)
	refs := []Ref{{Off: 0, Len: a, Kind: "cell.paysize"}}
	refs = append(refs, recRefs(c, a)...)
	if first != 0 {
		refs = append(refs, Ref{Off: len(c), Len: 4, Kind: "cell.ovfl"})
		c = binary.BigEndian.AppendUint32(c, uint32(first))
	}
	return Cell{c, n, refs}
}

func (b *Builder) IndexInteriorCell(left int, p []byte, sizeLen int) Cell {
	local, first, n := b.payload(p, true)
	c := binary.BigEndian.AppendUint32(nil, uint32(left))
	c = append(c, Varint(uint64(len(p)), sizeLen)...)
	a := len(c)
	c = append(c, local...)
	refs := []Ref{{Off: 0, Len: 4, Kind: "cell.child"}, {Off: 4, Len: a - 4, Kind: "cell.paysize"}}
	refs = append(refs, recRefs(c, a)...)
	if first != 0 {
		refs = append(refs, Ref{Off: len(c), Len: 4, Kind: "cell.ovfl"})
		c = binary.BigEndian.AppendUint32(c, uint32(first))
	}
	return Cell{c, n, refs}
}

func hdrOff(pgno int) int {
	if pgno == 1 {
		return 100
	}
	return 0
}

func hdrLen(kind byte) int {
	if kind == TableInterior || kind == IndexInterior {
		return 12
	}
	return 8
}

func cellSpace(c Cell) int {
	if len(c.Bytes) < 4 {
		return 4
	}
	return len(c.Bytes)
}

// Fits tells whether the cells fit a page of this kind.
func (b *Builder) Fits(pgno int, kind byte, cells []Cell) bool {
	n := hdrOff(pgno) + hdrLen(kind) + 2*len(cells)
	for _, c := range cells {
		n += cellSpace(c)
		if b.Layout.Gaps {
			n += 8
		}
	}
	return n <= b.U
}

// WritePage lays out a b-tree page.
func (b *Builder) WritePage(pgno int, kind byte, cells []Cell, rightmost int) {
	if !b.Fits(pgno, kind, cells) {
		panic(LayoutError(fmt.Sprintf("page %d: %d cells do not fit", pgno, len(cells))))
	}
	buf := b.pages[pgno]
	if buf == nil {
		panic("page not allocated")
	}
	ho := hdrOff(pgno)
	for i := ho; i < len(buf); i++ {
		buf[i] = 0
	}
	hl := hdrLen(kind)
	// physical order of the cell bodies
	order := make([]int, len(cells))
	for i := range order {
		order[i] = i
	}
	if b.Layout.ShuffleCells {
		for i := len(order) - 1; i > 0; i-- {
			j := b.r.intn(i + 1)
			order[i], order[j] = order[j], order[i]
		}
	}
	type freeblk struct{ off, size int }
	var frees []freeblk
	top := b.U
	offs := make([]int, len(cells))
	for _, ci := range order {
		if b.Layout.Gaps && b.r.intn(2) == 0 {
			g := 4 + b.r.intn(5) // free block of 4..8 bytes
			top -= g
			frees = append(frees, freeblk{top, g})
		}
		top -= cellSpace(cells[ci])
		copy(buf[top:], cells[ci].Bytes)
		offs[ci] = top
		for _, rf := range cells[ci].refs {
			b.Refs = append(b.Refs, Ref{Off: (pgno-1)*b.U + top + rf.Off, Len: rf.Len, Kind: rf.Kind, Page: pgno})
		}
	}
	base := (pgno - 1) * b.U
	b.Refs = append(b.Refs, Ref{Off: base + ho, Len: 1, Kind: "page.type", Page: pgno}, Ref{Off: base + ho + 3, Len: 2, Kind: "page.ncells", Page: pgno},
		Ref{Off: base + ho + 5, Len: 2, Kind: "page.content", Page: pgno}, Ref{Off: base + ho + 1, Len: 2, Kind: "page.freeblock", Page: pgno})
	if hl == 12 {
		b.Refs = append(b.Refs, Ref{Off: base + ho + 8, Len: 4, Kind: "page.rightmost", Page: pgno})
	}
	for i := range offs {
		b.Refs = append(b.Refs, Ref{Off: base + ho + hl + 2*i, Len: 2, Kind: "page.cellptr", Page: pgno})
	}
	for i, o := range offs {
		binary.BigEndian.PutUint16(buf[ho+hl+2*i:], uint16(o))
	}
	buf[ho] = kind
	// free block chain in ascending order of offset
	firstFree := 0
	for i := 0; i < len(frees); i++ { // frees are in descending offset order
		f := frees[i]
		binary.BigEndian.PutUint16(buf[f.off:], uint16(firstFree))
		binary.BigEndian.PutUint16(buf[f.off+2:], uint16(f.size))
		// garbage in the rest of the free block
		for j := f.off + 4; j < f.off+f.size; j++ {
			buf[j] = 0xA5
		}
		firstFree = f.off
	}
	binary.BigEndian.PutUint16(buf[ho+1:], uint16(firstFree))
	binary.BigEndian.PutUint16(buf[ho+3:], uint16(len(cells)))
	if top == 65536 {
		binary.BigEndian.PutUint16(buf[ho+5:], 0)
	} else {
		binary.BigEndian.PutUint16(buf[ho+5:], uint16(top))
	}
	buf[ho+7] = 0
	if hl == 12 {
		binary.BigEndian.PutUint32(buf[ho+8:], uint32(rightmost))
	}
}

// ---------------------------------------------------------------- trees

// TreeOpts: how many cells per page the builder aims at (subject to fit).
type TreeOpts struct {
	LeafCells int // max cells per leaf (0 = as many as fit)
	Fanout    int // max children per interior page (0 = as many as fit; min 2)
	SepSlack  bool
	Root      int // page number for the root (0 = allocate)
	// KeylessRoot (with a fixed root page, i.e. sqlite_master on page 1): the
	// root is an interior page without any key, holding nothing but the
	// right-most pointer to the real tree - what SQLite leaves when
	// sqlite_master has shrunk to a single leaf that does not fit page 1,
	// which has 100 bytes less room than its child.
	KeylessRoot bool `json:",omitempty"`
}

// TableRow is one row of a table b-tree.
type TableRow struct {
	Rowid    int64
	Payload  []byte
	SizeLen  int
	RowidLen int
}

// LeafInfo describes one leaf of a built table tree.
type LeafInfo struct {
	Page        int
	First, Last int64
	N           int
}

// TableShape is what the checks learn about a built table tree.
type TableShape struct {
	Root       int
	Depth      int
	Leaves     []LeafInfo
	Separators []int64
	Pages      int
}

type child struct {
	page int
	max  int64 // largest rowid below
	min  int64
}

// LayoutError is the panic value when a requested layout is impossible.
type LayoutError string

func (e LayoutError) Error() string { return string(e) }

func (b *Builder) spaceOf(n int) int {
	if n < 4 {
		n = 4
	}
	if b.Layout.Gaps {
		n += 8
	}
	return n
}

// size of a cell without building it (no overflow pages are allocated)
func (b *Builder) tableLeafCellSize(r TableRow) int {
	n := len(Varint(uint64(len(r.Payload)), r.SizeLen)) + len(Varint(uint64(r.Rowid), r.RowidLen))
	l := LocalSize(len(r.Payload), b.U, false)
	n += l
	if l < len(r.Payload) {
		n += 4
	}
	return b.spaceOf(n)
}

func (b *Builder) indexCellSize(p []byte, interior bool) int {
	n := VarintLen(uint64(len(p)))
	l := LocalSize(len(p), b.U, true)
	n += l
	if l < len(p) {
		n += 4
	}
	if interior {
		n += 4
	}
	return b.spaceOf(n)
}

// groups splits n children into consecutive groups: a group takes children
// while fits(start, count) holds and count <= limit; no group (other than a
// lone root) is left with a single child.
func groups(n, limit int, fits func(start, count int) bool) [][2]int {
	var out [][2]int
	i := 0
	for i < n {
		cnt := 1
		for i+cnt < n && (limit <= 0 || cnt < limit) && fits(i, cnt+1) {
			cnt++
		}
		rem := n - (i + cnt)
		if rem == 1 {
			if fits(i, cnt+1) {
				cnt++
			} else if cnt >= 3 {
				cnt--
			}
		}
		if cnt == 1 && n > 1 {
			panic(LayoutError("interior page cannot hold two children"))
		}
		out = append(out, [2]int{i, i + cnt})
		i += cnt
	}
	return out
}

// BuildTable builds a table b-tree from rows sorted by rowid.
func (b *Builder) BuildTable(rows []TableRow, o TreeOpts) TableShape {
	if o.KeylessRoot && o.Root != 0 {
		inner := o
		inner.Root, inner.KeylessRoot = 0, false
		shape := b.BuildTable(rows, inner)
		b.WritePage(o.Root, TableInterior, nil, shape.Root)
		shape.Root = o.Root
		shape.Depth++
		shape.Pages++
		return shape
	}
	var shape TableShape
	avail := func(kind byte) int {
		ho := 0
		if o.Root == 1 {
			ho = 100 // conservative: any page could end up being page 1
		}
		return b.U - ho - hdrLen(kind)
	}
	// decide the leaves first (sizes only), then build
	var leafRanges [][2]int
	for i := 0; i < len(rows); {
		used, cnt := 0, 0
		for i+cnt < len(rows) && (o.LeafCells <= 0 || cnt < o.LeafCells) {
			sz := 2 + b.tableLeafCellSize(rows[i+cnt])
			if used+sz > avail(TableLeaf) {
				break
			}
			used += sz
			cnt++
		}
		if cnt == 0 {
			panic(LayoutError("a single table cell does not fit a page"))
		}
		leafRanges = append(leafRanges, [2]int{i, i + cnt})
		i += cnt
	}
	if len(leafRanges) == 0 {
		leafRanges = [][2]int{{0, 0}}
	}
	var level []child
	for _, lr := range leafRanges {
		pg := 0
		if len(leafRanges) == 1 && o.Root != 0 {
			pg = o.Root
		} else {
			pg = b.Alloc()
		}
		var cells []Cell
		for _, r := range rows[lr[0]:lr[1]] {
			cells = append(cells, b.TableLeafCell(r.Rowid, r.Payload, r.SizeLen, r.RowidLen))
		}
		b.WritePage(pg, TableLeaf, cells, 0)
		ch := child{page: pg}
		if len(cells) > 0 {
			ch.min, ch.max = rows[lr[0]].Rowid, rows[lr[1]-1].Rowid
		}
		level = append(level, ch)
		shape.Leaves = append(shape.Leaves, LeafInfo{pg, ch.min, ch.max, len(cells)})
		shape.Pages++
	}
	depth := 1
	for len(level) > 1 {
		depth++
		gs := groups(len(level), max(o.Fanout, 0), func(start, count int) bool {
			// count children = count-1 cells of at most 4+9 bytes (+2 pointer)
			used := 0
			for k := start; k < start+count-1; k++ {
				used += 2 + b.spaceOf(4+VarintLen(uint64(level[k].max+3)))
			}
			return used <= avail(TableInterior)
		})
		var up []child
		for _, g := range gs {
			pg := 0
			if len(gs) == 1 && o.Root != 0 {
				pg = o.Root
			} else {
				pg = b.Alloc()
			}
			var cells []Cell
			for k := g[0]; k < g[1]-1; k++ {
				key := level[k].max
				if o.SepSlack {
					gap := level[k+1].min - level[k].max - 1
					if gap > 0 {
						key += int64(b.r.intn(int(min(int64(3), gap)) + 1))
					}
				}
				cells = append(cells, TableInteriorCell(level[k].page, key, 0))
				shape.Separators = append(shape.Separators, key)
			}
			b.WritePage(pg, TableInterior, cells, level[g[1]-1].page)
			up = append(up, child{page: pg, min: level[g[0]].min, max: level[g[1]-1].max})
			shape.Pages++
		}
		level = up
	}
	shape.Root = level[0].page
	shape.Depth = depth
	return shape
}

// IndexShape describes a built index tree.
type IndexShape struct {
	Root          int
	Depth         int
	Pages         int
	InteriorEntry []int // positions (in the sorted entry list) held by interior pages
	LeafFirst     []int // positions that are the first entry of a leaf
	LeafLast      []int // positions that are the last entry of a leaf
}

// BuildIndex builds an index b-tree from encoded records in index order.
func (b *Builder) BuildIndex(entries [][]byte, o TreeOpts) IndexShape {
	var shape IndexShape
	availLeaf := b.U - hdrLen(IndexLeaf)
	availInt := b.U - hdrLen(IndexInterior)
	// leaves [start,end) separated by single divider entries
	var leaves [][2]int
	var dividers []int
	for i := 0; ; {
		used, cnt := 0, 0
		for i+cnt < len(entries) && (o.LeafCells <= 0 || cnt < o.LeafCells) {
			sz := 2 + b.indexCellSize(entries[i+cnt], false)
			if used+sz > availLeaf {
				break
			}
			used += sz
			cnt++
		}
		rem := len(entries) - (i + cnt)
		if rem == 1 {
			// a lone entry cannot be a divider (no right leaf would follow)
			if used+2+b.indexCellSize(entries[i+cnt], false) <= availLeaf {
				cnt++
			} else if cnt >= 2 {
				cnt--
			} else {
				panic(LayoutError("cannot place the last index entries"))
			}
			rem = len(entries) - (i + cnt)
		}
		if cnt == 0 && len(entries) > 0 {
			panic(LayoutError("a single index cell does not fit a page"))
		}
		leaves = append(leaves, [2]int{i, i + cnt})
		i += cnt
		if rem == 0 {
			break
		}
		dividers = append(dividers, i)
		i++
	}
	var pages []int
	for _, lf := range leaves {
		pg := b.Alloc()
		var cells []Cell
		for _, e := range entries[lf[0]:lf[1]] {
			cells = append(cells, b.IndexLeafCell(e, 0))
		}
		b.WritePage(pg, IndexLeaf, cells, 0)
		shape.Pages++
		pages = append(pages, pg)
		if lf[1] > lf[0] {
			shape.LeafFirst = append(shape.LeafFirst, lf[0])
			shape.LeafLast = append(shape.LeafLast, lf[1]-1)
		}
	}
	depth := 1
	for len(pages) > 1 {
		depth++
		gs := groups(len(pages), max(o.Fanout, 0), func(start, count int) bool {
			used := 0
			for k := start; k < start+count-1; k++ {
				used += 2 + b.indexCellSize(entries[dividers[k]], true)
			}
			return used <= availInt
		})
		var upPages, upDiv []int
		for _, g := range gs {
			pg := b.Alloc()
			var cells []Cell
			for k := g[0]; k < g[1]-1; k++ {
				cells = append(cells, b.IndexInteriorCell(pages[k], entries[dividers[k]], 0))
				shape.InteriorEntry = append(shape.InteriorEntry, dividers[k])
			}
			b.WritePage(pg, IndexInterior, cells, pages[g[1]-1])
			shape.Pages++
			upPages = append(upPages, pg)
			if g[1] < len(pages) {
				upDiv = append(upDiv, dividers[g[1]-1])
			}
		}
		pages, dividers = upPages, upDiv
	}
	shape.Root = pages[0]
	shape.Depth = depth
	return shape
}

// ---------------------------------------------------------------- database

// Object is a row of sqlite_master.
type Object struct {
	Type, Name, TblName string
	Root                int
	SQL                 string
}

// Header fields the checks may want to vary.
type Header struct {
	ChangeCounter uint32
	SchemaCookie  uint32
	SchemaFormat  uint32 // default 4
	UserVersion   uint32
	AppID         uint32
	CacheSize     uint32
	VersionNumber uint32
	// StaleSize (1..999, 0 = off): the file as a writer older than SQLite
	// 3.7.0 leaves it after appending to a file of a newer one - the
	// in-header size is that many per mille of the real page count and the
	// version-valid-for number no longer equals the change counter, which is
	// how a reader knows not to believe the size.
	StaleSize int `json:",omitempty"`
}

// Finish writes sqlite_master (root page 1), the freelist and the header and
// returns the image.
func (b *Builder) Finish(objs []Object, h Header, masterOpts TreeOpts) []byte {
	var raw [][]Field
	for _, o := range objs {
		sql := val.Text(o.SQL)
		if o.SQL == "\x00NULL" {
			sql = val.Null()
		}
		raw = append(raw, Values(val.Text(o.Type), val.Text(o.Name), val.Text(o.TblName), val.Int(int64(o.Root)), sql))
	}
	return b.FinishRaw(raw, h, masterOpts)
}

// FinishRaw is Finish with arbitrary sqlite_master records.
func (b *Builder) FinishRaw(master [][]Field, h Header, masterOpts TreeOpts) []byte {
	var rows []TableRow
	for i, fs := range master {
		rows = append(rows, TableRow{Rowid: int64(i + 1), Payload: EncodeRecord(fs, 0)})
	}
	masterOpts.Root = 1
	b.BuildTable(rows, masterOpts)
	// pages never handed out (still queued) become free pages too
	for _, p := range b.queue {
		b.free = append(b.free, p)
	}
	b.queue = nil
	maxPg := 1
	for p := range b.pages {
		if p > maxPg {
			maxPg = p
		}
	}
	var free []int
	for _, p := range b.free {
		if p <= maxPg {
			free = append(free, p)
		}
	}
	allFree := append([]int(nil), free...)
	// freelist: trunk pages hold up to (U/4 - 2) leaf numbers
	firstTrunk, nfree := 0, len(free)
	perTrunk := b.U/4 - 2
	var prevTrunk []byte
	for len(free) > 0 {
		trunk := free[0]
		free = free[1:]
		n := len(free)
		if n > perTrunk {
			n = perTrunk
		}
		buf := make([]byte, b.U)
		binary.BigEndian.PutUint32(buf[4:], uint32(n))
		for k := 0; k < n; k++ {
			binary.BigEndian.PutUint32(buf[8+4*k:], uint32(free[k]))
			leaf := make([]byte, b.U)
			for x := range leaf {
				leaf[x] = 0xEE // stale content on free pages
			}
			b.pages[free[k]] = leaf
		}
		free = free[n:]
		b.pages[trunk] = buf
		if prevTrunk == nil {
			firstTrunk = trunk
		} else {
			binary.BigEndian.PutUint32(prevTrunk[0:], uint32(trunk))
		}
		prevTrunk = buf
	}
	maxRoot := 0
	if b.Layout.AutoVacuum > 0 {
		roots := []int{1}
		for _, fs := range master {
			if len(fs) > 3 && fs[3].V.T == 'i' && fs[3].V.I > 1 {
				roots = append(roots, int(fs[3].V.I))
				if int(fs[3].V.I) > maxRoot {
					maxRoot = int(fs[3].V.I)
				}
			}
		}
		if maxRoot == 0 {
			maxRoot = 1 // what marks the file as auto-vacuum has to be non-zero
		}
		b.writePtrmap(roots, allFree, maxPg)
	}
	p1 := b.pages[1]
	copy(p1, "SQLite format 3\x00")
	if b.U == 65536 {
		binary.BigEndian.PutUint16(p1[16:], 1)
	} else {
		binary.BigEndian.PutUint16(p1[16:], uint16(b.U))
	}
	p1[18], p1[19], p1[20] = 1, 1, 0
	p1[21], p1[22], p1[23] = 64, 32, 32
	if h.ChangeCounter == 0 {
		h.ChangeCounter = 1
	}
	if h.SchemaFormat == 0 {
		h.SchemaFormat = 4
	}
	if h.VersionNumber == 0 {
		h.VersionNumber = 3040001
	}
	binary.BigEndian.PutUint32(p1[24:], h.ChangeCounter)
	binary.BigEndian.PutUint32(p1[28:], uint32(maxPg))
	binary.BigEndian.PutUint32(p1[32:], uint32(firstTrunk))
	binary.BigEndian.PutUint32(p1[36:], uint32(nfree))
	binary.BigEndian.PutUint32(p1[40:], h.SchemaCookie)
	binary.BigEndian.PutUint32(p1[44:], h.SchemaFormat)
	binary.BigEndian.PutUint32(p1[48:], h.CacheSize)
	binary.BigEndian.PutUint32(p1[52:], uint32(maxRoot))
	binary.BigEndian.PutUint32(p1[56:], 1)
	binary.BigEndian.PutUint32(p1[60:], h.UserVersion)
	binary.BigEndian.PutUint32(p1[64:], 0)
	if b.Layout.AutoVacuum == 2 {
		binary.BigEndian.PutUint32(p1[64:], 1)
	}
	binary.BigEndian.PutUint32(p1[68:], h.AppID)
	binary.BigEndian.PutUint32(p1[92:], h.ChangeCounter)
	binary.BigEndian.PutUint32(p1[96:], h.VersionNumber)
	if h.StaleSize > 0 {
		stale := maxPg * h.StaleSize / 1000
		if stale < 1 {
			stale = 1
		}
		binary.BigEndian.PutUint32(p1[28:], uint32(stale))
		binary.BigEndian.PutUint32(p1[92:], h.ChangeCounter-1)
	}
	img := make([]byte, maxPg*b.U)
	for p, buf := range b.pages {
		if p <= maxPg {
			copy(img[(p-1)*b.U:], buf)
		}
	}
	return img
}

// PageSizes lists every legal page size.
var PageSizes = []int{512, 1024, 2048, 4096, 8192, 16384, 32768, 65536}

var _ = math.MaxInt64
