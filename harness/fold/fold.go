// Package fold has SQLite's notion of case-insensitivity for identifiers:
// only the ASCII letters fold. "É" and "é" are different names.
package fold

// Lower lower-cases the ASCII letters of s.
func Lower(s string) string {
	b := []byte(s)
	for i, c := range b {
		if c >= 'A' && c <= 'Z' {
			b[i] = c + 'a' - 'A'
		}
	}
	return string(b)
}

// Upper upper-cases the ASCII letters of s.
func Upper(s string) string {
	b := []byte(s)
	for i, c := range b {
		if c >= 'a' && c <= 'z' {
			b[i] = c - 'a' + 'A'
		}
	}
	return string(b)
}

// Equal tells whether a and b are the same identifier.
func Equal(a, b string) bool { return Lower(a) == Lower(b) }
