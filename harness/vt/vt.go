// Package vt is the common run-time of every check: case accounting for the
// evidence files, known-finding classification, replay files, regression
// cases, exit classification.
package vt

import (
	"bufio"
	"crypto/sha1"
	"encoding/hex"
	"encoding/json"
	"fmt"
	"hash/fnv"
	"os"
	"path/filepath"
	"runtime/debug"
	"sort"
	"strconv"
	"strings"
	"sync"
	"testing"
	"time"

	"pgregory.net/rapid"
)

// TB is what a check needs from *testing.T or *rapid.T.
type TB interface {
	Fatalf(format string, args ...interface{})
	Logf(format string, args ...interface{})
	Helper()
}

func Root() string {
	if r := os.Getenv("VERIF_ROOT"); r != "" {
		return r
	}
	return "/verif"
}

func Tier() string {
	if t := os.Getenv("VERIF_TIER"); t == "thorough" {
		return "thorough"
	}
	return "quick"
}

func Thorough() bool { return Tier() == "thorough" }

// Pick returns q in the quick tier and th in the thorough tier.
func Pick(q, th int) int {
	if Thorough() {
		return th
	}
	return q
}

func Seed() int {
	n, _ := strconv.Atoi(os.Getenv("VERIF_SEED"))
	return n
}

// Shard gives this process' shard index and the number of shards.
func Shard() (int, int) {
	i, _ := strconv.Atoi(os.Getenv("VERIF_SHARD"))
	n, _ := strconv.Atoi(os.Getenv("VERIF_NSHARDS"))
	if n <= 0 {
		n = 1
	}
	return i, n
}

type failRec struct {
	Property string          `json:"property"`
	Test     string          `json:"test"`
	Sig      string          `json:"sig"`
	Msg      string          `json:"msg"`
	Spec     json.RawMessage `json:"spec"`
}

type knownHit struct {
	Count  int             `json:"count"`
	Text   string          `json:"text"`
	Msg    string          `json:"msg"`
	Sample json.RawMessage `json:"sample,omitempty"`
}

type Run struct {
	ID, Test string
	start    time.Time

	mu           sync.Mutex
	evaluations  int
	nontrivial   map[uint64]struct{}
	classes      map[string]int
	samples      []json.RawMessage
	sampleClass  map[string]bool
	excluded     map[string]int
	known        map[string]*knownHit
	knownLines   map[string]string // sig -> text (for this property)
	inconclusive int
	harnessErrs  []string
	fail         *failRec
	failSize     int
	exhaustive   bool
	extra        map[string]interface{}
	replaying    bool
	ended        bool
}

func Begin(id, test string) *Run {
	r := &Run{
		ID: id, Test: test, start: time.Now(),
		nontrivial:  map[uint64]struct{}{},
		classes:     map[string]int{},
		sampleClass: map[string]bool{},
		excluded:    map[string]int{},
		known:       map[string]*knownHit{},
		knownLines:  map[string]string{},
		extra:       map[string]interface{}{},
	}
	r.loadKnown()
	return r
}

func (r *Run) loadKnown() {
	f, err := os.Open(filepath.Join(Root(), "KNOWN_FINDINGS.txt"))
	if err != nil {
		return
	}
	defer f.Close()
	sc := bufio.NewScanner(f)
	for sc.Scan() {
		line := strings.TrimSpace(sc.Text())
		if !strings.HasPrefix(line, "known:") {
			continue
		}
		fs := strings.Fields(line[len("known:"):])
		if len(fs) < 2 || fs[0] != "property="+r.ID || !strings.HasPrefix(fs[1], "sig=") {
			continue
		}
		sig := strings.TrimPrefix(fs[1], "sig=")
		if os.Getenv("VERIF_IGNORE_KNOWN") == sig {
			// maintenance: lets the search shrink a minimal case of a listed
			// finding (kept under regress/); never set by registered commands
			continue
		}
		r.knownLines[sig] = strings.Join(fs[2:], " ")
	}
}

// IsKnown tells whether a failure signature is a listed known finding of this
// property (lets generators exclude such cases by construction).
func (r *Run) IsKnown(sig string) bool {
	_, ok := r.knownLines[sig]
	return ok
}

func fp(b []byte) uint64 {
	h := fnv.New64a()
	h.Write(b)
	return h.Sum64()
}

// Case records one evaluated case. spec is marshalled for the fingerprint
// (distinctness) and may be kept as a sample.
func (r *Run) Case(spec interface{}, nontrivial bool, classes ...string) {
	b, err := json.Marshal(spec)
	if err != nil {
		b = []byte(fmt.Sprintf("%q", fmt.Sprint(spec)))
	}
	r.CaseRaw(b, nontrivial, classes...)
}

func (r *Run) CaseRaw(b []byte, nontrivial bool, classes ...string) {
	r.mu.Lock()
	defer r.mu.Unlock()
	r.evaluations++
	if nontrivial {
		r.nontrivial[fp(b)] = struct{}{}
	}
	want := false
	for _, c := range classes {
		r.classes[c]++
		if !r.sampleClass[c] && len(r.samples) < 12 {
			r.sampleClass[c] = true
			want = true
		}
	}
	if nontrivial && len(r.samples) < 3 {
		want = true
	}
	if want {
		if len(b) > 3000 {
			b, _ = json.Marshal(string(b[:3000]) + "...(truncated)")
		}
		r.samples = append(r.samples, append(json.RawMessage{}, b...))
	}
}

// CaseKey is the cheap variant for very large enumerations: the caller gives
// the fingerprint key directly; sample is only marshalled when wanted.
func (r *Run) CaseKey(key uint64, nontrivial bool, class string, sample func() interface{}) {
	r.mu.Lock()
	r.evaluations++
	if nontrivial {
		r.nontrivial[key] = struct{}{}
	}
	r.classes[class]++
	want := !r.sampleClass[class] && len(r.samples) < 12
	if want {
		r.sampleClass[class] = true
	}
	r.mu.Unlock()
	if want && sample != nil {
		b, _ := json.Marshal(sample())
		r.mu.Lock()
		r.samples = append(r.samples, b)
		r.mu.Unlock()
	}
}

// Count adds to a class counter without counting an evaluation.
func (r *Run) Count(class string, n int) {
	r.mu.Lock()
	r.classes[class] += n
	r.mu.Unlock()
}

func (r *Run) Exclude(reason string) {
	r.mu.Lock()
	r.excluded[reason]++
	r.mu.Unlock()
}

func (r *Run) Inconclusive() {
	r.mu.Lock()
	r.inconclusive++
	r.mu.Unlock()
}

func (r *Run) SetExhaustive(b bool) { r.exhaustive = b }

func (r *Run) Extra(k string, v interface{}) {
	r.mu.Lock()
	r.extra[k] = v
	r.mu.Unlock()
}

// Violation reports a failing case. If sig is a listed known finding the hit
// is recorded and false is returned (the caller goes on); otherwise the case
// is remembered for the replay file and the test fails.
func (r *Run) Violation(t TB, spec interface{}, sig, format string, args ...interface{}) bool {
	t.Helper()
	msg := fmt.Sprintf(format, args...)
	b, err := json.Marshal(spec)
	if err != nil {
		b, _ = json.Marshal(fmt.Sprint(spec))
	}
	r.mu.Lock()
	if text, ok := r.knownLines[sig]; ok && !r.replaying {
		k := r.known[sig]
		if k == nil {
			k = &knownHit{Text: text, Msg: msg, Sample: b}
			if len(k.Sample) > 3000 {
				k.Sample = nil
			}
			r.known[sig] = k
		}
		k.Count++
		r.mu.Unlock()
		return false
	}
	// keep the smallest failing spec seen (rapid shrinks towards it)
	if r.fail == nil || len(b) <= r.failSize {
		r.fail = &failRec{Property: r.ID, Test: r.Test, Sig: sig, Msg: msg, Spec: b}
		r.failSize = len(b)
	}
	r.mu.Unlock()
	t.Fatalf("violation property=%s sig=%s: %s", r.ID, sig, msg)
	return true
}

// Harness reports a problem of the machinery (oracle died, builder self-check
// failed...). Never a violation: the driver exits 2.
func (r *Run) Harness(t TB, format string, args ...interface{}) {
	t.Helper()
	msg := fmt.Sprintf(format, args...)
	r.mu.Lock()
	if len(r.harnessErrs) < 5 {
		r.harnessErrs = append(r.harnessErrs, msg)
	}
	r.mu.Unlock()
	t.Fatalf("HARNESS-ERROR: %s", msg)
}

// End writes the statistics line and, on failure, the replay file.
func (r *Run) End() {
	r.mu.Lock()
	defer r.mu.Unlock()
	if r.ended {
		return
	}
	r.ended = true
	out := map[string]interface{}{
		"property":       r.ID,
		"test":           r.Test,
		"evaluations":    r.evaluations,
		"nontrivial_fp":  keys(r.nontrivial),
		"classes":        r.classes,
		"samples":        r.samples,
		"excluded":       r.excluded,
		"known":          r.known,
		"inconclusive":   r.inconclusive,
		"harness_errors": r.harnessErrs,
		"exhaustive":     r.exhaustive,
		"extra":          r.extra,
		"wall_s":         time.Since(r.start).Seconds(),
		"replay_mode":    r.replaying,
	}
	if r.fail != nil {
		path := ""
		if !r.replaying {
			b, _ := json.MarshalIndent(r.fail, "", " ")
			h := sha1.Sum(b)
			dir := os.Getenv("VERIF_REPLAY_DIR")
			if dir == "" {
				dir = filepath.Join(Root(), "replays")
			}
			os.MkdirAll(dir, 0o755)
			path = filepath.Join(dir, fmt.Sprintf("%s-%s-%s.json", r.ID, r.Test, hex.EncodeToString(h[:5])))
			os.WriteFile(path, b, 0o644)
		} else {
			path = os.Getenv("VERIF_REPLAY")
		}
		out["violation"] = map[string]interface{}{"sig": r.fail.Sig, "msg": r.fail.Msg, "replay": path}
	}
	if p := os.Getenv("VERIF_STATS"); p != "" {
		b, _ := json.Marshal(out)
		f, err := os.OpenFile(p, os.O_APPEND|os.O_CREATE|os.O_WRONLY, 0o644)
		if err == nil {
			f.Write(append(b, '\n'))
			f.Close()
		}
	}
}

func keys(m map[uint64]struct{}) []uint64 {
	ks := make([]uint64, 0, len(m))
	for k := range m {
		ks = append(ks, k)
	}
	sort.Slice(ks, func(i, j int) bool { return ks[i] < ks[j] })
	return ks
}

// Check is a generated check: Gen draws a case spec, Run decides it.
type Check[S any] struct {
	ID, Test string
	Gen      func(t *rapid.T) S
	Run      func(r *Run, t TB, s S)
	// Setup runs once before anything else (oracle start, self tests).
	Setup func(r *Run, t *testing.T)
	// Teardown runs at the end.
	Teardown func()
}

// Exec runs a check: in replay mode only the replayed spec; otherwise the
// regression cases (regress/<ID>/<Test>-*.json) and then the rapid search.
func Exec[S any](t *testing.T, c Check[S]) {
	r := Begin(c.ID, c.Test)
	defer r.End()
	if c.Teardown != nil {
		defer c.Teardown()
	}
	if c.Setup != nil {
		c.Setup(r, t)
	}
	if p := os.Getenv("VERIF_REPLAY"); p != "" {
		r.replaying = true
		spec, ok := loadSpec[S](t, r, p, c.Test)
		if !ok {
			t.Skipf("replay file is for another test")
		}
		runGuarded(r, t, c.Run, spec)
		return
	}
	files, _ := filepath.Glob(filepath.Join(Root(), "regress", c.ID, c.Test+"-*.json"))
	sort.Strings(files)
	for _, f := range files {
		spec, ok := loadSpec[S](t, r, f, c.Test)
		if !ok {
			continue
		}
		r.Count("regress-cases", 1)
		runGuarded(r, t, c.Run, spec)
	}
	if c.Gen == nil {
		return
	}
	pending := os.Getenv("VERIF_PENDING") != ""
	rapid.Check(t, func(rt *rapid.T) {
		s := c.Gen(rt)
		if pending {
			// lets the driver turn a death of the whole process (stack
			// overflow, fatal runtime error) into a replayable case
			r.Pending(s)
		}
		runGuarded(r, rt, c.Run, s)
		if pending {
			r.Done()
		}
	})
}

// runGuarded runs one case. A panic raised inside the library under test (the
// first frame below the runtime's is a sqlittle function) that the check did
// not catch itself is a violation of the case, not a failure of the harness;
// everything else (the test library's own control flow, a bug in the check)
// is passed on.
func runGuarded[S any](r *Run, t TB, run func(*Run, TB, S), spec S) {
	defer func() {
		p := recover()
		if p == nil {
			return
		}
		if strings.HasPrefix(fmt.Sprintf("%T", p), "rapid.") {
			panic(p)
		}
		fn := panicOrigin(string(debug.Stack()))
		if !strings.HasPrefix(fn, "github.com/alicebob/sqlittle") {
			panic(p)
		}
		short := strings.TrimPrefix(fn, "github.com/alicebob/sqlittle")
		short = strings.TrimPrefix(strings.TrimPrefix(short, "/"), ".")
		r.Violation(t, spec, "panic:"+short, "the library panics in %s: %v", fn, p)
	}()
	run(r, t, spec)
}

// panicOrigin gives the function that panicked: the first frame after the
// "panic(" line of a stack dump that is not the runtime's.
func panicOrigin(stack string) string {
	lines := strings.Split(stack, "\n")
	seen := false
	for _, l := range lines {
		if strings.HasPrefix(l, "\t") {
			continue // file:line
		}
		if !seen {
			if strings.HasPrefix(l, "panic(") {
				seen = true
			}
			continue
		}
		if strings.HasPrefix(l, "runtime.") || strings.HasPrefix(l, "panic(") || l == "" {
			continue
		}
		if i := strings.LastIndex(l, "("); i > 0 {
			l = l[:i]
		}
		return l
	}
	return ""
}

func loadSpec[S any](t *testing.T, r *Run, path, test string) (S, bool) {
	var zero S
	b, err := os.ReadFile(path)
	if err != nil {
		r.Harness(t, "replay file: %v", err)
	}
	var fr failRec
	if err := json.Unmarshal(b, &fr); err != nil {
		r.Harness(t, "replay file %s: %v", path, err)
	}
	if fr.Test != test {
		return zero, false
	}
	var s S
	if err := json.Unmarshal(fr.Spec, &s); err != nil {
		r.Harness(t, "replay spec %s: %v", path, err)
	}
	return s, true
}

// Sampled says deterministically (from the spec) whether this case belongs to
// a 1-in-n sample.
func Sampled(spec interface{}, n int) bool {
	b, err := json.Marshal(spec)
	if err != nil {
		return false
	}
	return fp(b)%uint64(n) == 0
}

// Replaying tells whether this process replays a saved case.
func Replaying() bool { return os.Getenv("VERIF_REPLAY") != "" }

// Pending records the case that is about to run in a side file, so that the
// driver can turn a death of the whole process (a panic in a goroutine the
// harness does not own, a fatal runtime error) into a replayable case.
func (r *Run) Pending(spec interface{}) {
	p := os.Getenv("VERIF_STATS")
	if p == "" {
		return
	}
	b, err := json.Marshal(spec)
	if err != nil {
		return
	}
	fr := failRec{Property: r.ID, Test: r.Test, Sig: "process-death", Msg: "the test process died while running this case", Spec: b}
	out, _ := json.Marshal(fr)
	os.WriteFile(p+".pending", out, 0o644)
}

// Done clears the pending case.
func (r *Run) Done() {
	if p := os.Getenv("VERIF_STATS"); p != "" {
		os.Remove(p + ".pending")
	}
}

// Hash gives a fingerprint of a spec (for CaseKey).
func Hash(spec interface{}) uint64 {
	b, err := json.Marshal(spec)
	if err != nil {
		return 0
	}
	return fp(b)
}
