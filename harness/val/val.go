// Package val is the lossless, JSON-serialisable representation of a SQLite
// value used in case specs and on the wire to the oracle.
package val

import (
	"encoding/hex"
	"encoding/json"
	"fmt"
	"math"
	"strconv"
)

// V is one storable SQLite value.
// T: 'n' NULL, 'i' INTEGER, 'r' REAL, 't' TEXT, 'b' BLOB.
type V struct {
	T byte
	I int64
	R uint64 // IEEE bits
	B []byte // text or blob bytes
}

func Null() V             { return V{T: 'n'} }
func Int(i int64) V       { return V{T: 'i', I: i} }
func Real(f float64) V    { return V{T: 'r', R: math.Float64bits(f)} }
func RealBits(b uint64) V { return V{T: 'r', R: b} }
func Text(s string) V     { return V{T: 't', B: []byte(s)} }
func Blob(b []byte) V     { return V{T: 'b', B: append([]byte{}, b...)} }

func (v V) Float() float64 { return math.Float64frombits(v.R) }

// Go gives the value as the Go type sqlittle uses: nil, int64, float64,
// string, []byte.
func (v V) Go() interface{} {
	switch v.T {
	case 'n':
		return nil
	case 'i':
		return v.I
	case 'r':
		return v.Float()
	case 't':
		return string(v.B)
	case 'b':
		return append([]byte{}, v.B...)
	}
	panic("bad val kind")
}

// FromGo converts a sqlittle value. ok=false for foreign types.
func FromGo(x interface{}) (V, bool) {
	switch t := x.(type) {
	case nil:
		return Null(), true
	case int64:
		return Int(t), true
	case float64:
		return Real(t), true
	case string:
		return Text(t), true
	case []byte:
		return Blob(t), true
	}
	return V{}, false
}

func (v V) Equal(o V) bool {
	if v.T != o.T {
		return false
	}
	switch v.T {
	case 'n':
		return true
	case 'i':
		return v.I == o.I
	case 'r':
		return v.R == o.R
	default:
		return string(v.B) == string(o.B)
	}
}

func (v V) String() string {
	switch v.T {
	case 'n':
		return "NULL"
	case 'i':
		return strconv.FormatInt(v.I, 10)
	case 'r':
		return fmt.Sprintf("%v(r:%016x)", v.Float(), v.R)
	case 't':
		if len(v.B) > 40 {
			return fmt.Sprintf("t%q..(%d)", v.B[:40], len(v.B))
		}
		return fmt.Sprintf("t%q", v.B)
	case 'b':
		if len(v.B) > 24 {
			return fmt.Sprintf("x'%x..'(%d)", v.B[:24], len(v.B))
		}
		return fmt.Sprintf("x'%x'", v.B)
	}
	return "?"
}

// wire form: null | ["i","123"] | ["r","hex16"] | ["t","hex"] | ["b","hex"]
func (v V) MarshalJSON() ([]byte, error) {
	switch v.T {
	case 'n', 0:
		return []byte("null"), nil
	case 'i':
		return json.Marshal([2]string{"i", strconv.FormatInt(v.I, 10)})
	case 'r':
		return json.Marshal([2]string{"r", fmt.Sprintf("%016x", v.R)})
	case 't':
		return json.Marshal([2]string{"t", hex.EncodeToString(v.B)})
	case 'b':
		return json.Marshal([2]string{"b", hex.EncodeToString(v.B)})
	case 's':
		return json.Marshal([2]string{"s", hex.EncodeToString(v.B)})
	}
	return nil, fmt.Errorf("bad val kind %q", v.T)
}

func (v *V) UnmarshalJSON(b []byte) error {
	if string(b) == "null" {
		*v = Null()
		return nil
	}
	var a [2]string
	if err := json.Unmarshal(b, &a); err != nil {
		return err
	}
	switch a[0] {
	case "i":
		n, err := strconv.ParseInt(a[1], 10, 64)
		if err != nil {
			return err
		}
		*v = Int(n)
	case "r":
		n, err := strconv.ParseUint(a[1], 16, 64)
		if err != nil {
			return err
		}
		*v = RealBits(n)
	case "t", "b", "s":
		bs, err := hex.DecodeString(a[1])
		if err != nil {
			return err
		}
		*v = V{T: a[0][0], B: bs}
	default:
		return fmt.Errorf("bad val kind %q", a[0])
	}
	return nil
}

// Row helpers
type Row []V

func (r Row) String() string {
	s := "["
	for i, v := range r {
		if i > 0 {
			s += ", "
		}
		s += v.String()
	}
	return s + "]"
}

func RowsEqual(a, b []Row) bool {
	if len(a) != len(b) {
		return false
	}
	for i := range a {
		if len(a[i]) != len(b[i]) {
			return false
		}
		for j := range a[i] {
			if !a[i][j].Equal(b[i][j]) {
				return false
			}
		}
	}
	return true
}

// AsStr marks a text value to be bound as a Python str parameter (valid UTF-8
// without NUL only) so that plain `?` placeholders give TEXT.
func (v V) AsStr() V {
	if v.T == 't' {
		v.T = 's'
	}
	return v
}
