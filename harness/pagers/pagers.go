// Package pagers holds the harness-side pagers plugged into sqlittle through
// the `verif` hook (db.VerifOpen).
package pagers

import (
	"errors"
	"io"
	"sync"

	sdb "github.com/alicebob/sqlittle/db"
)

// Mem serves pages from a byte image with the file pager's semantics: a fresh
// buffer per read, io.EOF for a page that is not fully inside the image.
type Mem struct {
	mu       sync.Mutex
	Img      []byte
	Reads    int
	Bytes    int
	Locked   int
	Locks    int
	Unlocks  int
	ReadSet  map[int]int // page -> reads
	Reserved bool        // answer of CheckReservedLock
	// MaxReads > 0: reads beyond it fail with ErrBudget (bounded-work oracle)
	MaxReads int
	// ReadOutsideLock counts page reads while the pager was not read-locked
	ReadOutsideLock int
	Closed          bool
	// RefuseNested: behave like the file pager, which refuses a second RLock
	// on a handle that holds one
	RefuseNested bool
	RefusedLocks int
}

var ErrBudget = errors.New("verif: page read budget exhausted")

func NewMem(img []byte) *Mem {
	return &Mem{Img: img, ReadSet: map[int]int{}}
}

func (m *Mem) Page(n int, pagesize int) ([]byte, error) {
	m.mu.Lock()
	defer m.mu.Unlock()
	m.Reads++
	if m.MaxReads > 0 && m.Reads > m.MaxReads {
		return nil, ErrBudget
	}
	m.ReadSet[n]++
	if m.Locked == 0 {
		m.ReadOutsideLock++
	}
	buf := make([]byte, pagesize)
	m.Bytes += pagesize
	off := int64(n-1) * int64(pagesize)
	if off < 0 {
		// (a page number so large that the offset wraps: a file's ReadAt
		// refuses a negative offset)
		return buf, errors.New("readat: negative offset")
	}
	if n < 1 || off >= int64(len(m.Img)) {
		return buf, io.EOF
	}
	c := copy(buf, m.Img[off:])
	if c < pagesize {
		return buf, io.EOF
	}
	return buf, nil
}

func (m *Mem) Close() error { m.Closed = true; return nil }

func (m *Mem) RLock() error {
	m.mu.Lock()
	defer m.mu.Unlock()
	if m.RefuseNested && m.Locked > 0 {
		// (as the file pager: one lock per handle)
		m.RefusedLocks++
		return errors.New("trying to lock a locked lock")
	}
	m.Locked++
	m.Locks++
	return nil
}

func (m *Mem) RUnlock() error {
	m.mu.Lock()
	defer m.mu.Unlock()
	if m.RefuseNested && m.Locked == 0 {
		return errors.New("trying to unlock an unlocked lock")
	}
	m.Locked--
	m.Unlocks++
	return nil
}

func (m *Mem) CheckReservedLock() (bool, error) { return m.Reserved, nil }

var _ sdb.VerifPager = (*Mem)(nil)

// Fault wraps a pager and makes the k-th page read (1-based, counted from
// Arm) fail in one of several ways.
type Fault struct {
	P     sdb.VerifPager
	K     int    // which read fails; 0 = none
	Mode  string // "eio", "eof", "ff"
	Count int    // reads seen so far
	Fired bool
	// FiredPage is the page number of the failed read, FiredSize its size.
	FiredPage, FiredSize int
	// FailRLock makes RLock fail.
	FailRLock bool
	// ReservedErr makes the probe of the RESERVED byte fail with that error,
	// answering what the unix pager answers when fcntl(F_GETLK) fails.
	ReservedErr error
}

var ErrInjected = errors.New("verif: injected I/O error")

func (f *Fault) Page(n int, pagesize int) ([]byte, error) {
	f.Count++
	if f.K > 0 && f.Count == f.K {
		f.Fired = true
		f.FiredPage, f.FiredSize = n, pagesize
		switch f.Mode {
		case "eio":
			return nil, ErrInjected
		case "eof":
			buf := make([]byte, pagesize)
			return buf, io.EOF
		case "ff":
			buf := make([]byte, pagesize)
			for i := range buf {
				buf[i] = 0xff
			}
			return buf, nil
		}
	}
	return f.P.Page(n, pagesize)
}

func (f *Fault) Close() error { return f.P.Close() }
func (f *Fault) RLock() error {
	if f.FailRLock {
		return ErrInjected
	}
	return f.P.RLock()
}
func (f *Fault) RUnlock() error                   { return f.P.RUnlock() }
func (f *Fault) CheckReservedLock() (bool, error) {
	if f.ReservedErr != nil {
		return true, f.ReservedErr
	}
	return f.P.CheckReservedLock()
}

// Event is one pager call seen by Trace.
type Event struct {
	Kind string // lock, lock-failed, unlock, page, close, reserved
	Page int
}

// Trace wraps a pager, records events and calls Hook (if set) after each.
type Trace struct {
	P      sdb.VerifPager
	Events []Event
	Hook   func(ev Event, index int)
}

func (t *Trace) emit(ev Event) {
	t.Events = append(t.Events, ev)
	if t.Hook != nil {
		t.Hook(ev, len(t.Events)-1)
	}
}

func (t *Trace) Page(n int, pagesize int) ([]byte, error) {
	b, err := t.P.Page(n, pagesize)
	t.emit(Event{"page", n})
	return b, err
}
func (t *Trace) Close() error {
	err := t.P.Close()
	t.emit(Event{"close", 0})
	return err
}
func (t *Trace) RLock() error {
	// (before anything is locked: what another connection does here happens
	// before this read transaction)
	t.emit(Event{"prelock", 0})
	err := t.P.RLock()
	if err != nil {
		t.emit(Event{"lock-failed", 0})
	} else {
		t.emit(Event{"lock", 0})
	}
	return err
}
func (t *Trace) RUnlock() error {
	err := t.P.RUnlock()
	t.emit(Event{"unlock", 0})
	return err
}
func (t *Trace) CheckReservedLock() (bool, error) {
	// (before the probe: the moment between the reader's look at the journal
	// and its question whether the journal's owner is alive)
	t.emit(Event{"prereserved", 0})
	ok, err := t.P.CheckReservedLock()
	t.emit(Event{"reserved", 0})
	return ok, err
}
