// Package gen holds rapid generators shared by the checks.
package gen

import (
	"math"

	"pgregory.net/rapid"

	"verif/grid"
	"verif/val"
)

var gridAll = grid.All()

// Int64 draws integers with every magnitude equally likely (random bit
// width), plus the grid boundaries.
func Int64() *rapid.Generator[int64] {
	return rapid.Custom(func(t *rapid.T) int64 {
		if rapid.IntRange(0, 3).Draw(t, "igrid") == 0 {
			return rapid.SampledFrom(grid.Ints()).Draw(t, "gi")
		}
		w := rapid.IntRange(0, 63).Draw(t, "w")
		var n int64
		if w > 0 {
			n = rapid.Int64Range(0, (1<<uint(w))-1).Draw(t, "n") | (1 << uint(w-1))
		}
		if rapid.Bool().Draw(t, "neg") {
			n = -n
		}
		return n
	})
}

// Float64 draws non-NaN doubles: grid, integral values, integers +- fraction,
// random bit patterns.
func Float64() *rapid.Generator[float64] {
	return rapid.Custom(func(t *rapid.T) float64 {
		switch rapid.IntRange(0, 3).Draw(t, "fk") {
		case 0:
			return rapid.SampledFrom(grid.Reals()).Draw(t, "gr")
		case 1:
			return float64(Int64().Draw(t, "fi"))
		case 2:
			i := Int64().Draw(t, "fi")
			return float64(i) + rapid.SampledFrom([]float64{0.5, -0.5, 0.25, 1e-9}).Draw(t, "fr")
		default:
			for {
				f := math.Float64frombits(rapid.Uint64().Draw(t, "bits"))
				if !math.IsNaN(f) {
					return f
				}
			}
		}
	})
}

var textAlphabet = []string{"a", "A", "b", "B", "z", "Z", " ", " ", "\t", "\n", "\x00", "é", "É", "ß", "日", "😀", "0", "1", "[", "_", "K"}

// Text draws valid UTF-8 strings out of a small alphabet that separates the
// collations (case, trailing blanks, NUL, non-ASCII).
func Text() *rapid.Generator[string] {
	return rapid.Custom(func(t *rapid.T) string {
		if rapid.IntRange(0, 3).Draw(t, "tgrid") == 0 {
			return rapid.SampledFrom(grid.Texts()).Draw(t, "gt")
		}
		n := rapid.IntRange(0, 6).Draw(t, "tn")
		s := ""
		for i := 0; i < n; i++ {
			s += rapid.SampledFrom(textAlphabet).Draw(t, "tc")
		}
		return s
	})
}

func Blob() *rapid.Generator[[]byte] {
	return rapid.Custom(func(t *rapid.T) []byte {
		if rapid.IntRange(0, 3).Draw(t, "bgrid") == 0 {
			return rapid.SampledFrom(grid.Blobs()).Draw(t, "gb")
		}
		return rapid.SliceOfN(rapid.SampledFrom([]byte{0, 1, 0x20, 0x41, 0x61, 0x7f, 0x80, 0xff}), 0, 6).Draw(t, "bb")
	})
}

// Value draws any storable value.
func Value() *rapid.Generator[val.V] {
	return rapid.Custom(func(t *rapid.T) val.V {
		switch rapid.IntRange(0, 9).Draw(t, "vk") {
		case 0:
			return val.Null()
		case 1, 2, 3:
			return val.Int(Int64().Draw(t, "i"))
		case 4, 5:
			return val.Real(Float64().Draw(t, "r"))
		case 6, 7, 8:
			return val.Text(Text().Draw(t, "t"))
		default:
			return val.Blob(Blob().Draw(t, "b"))
		}
	})
}

// Near draws a value close to v in SQLite's order: the same number as the
// other numeric class, +-1, next float, case swapped, trailing blank
// variants, prefix/extension.
func Near(v val.V) *rapid.Generator[val.V] {
	return rapid.Custom(func(t *rapid.T) val.V {
		k := rapid.IntRange(0, 5).Draw(t, "nk")
		switch v.T {
		case 'i':
			switch k {
			case 0:
				return val.Real(float64(v.I))
			case 1:
				if v.I < math.MaxInt64 {
					return val.Int(v.I + 1)
				}
			case 2:
				if v.I > math.MinInt64 {
					return val.Int(v.I - 1)
				}
			case 3:
				return val.Real(math.Nextafter(float64(v.I), math.Inf(1)))
			case 4:
				return val.Real(math.Nextafter(float64(v.I), math.Inf(-1)))
			}
			return v
		case 'r':
			f := v.Float()
			switch k {
			case 0:
				if f >= -9.3e18 && f <= 9.3e18 {
					if f >= 9223372036854775807 {
						return val.Int(math.MaxInt64)
					}
					if f <= -9223372036854775808 {
						return val.Int(math.MinInt64)
					}
					return val.Int(int64(f))
				}
			case 1:
				return val.Real(math.Nextafter(f, math.Inf(1)))
			case 2:
				return val.Real(math.Nextafter(f, math.Inf(-1)))
			case 3:
				if f > -9.2e18 && f < 9.2e18 {
					return val.Int(int64(f) + 1)
				}
			case 4:
				if f > -9.2e18 && f < 9.2e18 {
					return val.Int(int64(f) - 1)
				}
			}
			return v
		case 't':
			s := string(v.B)
			switch k {
			case 0:
				return val.Text(swapCase(s))
			case 1:
				return val.Text(s + " ")
			case 2:
				return val.Text(s + rapid.SampledFrom([]string{"\t", "\n", "\x00", "a", "  "}).Draw(t, "suffix"))
			case 3:
				if len(s) > 0 {
					// drop the last rune
					r := []rune(s)
					return val.Text(string(r[:len(r)-1]))
				}
			case 4:
				return val.Blob(v.B)
			}
			return v
		case 'b':
			switch k {
			case 0:
				return val.Text(string(validUTF8(v.B)))
			case 1:
				return val.Blob(append(append([]byte{}, v.B...), 0))
			case 2:
				if len(v.B) > 0 {
					return val.Blob(v.B[:len(v.B)-1])
				}
			}
			return v
		}
		return Value().Draw(t, "other")
	})
}

func validUTF8(b []byte) []byte {
	out := make([]byte, 0, len(b))
	for _, c := range b {
		if c < 0x80 {
			out = append(out, c)
		}
	}
	return out
}

func swapCase(s string) string {
	b := []byte(s)
	for i, c := range b {
		switch {
		case c >= 'a' && c <= 'z':
			b[i] = c - 32
		case c >= 'A' && c <= 'Z':
			b[i] = c + 32
		}
	}
	return string(b)
}

// GridOrRandom: a grid element by index, for enumeration.
func GridAll() []val.V { return gridAll }
