package c16

// "The same result every time it is given that string" also when other
// goroutines parse at the same moment: the parser keeps no state between
// calls, so calls must not influence each other through package-level data.
// Every statement is parsed once alone in its canonical spelling; the
// goroutines then parse spellings with the keywords in generated letter case
// (new to the process, so that anything filled lazily is filled now) and must
// get the same statement. The job is built with the race detector.

import (
	"fmt"
	"reflect"
	"runtime"
	"sync"
	"testing"

	"pgregory.net/rapid"

	"verif/vt"
)

type concSpec struct {
	Procs      int
	Statements []string // canonical spelling (upper case keywords)
	Case       []bool   // letter case pattern for the keywords
	Workers    int
	Rounds     int
}

var concKeywords = map[string]bool{"CREATE": true, "TABLE": true, "INDEX": true, "UNIQUE": true, "ON": true, "WHERE": true, "WITHOUT": true, "ROWID": true, "PRIMARY": true, "KEY": true,
	"DEFAULT": true, "NULL": true, "NOT": true, "COLLATE": true, "CHECK": true, "REFERENCES": true, "CONSTRAINT": true, "AUTOINCREMENT": true, "ASC": true, "DESC": true, "FROM": true, "SELECT": true,
	"AND": true, "OR": true, "IS": true, "IN": true, "LIKE": true, "GLOB": true, "DELETE": true, "CASCADE": true, "UPDATE": true, "SET": true, "ACTION": true, "NO": true, "RESTRICT": true,
	"DEFERRABLE": true, "INITIALLY": true, "DEFERRED": true, "FOREIGN": true, "CONFLICT": true, "REPLACE": true, "MATCH": true}

// respell changes the letter case of keywords outside quotes.
func respell(q string, bits []bool, off int) string {
	out := []byte(q)
	n := off
	for i := 0; i < len(out); {
		c := out[i]
		if c == '\'' || c == '"' || c == '`' || c == '[' {
			end := c
			if c == '[' {
				end = ']'
			}
			j := i + 1
			for j < len(out) && out[j] != end {
				j++
			}
			i = j + 1
			continue
		}
		isW := func(b byte) bool {
			return b >= 'A' && b <= 'Z' || b >= 'a' && b <= 'z' || b == '_' || b >= '0' && b <= '9' || b >= 0x80
		}
		if !isW(c) {
			i++
			continue
		}
		j := i
		for j < len(out) && isW(out[j]) {
			j++
		}
		if concKeywords[string(out[i:j])] {
			for k := i; k < j; k++ {
				if bits[n%len(bits)] {
					out[k] += 'a' - 'A'
				}
				n++
			}
		}
		i = j
	}
	return string(out)
}

func TestC16Concurrent(t *testing.T) {
	vt.Exec(t, vt.Check[concSpec]{
		ID: "C16", Test: "TestC16Concurrent",
		Gen: func(t *rapid.T) concSpec {
			s := concSpec{
				Procs:   rapid.SampledFrom([]int{2, 4, 8, 16}).Draw(t, "procs"),
				Workers: rapid.IntRange(2, 8).Draw(t, "workers"),
				Rounds:  rapid.IntRange(1, 4).Draw(t, "rounds"),
				Case:    rapid.SliceOfN(rapid.Bool(), 32, 32).Draw(t, "case"),
			}
			n := rapid.IntRange(2, 6).Draw(t, "nst")
			for i := 0; i < n; i++ {
				s.Statements = append(s.Statements, genStatement(t))
			}
			return s
		},
		Run: func(r *vt.Run, t vt.TB, s concSpec) {
			want := make([]parseOut, len(s.Statements))
			for i, q := range s.Statements {
				want[i] = parseOnce(q)
			}
			old := runtime.GOMAXPROCS(s.Procs)
			defer runtime.GOMAXPROCS(old)
			var wg sync.WaitGroup
			var mu sync.Mutex
			problem := ""
			start := make(chan struct{})
			for w := 0; w < s.Workers; w++ {
				wg.Add(1)
				go func(w int) {
					defer wg.Done()
					<-start
					for round := 0; round < s.Rounds; round++ {
						for i, q := range s.Statements {
							// (a spelling per worker and round)
							v := respell(q, s.Case, w*7+round*3+i)
							got := parseOnce(v)
							if !reflect.DeepEqual(got, want[i]) {
								mu.Lock()
								if problem == "" {
									problem = fmt.Sprintf("goroutine %d: Parse(%q) = %+v; alone, in the spelling %q, the statement parses as %+v", w, v, got, q, want[i])
								}
								mu.Unlock()
							}
						}
					}
				}(w)
			}
			close(start)
			wg.Wait()
			r.Case(s, s.Workers >= 2, fmt.Sprintf("concurrent:procs=%d", s.Procs))
			r.Count("concurrent:parses", s.Workers*s.Rounds*len(s.Statements))
			if problem != "" {
				r.Violation(t, s, "det:concurrent", "%s", problem)
			}
		},
	})
}
