// C16 — the SQL parser is total, deterministic and local.
package c16

import (
	"fmt"
	"os"
	"reflect"
	"strconv"
	"strings"
	"testing"
	"time"

	"github.com/alicebob/sqlittle/sql"
	"pgregory.net/rapid"

	"verif/fold"
	"verif/oracle"
	"verif/sqlgen"
	"verif/vt"
)

type parseOut struct {
	res   interface{}
	err   string
	panic string
}

func parseOnce(s string) parseOut {
	var out parseOut
	func() {
		defer func() {
			if p := recover(); p != nil {
				out.panic = fmt.Sprint(p)
			}
		}()
		res, err := sql.Parse(s)
		out.res = res
		if err != nil {
			out.err = err.Error()
		}
	}()
	return out
}

// parseGuarded runs Parse with a generous watchdog (parsing a few KB takes
// microseconds; half a minute means it does not terminate).
// hangAfter: the parser needs a few microseconds per token (1.5M nested
// parentheses take 5-8 s on a busy machine); a parse is taken for
// non-terminating (or worse than linear) after 40 s, and for multi-megabyte
// inputs after 120 s.
func hangAfter(n int) time.Duration {
	if n > 500000 {
		return 120 * time.Second
	}
	return 40 * time.Second
}

func parseGuarded(s string) (parseOut, bool) {
	ch := make(chan parseOut, 1)
	go func() { ch <- parseOnce(s) }()
	select {
	case o := <-ch:
		return o, true
	case <-time.After(hangAfter(len(s))):
		return parseOut{}, false
	}
}

var hostileTokens = []string{
	"'", "\"", "[", "]", "`", "é", "٣", "٣٤", "0x", "0X", "1e", "1e+", "1e-", ".", "..", ".e", "1.2.3", "9999999999999999999999", "0xFFFFFFFFFFFFFFFFF", "0x8000000000000000",
	"-", "+", "(", ")", ",", "*", "~", "||", "<>", "!=", "!", "=", "==", ">>", "<<", "&", "|", "%", "/", ";", "->", "->>", "-->", "->>>", "<=", ">=", "<", ">", "<=>",
	"IS", "ISNULL", "NOTNULL", "LIKE", "GLOB", "IN", "BETWEEN", "AND", "OR", "ESCAPE", "CAST", "CASE", "WHEN", "THEN", "ELSE", "END", "\x00", "\xff", "\xc3", "\xe6\x97", "�",
	"SELECT", "CREATE", "TABLE", "INDEX", "UNIQUE", "ON", "WHERE", "WITHOUT", "ROWID", "PRIMARY", "KEY", "REPLACE", "DEFAULT", "NULL", "NOT", "COLLATE", "CHECK",
	"REFERENCES", "CONSTRAINT", "AUTOINCREMENT", "ASC", "DESC", "FROM", "--", "/*", "*/", "'a''b'", "\"a\"\"b\"", "[a b]", "`a``b`", "''", "\"\"", "x'00'",
	"1", "-1", "+1", "1.5", "-1.5", "a", "B", "_", "_1", "日本", "ǅ", "𝔘", " ", "\t", "\n", " ", " ", "　",
}

func tokensOf(s string) []string {
	// a crude splitter (only used to mutate): words, numbers, single chars
	var out []string
	cur := ""
	flush := func() {
		if cur != "" {
			out = append(out, cur)
			cur = ""
		}
	}
	for _, r := range s {
		switch {
		case r == ' ':
			flush()
		case strings.ContainsRune("(),", r):
			flush()
			out = append(out, string(r))
		default:
			cur += string(r)
		}
	}
	flush()
	return out
}

func genStatement(t *rapid.T) string {
	used := map[string]bool{}
	tb := sqlgen.GenTable(t, sqlgen.GenIdent(t, used, "tn"), sqlgen.Opts{MaxCols: 4})
	switch rapid.IntRange(0, 3).Draw(t, "stkind") {
	case 0:
		return tb.SQL()
	case 3:
		// every operator spelling SQLite 3.40 knows, in the three places an
		// expression can stand
		c := sqlgen.Ref(t, rapid.SampledFrom(tb.ColumnIdents()).Draw(t, "opc"), "opc")
		lit := rapid.SampledFrom([]string{"1", "'k'", "'$.a'", "2.5", "x'00'", "NULL", c}).Draw(t, "oplit")
		op := rapid.SampledFrom([]string{"->", "->>", "||", "*", "/", "%", "+", "-", "<<", ">>", "&", "|", "<", "<=", ">", ">=", "=", "==", "!=", "<>", "IS", "IS NOT",
			"IN", "LIKE", "GLOB", "AND", "OR", "NOT LIKE", "NOT GLOB", "IS NOT DISTINCT FROM", "IS DISTINCT FROM"}).Draw(t, "op")
		e := c + " " + op + " " + lit
		if op == "IN" {
			e = c + " IN (" + lit + ", 2)"
		}
		if rapid.IntRange(0, 3).Draw(t, "optight") == 0 {
			e = strings.ReplaceAll(e, " ", "")
			if strings.ContainsAny(op, "ABCDEFGHIJKLMNOPQRSTUVWXYZ") {
				e = c + " " + op + " " + lit
			}
		}
		if rapid.IntRange(0, 2).Draw(t, "opsecond") == 0 {
			e += " " + rapid.SampledFrom([]string{"->>", "->", "||", "+", "=", "AND"}).Draw(t, "op2") + " " + rapid.SampledFrom([]string{"'b'", "0", c}).Draw(t, "oplit2")
		}
		switch rapid.IntRange(0, 2).Draw(t, "opplace") {
		case 0:
			return "CREATE INDEX " + sqlgen.GenIdent(t, used, "in").SQL + " ON " + tb.Ident.SQL + " (" + e + ")"
		case 1:
			return "CREATE INDEX " + sqlgen.GenIdent(t, used, "in").SQL + " ON " + tb.Ident.SQL + " (" + c + ") WHERE " + e
		default:
			return "CREATE TABLE " + tb.Ident.SQL + " (" + tb.Cols[0].Ident.SQL + ", CHECK (" + e + "))"
		}
	case 1:
		return sqlgen.GenIndex(t, sqlgen.GenIdent(t, used, "in"), tb, rapid.Bool().Draw(t, "uq"), true, true).SQL()
	default:
		cols := []string{"*"}
		for _, c := range tb.Cols {
			cols = append(cols, c.Ident.SQL)
		}
		n := rapid.IntRange(1, 3).Draw(t, "nsel")
		var sel []string
		for i := 0; i < n; i++ {
			sel = append(sel, rapid.SampledFrom(cols).Draw(t, "selc"))
		}
		return "SELECT " + strings.Join(sel, ", ") + " FROM " + tb.Ident.SQL
	}
}

func genInput(t *rapid.T) (string, string) {
	switch rapid.IntRange(0, 5).Draw(t, "kind") {
	case 0:
		return rapid.String().Draw(t, "s"), "random-runes"
	case 1:
		return string(rapid.SliceOfN(rapid.Byte(), 0, 60).Draw(t, "b")), "random-bytes"
	case 2:
		n := rapid.IntRange(1, 25).Draw(t, "nt")
		var parts []string
		for i := 0; i < n; i++ {
			parts = append(parts, rapid.SampledFrom(hostileTokens).Draw(t, "tok"))
		}
		return strings.Join(parts, rapid.SampledFrom([]string{" ", "", " "}).Draw(t, "sep")), "token-soup"
	case 3:
		// deep nesting
		d := rapid.IntRange(1, 3000).Draw(t, "depth")
		open := rapid.SampledFrom([]string{"(", "((", "abs(", "'", "\"\"", "[", "-", "+", "- -", "1+", "a||"}).Draw(t, "open")
		inner := rapid.SampledFrom([]string{"1", "a", "", "'x'"}).Draw(t, "inner")
		cl := ""
		if strings.Contains(open, "(") && rapid.Bool().Draw(t, "close") {
			cl = strings.Repeat(strings.Repeat(")", strings.Count(open, "(")), d)
		}
		e := strings.Repeat(open, d) + inner + cl
		return rapid.SampledFrom([]string{"CREATE INDEX i ON t (%s)", "CREATE TABLE t (a CHECK (%s))", "CREATE TABLE t (a DEFAULT %s)", "%s", "CREATE INDEX i ON t (a) WHERE %s"}).Draw(t, "wrap") + "\x00" + e, "deep"
	case 4:
		return genStatement(t), "grammar"
	default:
		toks := tokensOf(genStatement(t))
		k := rapid.IntRange(1, 3).Draw(t, "nmut")
		for i := 0; i < k && len(toks) > 0; i++ {
			p := rapid.IntRange(0, len(toks)-1).Draw(t, "pos")
			switch rapid.IntRange(0, 4).Draw(t, "mut") {
			case 0:
				toks = append(toks[:p], toks[p+1:]...)
			case 1:
				toks = append(toks[:p+1], toks[p:]...)
			case 2:
				q := rapid.IntRange(0, len(toks)-1).Draw(t, "pos2")
				toks[p], toks[q] = toks[q], toks[p]
			case 3:
				toks[p] = rapid.SampledFrom(hostileTokens).Draw(t, "repl")
			default:
				toks = append(toks[:p+1], append([]string{rapid.SampledFrom(hostileTokens).Draw(t, "ins")}, toks[p+1:]...)...)
			}
		}
		return strings.Join(toks, " "), "grammar-mutated"
	}
}

type totalSpec struct {
	Input string
	Kind  string
	Other string
	// Repeat > 0: the marker "@@" in Input stands for Repeat copies of Unit
	// (very long inputs stay small in replay files)
	Repeat int    `json:",omitempty"`
	Unit   string `json:",omitempty"`
}

func (s totalSpec) text() string {
	if s.Repeat > 0 {
		return strings.Replace(s.Input, "@@", strings.Repeat(s.Unit, s.Repeat), 1)
	}
	return s.Input
}

// typeArgsOf gives the parenthesised type arguments reported for column i
// (they are kept per statement, by column position).
func typeArgsOf(st sql.CreateTableStmt, i int) string {
	if i < len(st.TypeArgs) {
		return st.TypeArgs[i]
	}
	return ""
}

func TestC16Total(t *testing.T) {
	vt.Exec(t, vt.Check[totalSpec]{
		ID: "C16", Test: "TestC16Total",
		Gen: func(t *rapid.T) totalSpec {
			in, kind := genInput(t)
			if kind == "deep" {
				parts := strings.SplitN(in, "\x00", 2)
				in = strings.Replace(parts[0], "%s", parts[1], 1)
			}
			other, _ := genInput(t)
			if i := strings.Index(other, "\x00"); i >= 0 {
				other = other[:i]
			}
			return totalSpec{Input: in, Kind: kind, Other: other}
		},
		Run: totalRun,
	})
}

// TestC16Long: very long tokens (quoted names and literals full of doubled
// quotes, long runs of digits, signs, parentheses, list elements). Few cases,
// each of them big.
func TestC16Long(t *testing.T) {
	vt.Exec(t, vt.Check[totalSpec]{
		ID: "C16", Test: "TestC16Long",
		Gen: func(t *rapid.T) totalSpec {
			return totalSpec{
				Input:  rapid.SampledFrom([]string{"CREATE TABLE t (\"a@@\")", "CREATE TABLE t (a DEFAULT 'x@@')", "CREATE INDEX i ON t (`@@`)", "CREATE TABLE t (a CHECK (a > @@1))", "CREATE TABLE [@@] (a)", "SELECT @@ FROM t", "CREATE TABLE t (a DEFAULT @@1)"}).Draw(t, "longtmpl"),
				Unit:   rapid.SampledFrom([]string{"\"\"", "''", "``", "9", "- ", "(", "a,", "--", " "}).Draw(t, "longunit"),
				Repeat: rapid.SampledFrom([]int{1000, 20000, 300000, 1500000}).Draw(t, "longn"),
				Kind:   "long", Other: "SELECT a FROM t",
			}
		},
		Run: totalRun,
	})
}

func totalRun(r *vt.Run, t vt.TB, s totalSpec) {
	{
		{
			in := s.text()
			show := in
			if len(show) > 300 {
				show = fmt.Sprintf("%s ... (%d bytes: %q with @@ = %d x %q)", in[:120], len(in), s.Input, s.Repeat, s.Unit)
			}
			first, ok := parseGuarded(in)
			accepted := ok && first.err == "" && first.panic == ""
			cls := "total:" + s.Kind + ":rejected"
			if accepted {
				cls = "total:" + s.Kind + ":accepted"
			}
			r.Case(s, len(in) > 0, cls)
			if !ok {
				r.Violation(t, s, "total:hang", "Parse did not return within %v on %d bytes: %s", hangAfter(len(in)), len(in), show)
				return
			}
			if first.panic != "" {
				r.Violation(t, s, "total:panic", "Parse(%s) panics: %s", show, first.panic)
				return
			}
			if first.res == nil && first.err == "" {
				r.Violation(t, s, "total:neither", "Parse(%s) returned neither a statement nor an error", show)
				return
			}
			if first.res != nil && first.err != "" {
				r.Violation(t, s, "total:both", "Parse(%s) returned a statement (%.200v) and an error (%s)", show, first.res, first.err)
				return
			}
			// (several times: an order-dependent choice, e.g. by map iteration,
			// shows with some probability only)
			repeats := 6
			if len(in) > 100000 {
				repeats = 1 // (the parser is linear but not fast: 1.5M nested parentheses take seconds)
			}
			for i := 0; i < repeats; i++ {
				second := parseOnce(in)
				if !reflect.DeepEqual(first, second) {
					r.Violation(t, s, "det:repeat", "Parse(%s) repeatedly: %.300v then %.300v", show, first, second)
					return
				}
			}
			parseOnce(s.Other)
			third := parseOnce(in)
			if !reflect.DeepEqual(first, third) {
				r.Violation(t, s, "det:after-other", "Parse(%s) after parsing %q: %.300v, before %.300v", show, s.Other, third, first)
			}
		}
	}
}

// ---- locality

type localSpec struct {
	Table sqlgen.Table
	Index *sqlgen.Index `json:",omitempty"`
	Perm  []int         // a permutation of the columns (resp. indexed columns)
}

var orc *oracle.Oracle

func plainTable(tb sqlgen.Table) string {
	var cols []string
	for _, c := range tb.Cols {
		cols = append(cols, c.Ident.SQL)
	}
	return "CREATE TABLE " + tb.Ident.SQL + " (" + strings.Join(cols, ", ") + ")"
}

// sqliteAccepts asks real SQLite which of the statements it accepts; each is
// executed on a fresh in-memory database after the prelude.
func sqliteAccepts(r *vt.Run, t vt.TB, prelude string, stmts []string) []bool {
	out := make([]bool, len(stmts))
	if err := orc.Open("m", ":memory:"); err != nil {
		r.Harness(t, "oracle open: %v", err)
	}
	var script []oracle.Stmt
	off := 0
	if prelude != "" {
		script = append(script, oracle.Stmt{SQL: prelude})
		off = 1
	}
	for _, s := range stmts {
		// DDL is transactional: try the statement, then undo it
		script = append(script, oracle.Stmt{SQL: "SAVEPOINT v"}, oracle.Stmt{SQL: s}, oracle.Stmt{SQL: "ROLLBACK TO v"}, oracle.Stmt{SQL: "RELEASE v"})
	}
	res, err := orc.Script("m", script, false)
	if err != nil || len(res) != len(script) {
		r.Harness(t, "oracle script: %v (%d results for %d statements)", err, len(res), len(script))
	}
	if prelude != "" && !res[0].Ok {
		r.Harness(t, "prelude rejected: %s: %s", prelude, res[0].Err)
	}
	for i := range stmts {
		out[i] = res[off+4*i+1].Ok
		if !res[off+4*i].Ok || !res[off+4*i+2].Ok || !res[off+4*i+3].Ok {
			r.Harness(t, "savepoint handling failed around %q", stmts[i])
		}
	}
	return out
}

func applyPerm[T any](xs []T, perm []int) []T {
	out := make([]T, len(xs))
	for i, p := range perm {
		out[i] = xs[p]
	}
	return out
}

func TestC16Local(t *testing.T) {
	vt.Exec(t, vt.Check[localSpec]{
		ID: "C16", Test: "TestC16Local",
		Setup: func(r *vt.Run, t *testing.T) {
			var err error
			orc, err = oracle.Start()
			if err != nil {
				r.Harness(t, "oracle: %v", err)
			}
		},
		Teardown: func() {
			if orc != nil {
				orc.Stop()
			}
		},
		Gen: func(t *rapid.T) localSpec {
			used := map[string]bool{}
			tb := sqlgen.GenTable(t, sqlgen.GenIdent(t, used, "tn"), sqlgen.Opts{MaxCols: 5, Conservative: rapid.IntRange(0, 3).Draw(t, "cons") > 0})
			if len(tb.Cols) >= 2 && rapid.IntRange(0, 5).Draw(t, "twofk") == 0 {
				// the same kind of clause on two elements, spelt differently
				// (with and without the optional parts): what one of them
				// leaves out must not be filled in from the other
				forms := []string{"REFERENCES p (x)", "REFERENCES q", "REFERENCES p (y, z) ON DELETE CASCADE", "REFERENCES q ON UPDATE SET NULL", "REFERENCES r (x) DEFERRABLE INITIALLY DEFERRED", "REFERENCES q DEFERRABLE"}
				i := rapid.IntRange(0, len(tb.Cols)-2).Draw(t, "fk1")
				j := rapid.IntRange(i+1, len(tb.Cols)-1).Draw(t, "fk2")
				tb.Cols[i].Cons = append(append([]string{}, tb.Cols[i].Cons...), rapid.SampledFrom(forms).Draw(t, "fkform1"))
				tb.Cols[j].Cons = append(append([]string{}, tb.Cols[j].Cons...), rapid.SampledFrom(forms).Draw(t, "fkform2"))
			}
			if len(tb.Cols) >= 2 && rapid.IntRange(0, 5).Draw(t, "twotablefk") == 0 {
				// two foreign key constraints of the table, the later one (or
				// both) over two columns: the column lists of one are no
				// business of the other
				a, b := tb.Cols[0].Ident.SQL, tb.Cols[1].Ident.SQL
				first := rapid.SampledFrom([]string{"FOREIGN KEY (" + b + ") REFERENCES q (z)", "FOREIGN KEY (" + a + ", " + b + ") REFERENCES q (z, w)", "FOREIGN KEY (" + a + ") REFERENCES q"}).Draw(t, "tfk1")
				second := rapid.SampledFrom([]string{"FOREIGN KEY (" + a + ", " + b + ") REFERENCES p (x, y)", "FOREIGN KEY (" + b + ", " + a + ") REFERENCES p (x, y) ON DELETE CASCADE"}).Draw(t, "tfk2")
				tb.Cons = append(append(append([]string{}, tb.Cons...), first), second)
			}
			s := localSpec{Table: tb}
			n := len(tb.Cols)
			if rapid.IntRange(0, 2).Draw(t, "isindex") == 0 {
				ix := sqlgen.GenIndex(t, sqlgen.GenIdent(t, used, "in"), tb, rapid.Bool().Draw(t, "uq"), true, true)
				s.Index = &ix
				n = len(ix.Cols)
			}
			idx := make([]int, n)
			for i := range idx {
				idx[i] = i
			}
			s.Perm = rapid.Permutation(idx).Draw(t, "perm")
			return s
		},
		Run: runLocal,
	})
}

func runLocal(r *vt.Run, t vt.TB, s localSpec) {
	if s.Index != nil {
		runLocalIndex(r, t, s)
		return
	}
	tb := s.Table
	full := tb.SQL()
	// variants: full, each column alone, each constraint with plain columns, permuted
	var stmts = []string{full}
	for _, c := range tb.Cols {
		stmts = append(stmts, "CREATE TABLE "+tb.Ident.SQL+" ("+c.SQL()+")")
	}
	var plain []string
	for _, c := range tb.Cols {
		plain = append(plain, c.Ident.SQL)
	}
	for _, k := range tb.Cons {
		stmts = append(stmts, "CREATE TABLE "+tb.Ident.SQL+" ("+strings.Join(plain, ", ")+", "+k+")")
	}
	permuted := tb
	permuted.Cols = applyPerm(tb.Cols, s.Perm)
	stmts = append(stmts, permuted.SQL())
	ok := sqliteAccepts(r, t, "", stmts)
	if !ok[0] {
		r.Exclude("sqlite-rejects-statement")
		return
	}
	attr, plainAfter := false, false
	for _, c := range tb.Cols {
		if c.HasAttr() {
			attr = true
		} else if attr {
			plainAfter = true
		}
	}
	nontrivial := len(tb.Cols)+len(tb.Cons) >= 3 && plainAfter
	fullOut := parseOnce(full)
	if fullOut.panic != "" {
		r.Case(s, nontrivial, "local:table:panic")
		r.Violation(t, s, "total:panic", "Parse(%q) panics: %s", full, fullOut.panic)
		return
	}
	if fullOut.err != "" {
		r.Case(s, nontrivial, "local:table:parser-rejects")
		return
	}
	r.Case(s, nontrivial, "local:table:compared")
	// the same statement with other white space between its elements (line
	// ends of another system, tabs, a form feed): what stands between the
	// elements is no part of any of them
	{
		other := tb
		other.Sep = sqlgen.Separators[(len(full)+len(s.Perm))%len(sqlgen.Separators)]
		if other.Sep == tb.Sep {
			other.Sep = ""
		}
		if v := other.SQL(); sqliteAccepts(r, t, "", []string{v})[0] {
			r.Count("local:white-space-variants", 1)
			out := parseOnce(v)
			if out.err != "" || out.panic != "" {
				r.Violation(t, s, "local:white-space", "%q parses; with other white space between the elements it does not (SQLite accepts both): Parse(%q) = %s%s", full, v, out.err, out.panic)
				return
			}
			if !reflect.DeepEqual(out.res, fullOut.res) {
				r.Violation(t, s, "local:white-space-report", "%q and %q differ in white space only, the reports differ: %+v / %+v", full, v, fullOut.res, out.res)
				return
			}
		}
	}
	st, isTable := fullOut.res.(sql.CreateTableStmt)
	if !isTable {
		r.Violation(t, s, "local:stmt-kind", "Parse(%q) gives a %T", full, fullOut.res)
		return
	}
	if len(st.Columns) != len(tb.Cols) {
		r.Violation(t, s, "local:column-count", "%q has %d column definitions, parser reports %d: %+v", full, len(tb.Cols), len(st.Columns), st.Columns)
		return
	}
	if len(st.Constraints) != len(tb.Cons) {
		// CHECK table constraints are not reported at all? then the parser must have rejected. Anything else is a miscount.
		r.Violation(t, s, "local:constraint-count", "%q has %d table constraints, parser reports %d: %+v", full, len(tb.Cons), len(st.Constraints), st.Constraints)
		return
	}
	if st.WithoutRowid != tb.WithoutRowid {
		r.Violation(t, s, "local:without-rowid", "%q: WithoutRowid=%v", full, st.WithoutRowid)
		return
	}
	for i := range tb.Cols {
		if !ok[1+i] {
			r.Count("local:alone-invalid-in-sqlite", 1)
			continue
		}
		alone := parseOnce(stmts[1+i])
		if alone.err != "" || alone.panic != "" {
			r.Count("local:alone-rejected-by-parser", 1)
			continue
		}
		ast := alone.res.(sql.CreateTableStmt)
		// the column's constraints one at a time: if the parser takes each
		// of them, and the column with all of them, it must take them in
		// another order as well (SQLite permitting) - whether a constraint is
		// understood does not depend on the constraint before it
		orderFree := true
		for _, k := range tb.Cols[i].Cons {
			// DEFERRABLE on its own belongs to the REFERENCES clause before it
			// (SQLite reads it so): moving it changes the meaning, and the
			// library may well take it only where it means something
			if u := fold.Upper(k); strings.HasPrefix(u, "DEFERRABLE") || strings.HasPrefix(u, "NOT DEFERRABLE") {
				orderFree = false
				r.Count("local:constraint-order-not-free", 1)
			}
		}
		if c := tb.Cols[i]; len(c.Cons) >= 2 && orderFree {
			rev := c
			rev.Cons = nil
			for k := len(c.Cons) - 1; k >= 0; k-- {
				rev.Cons = append(rev.Cons, c.Cons[k])
			}
			rot := c
			rot.Cons = append(append([]string{}, c.Cons[1:]...), c.Cons[0])
			variants := []string{"CREATE TABLE " + tb.Ident.SQL + " (" + rev.SQL() + ")", "CREATE TABLE " + tb.Ident.SQL + " (" + rot.SQL() + ")"}
			vok := sqliteAccepts(r, t, "", variants)
			for vi, v := range variants {
				if !vok[vi] {
					continue
				}
				r.Count("local:constraint-orders-tried", 1)
				out := parseOnce(v)
				if out.err != "" || out.panic != "" {
					r.Violation(t, s, "local:constraint-order", "%q parses, the same constraints in another order do not (SQLite accepts both): Parse(%q) = %s%s", stmts[1+i], v, out.err, out.panic)
					return
				}
				// ... and what is reported about a constraint that occurs once in
				// the list is the same wherever it stands in it
				vst, isT := out.res.(sql.CreateTableStmt)
				if !isT || len(vst.Columns) != 1 || len(ast.Columns) != 1 {
					r.Violation(t, s, "local:constraint-order", "Parse(%q) = %+v", v, out.res)
					return
				}
				a, b := ast.Columns[0], vst.Columns[0]
				count := func(word string) int {
					n := 0
					for _, k := range c.Cons {
						if strings.Contains(" "+fold.Upper(k)+" ", " "+word+" ") {
							n++
						}
					}
					return n
				}
				var diff string
				switch {
				case a.Name != b.Name || a.Type != b.Type:
					diff = "name or type"
				case count("REFERENCES") == 1 && !reflect.DeepEqual(a.References, b.References):
					diff = fmt.Sprintf("REFERENCES clause: %+v / %+v", a.References, b.References)
				case count("DEFAULT") == 1 && !reflect.DeepEqual(a.Default, b.Default):
					diff = fmt.Sprintf("DEFAULT: %#v / %#v", a.Default, b.Default)
				case count("COLLATE") == 1 && a.Collate != b.Collate:
					diff = fmt.Sprintf("COLLATE: %q / %q", a.Collate, b.Collate)
				case count("CHECK") == 1 && !reflect.DeepEqual(a.Checks, b.Checks):
					diff = fmt.Sprintf("CHECK: %+v / %+v", a.Checks, b.Checks)
				case count("PRIMARY") == 1 && (a.PrimaryKey != b.PrimaryKey || a.PrimaryKeyDir != b.PrimaryKeyDir || a.AutoIncrement != b.AutoIncrement):
					diff = "PRIMARY KEY"
				case a.Unique != b.Unique:
					diff = "UNIQUE"
				}
				if diff != "" {
					r.Violation(t, s, "local:constraint-order-report", "the constraints of column %q in another order (%q): what is reported about one of them changes: %s", stmts[1+i], v, diff)
					return
				}
				r.Count("local:constraint-orders-compared", 1)
			}
		}
		if len(ast.Columns) == 1 && typeArgsOf(ast, 0) != typeArgsOf(st, i) {
			r.Violation(t, s, "local:column-type-arguments", "column %d of %q: type arguments reported as %q, the same text alone (%q) as %q", i, full, typeArgsOf(st, i), stmts[1+i], typeArgsOf(ast, 0))
			return
		}
		if len(ast.Columns) != 1 || !reflect.DeepEqual(ast.Columns[0], st.Columns[i]) {
			r.Violation(t, s, "local:column", "column %d of %q reported as %+v, the same text alone (%q) as %+v", i, full, st.Columns[i], stmts[1+i], ast.Columns)
			return
		}
	}
	base := 1 + len(tb.Cols)
	for j := range tb.Cons {
		if !ok[base+j] {
			r.Count("local:alone-invalid-in-sqlite", 1)
			continue
		}
		alone := parseOnce(stmts[base+j])
		if alone.err != "" || alone.panic != "" {
			r.Count("local:alone-rejected-by-parser", 1)
			continue
		}
		ast := alone.res.(sql.CreateTableStmt)
		if len(ast.Constraints) != 1 || !reflect.DeepEqual(ast.Constraints[0], st.Constraints[j]) {
			r.Violation(t, s, "local:table-constraint", "constraint %d of %q reported as %+v, alone (%q) as %+v", j, full, st.Constraints[j], stmts[base+j], ast.Constraints)
			return
		}
	}
	if ok[len(stmts)-1] {
		po := parseOnce(stmts[len(stmts)-1])
		if po.err == "" && po.panic == "" {
			pst := po.res.(sql.CreateTableStmt)
			if len(pst.Columns) == len(s.Perm) {
				for i, p := range s.Perm {
					if typeArgsOf(pst, i) != typeArgsOf(st, p) {
						r.Violation(t, s, "local:reorder-type-arguments", "column %q: type arguments %q in %q but %q in %q", tb.Cols[p].SQL(), typeArgsOf(st, p), full, typeArgsOf(pst, i), stmts[len(stmts)-1])
						return
					}
					if !reflect.DeepEqual(pst.Columns[i], st.Columns[p]) {
						r.Violation(t, s, "local:reorder", "column %q reported as %+v in %q but as %+v in %q", tb.Cols[p].SQL(), st.Columns[p], full, pst.Columns[i], stmts[len(stmts)-1])
						return
					}
				}
			} else {
				r.Violation(t, s, "local:column-count", "%q: parser reports %d columns", stmts[len(stmts)-1], len(pst.Columns))
			}
		} else if po.panic != "" {
			r.Violation(t, s, "total:panic", "Parse(%q) panics: %s", stmts[len(stmts)-1], po.panic)
		} else {
			r.Count("local:reordered-rejected-by-parser", 1)
		}
	}
}

func runLocalIndex(r *vt.Run, t vt.TB, s localSpec) {
	ix := *s.Index
	prelude := plainTable(s.Table)
	full := ix.SQL()
	stmts := []string{full}
	for _, c := range ix.Cols {
		one := ix
		one.Cols = []string{c}
		one.Where = ""
		stmts = append(stmts, one.SQL())
	}
	noWhere := ix
	noWhere.Where = ""
	stmts = append(stmts, noWhere.SQL())
	permuted := ix
	permuted.Cols = applyPerm(ix.Cols, s.Perm)
	stmts = append(stmts, permuted.SQL())
	ok := sqliteAccepts(r, t, prelude, stmts)
	if !ok[0] {
		r.Exclude("sqlite-rejects-statement")
		return
	}
	attr, plainAfter := false, false
	for _, c := range ix.Cols {
		if strings.Contains(c, " COLLATE ") || strings.HasSuffix(c, "SC") {
			attr = true
		} else if attr {
			plainAfter = true
		}
	}
	nontrivial := len(ix.Cols) >= 3 && plainAfter || (len(ix.Cols) >= 2 && ix.Where == "" && plainAfter)
	fullOut := parseOnce(full)
	if fullOut.panic != "" {
		r.Case(s, nontrivial, "local:index:panic")
		r.Violation(t, s, "total:panic", "Parse(%q) panics: %s", full, fullOut.panic)
		return
	}
	if fullOut.err != "" {
		r.Case(s, nontrivial, "local:index:parser-rejects")
		return
	}
	r.Case(s, nontrivial, "local:index:compared")
	st, isIndex := fullOut.res.(sql.CreateIndexStmt)
	if !isIndex {
		r.Violation(t, s, "local:stmt-kind", "Parse(%q) gives a %T", full, fullOut.res)
		return
	}
	if len(st.IndexedColumns) != len(ix.Cols) {
		r.Violation(t, s, "local:column-count", "%q has %d indexed columns, parser reports %d: %+v", full, len(ix.Cols), len(st.IndexedColumns), st.IndexedColumns)
		return
	}
	if st.Unique != ix.Unique {
		r.Violation(t, s, "local:unique", "%q: Unique=%v", full, st.Unique)
		return
	}
	if ix.Where == "" && st.Where != nil {
		r.Violation(t, s, "local:where", "%q has no WHERE, parser reports %+v", full, st.Where)
		return
	}
	for i := range ix.Cols {
		if !ok[1+i] {
			r.Count("local:alone-invalid-in-sqlite", 1)
			continue
		}
		alone := parseOnce(stmts[1+i])
		if alone.err != "" || alone.panic != "" {
			r.Count("local:alone-rejected-by-parser", 1)
			continue
		}
		ast := alone.res.(sql.CreateIndexStmt)
		if len(ast.IndexedColumns) != 1 || !reflect.DeepEqual(ast.IndexedColumns[0], st.IndexedColumns[i]) {
			r.Violation(t, s, "local:indexed-column", "indexed column %d of %q reported as %+v, alone (%q) as %+v", i, full, st.IndexedColumns[i], stmts[1+i], ast.IndexedColumns)
			return
		}
		if ast.Where != nil {
			r.Violation(t, s, "local:where", "%q has no WHERE, parser reports %+v", stmts[1+i], ast.Where)
			return
		}
	}
	nw := 1 + len(ix.Cols)
	if ok[nw] {
		o := parseOnce(stmts[nw])
		if o.err == "" && o.panic == "" {
			ast := o.res.(sql.CreateIndexStmt)
			if !reflect.DeepEqual(ast.IndexedColumns, st.IndexedColumns) {
				r.Violation(t, s, "local:indexed-column", "removing WHERE changes the indexed columns: %+v vs %+v (%q)", ast.IndexedColumns, st.IndexedColumns, full)
				return
			}
			if ast.Where != nil {
				r.Violation(t, s, "local:where", "%q has no WHERE, parser reports %+v", stmts[nw], ast.Where)
				return
			}
		}
	}
	if ok[nw+1] {
		po := parseOnce(stmts[nw+1])
		if po.err == "" && po.panic == "" {
			pst := po.res.(sql.CreateIndexStmt)
			if len(pst.IndexedColumns) != len(s.Perm) {
				r.Violation(t, s, "local:column-count", "%q: parser reports %d indexed columns", stmts[nw+1], len(pst.IndexedColumns))
				return
			}
			for i, p := range s.Perm {
				if !reflect.DeepEqual(pst.IndexedColumns[i], st.IndexedColumns[p]) {
					r.Violation(t, s, "local:reorder", "indexed column %q reported as %+v in %q but as %+v in %q", ix.Cols[p], st.IndexedColumns[p], full, pst.IndexedColumns[i], stmts[nw+1])
					return
				}
			}
			if !reflect.DeepEqual(pst.Where, st.Where) {
				r.Violation(t, s, "local:where", "WHERE of %q reported as %+v, after reordering columns as %+v", full, st.Where, pst.Where)
			}
		}
	}
}

var _ = os.Getenv

// replayFuzzFile: crasher of the native fuzzer -> totality case (replayable).
func replayFuzzFile(t *testing.T) {
	path := os.Getenv("VERIF_FUZZFILE")
	if path == "" {
		t.Skip()
	}
	r := vt.Begin("C16", "TestC16Total")
	defer r.End()
	b, err := os.ReadFile(path)
	if err != nil {
		r.Harness(t, "fuzz file: %v", err)
	}
	var in string
	found := false
	for _, line := range strings.Split(string(b), "\n") {
		line = strings.TrimSpace(line)
		if strings.HasPrefix(line, "string(") && strings.HasSuffix(line, ")") {
			s, err := strconv.Unquote(line[len("string(") : len(line)-1])
			if err != nil {
				r.Harness(t, "fuzz file: %v", err)
			}
			in, found = s, true
		}
	}
	if !found {
		r.Harness(t, "fuzz file %s holds no string value", path)
	}
	s := totalSpec{Input: in, Kind: "native-fuzz", Other: "SELECT a FROM t"}
	r.Case(s, true, "total:native-fuzz")
	first, ok := parseGuarded(s.Input)
	switch {
	case !ok:
		r.Violation(t, s, "total:hang", "Parse did not return within 40s on %d bytes", len(s.Input))
	case first.panic != "":
		r.Violation(t, s, "total:panic", "Parse(%q) panics: %s", s.Input, first.panic)
	case first.res == nil && first.err == "":
		r.Violation(t, s, "total:neither", "Parse(%q) returned neither a statement nor an error", s.Input)
	default:
		if second := parseOnce(s.Input); !reflect.DeepEqual(first, second) {
			r.Violation(t, s, "det:repeat", "Parse(%q) twice: %+v then %+v", s.Input, first, second)
		}
	}
}
