package c16

import (
	"reflect"
	"testing"
)

// Native coverage-guided fuzzing of the parser (thorough tier): totality and
// determinism on arbitrary byte strings.
func FuzzC16Parse(f *testing.F) {
	for _, s := range []string{
		"CREATE TABLE t (a INTEGER PRIMARY KEY, b TEXT COLLATE NOCASE DEFAULT 'x', UNIQUE (b DESC)) WITHOUT ROWID",
		"CREATE UNIQUE INDEX i ON t (a, lower(b) COLLATE nocase DESC) WHERE a > 5",
		"SELECT a, *, rowid FROM t",
		"CREATE TABLE [t] (\"a\" REFERENCES o(x) ON DELETE SET NULL DEFERRABLE INITIALLY DEFERRED, `b` CHECK (b+1 > 2), FOREIGN KEY (a) REFERENCES o (x))",
		"CREATE TABLE t (é, b DEFAULT -1e3)", "'", "\"", "[", "0x", "1e", "(((((", "CREATE INDEX i ON t ((a+1) COLLATE rtrim)",
	} {
		f.Add(s)
	}
	f.Fuzz(func(t *testing.T, s string) {
		if len(s) > 1<<14 {
			return
		}
		a, ok := parseGuarded(s)
		if !ok {
			t.Fatalf("Parse does not return on %d bytes", len(s))
		}
		if a.panic != "" {
			t.Fatalf("Parse(%q) panics: %s", s, a.panic)
		}
		if a.res == nil && a.err == "" {
			t.Fatalf("Parse(%q) returns neither statement nor error", s)
		}
		if b := parseOnce(s); !reflect.DeepEqual(a, b) {
			t.Fatalf("Parse(%q) twice: %+v then %+v", s, a, b)
		}
	})
}

// TestC16FromFuzzFile replays a crasher saved by the native fuzzer as an
// ordinary totality case.
func TestC16FromFuzzFile(t *testing.T) {
	replayFuzzFile(t)
}
