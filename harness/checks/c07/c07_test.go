// C07 — readers yield to writers and only ever see committed data.
//
// A real SQLite connection (oracle process) is walked through its lock states
// by a generated sequence of moves and parked there; after every move a
// generated sqlittle read operation runs in this process. The lock state is
// observed with F_GETLK (it reports the locks of the other process) and
// decides the expected outcome; a small model of the writer cross-checks the
// observation.
package c07

import (
	"fmt"
	"os"
	"strings"
	"testing"

	"github.com/alicebob/sqlittle"
	sdb "github.com/alicebob/sqlittle/db"
	"pgregory.net/rapid"

	"verif/e1"
	"verif/locks"
	"verif/oracle"
	"verif/sqdb"
	"verif/val"
	"verif/vt"
)

var env *sqdb.Env

var peer *locks.Peer

type step struct {
	Move string
	Read string
	N    int
}

type spec struct {
	PageSize int
	Steps    []step
	// SyncOff: the writer runs with PRAGMA synchronous=OFF (its journal header
	// carries the magic as soon as the journal exists, while it only holds RESERVED)
	SyncOff bool `json:",omitempty"`
}

var moves = []string{"begin", "begin-immediate", "begin-exclusive", "write-small", "write-small", "write-spill", "write-ddl", "commit-begin-write", "commit-begin-write", "cursor-open", "cursor-close", "r2-open", "r2-close", "commit", "commit", "rollback", "nothing",
	// another handle of THIS process parks inside a row callback (holding the
	// process' SHARED lock, which blocks the writer's commit) / lets go
	"own-hold", "own-hold", "own-release",
	// a third process write-locks the shared range without taking the PENDING
	// byte first (what SQLite's unix-excl VFS does) / lets go
	"raw-lock", "raw-unlock"}
var reads = []string{"select", "select", "rowid", "indexed", "pk", "columns", "low-scan", "open-select", "open-select"}

func TestC07LockStates(t *testing.T) {
	vt.Exec(t, vt.Check[spec]{
		ID: "C07", Test: "TestC07LockStates",
		Setup: func(r *vt.Run, t *testing.T) {
			var err error
			if env, err = sqdb.NewEnv(); err != nil {
				r.Harness(t, "env: %v", err)
			}
			if peer, err = locks.StartPeer(); err != nil {
				r.Harness(t, "peer: %v", err)
			}
		},
		Teardown: func() { peer.Stop(); env.Close() },
		Gen: func(t *rapid.T) spec {
			s := spec{PageSize: rapid.SampledFrom([]int{512, 1024, 4096}).Draw(t, "ps"), SyncOff: rapid.IntRange(0, 2).Draw(t, "syncoff") == 0}
			n := rapid.IntRange(2, 14).Draw(t, "nsteps")
			for i := 0; i < n; i++ {
				s.Steps = append(s.Steps, step{rapid.SampledFrom(moves).Draw(t, "move"), rapid.SampledFrom(reads).Draw(t, "read"), rapid.IntRange(0, 100).Draw(t, "n")})
			}
			return s
		},
		Run: run,
	})
}

func run(r *vt.Run, t vt.TB, s spec) {
	path := env.NewPath()
	defer sqdb.Remove(path)
	init := []oracle.Stmt{
		{SQL: "CREATE TABLE t (a INTEGER PRIMARY KEY, b, c TEXT)"},
		{SQL: "CREATE INDEX tb ON t (b)"},
		{SQL: "CREATE TABLE w (k TEXT PRIMARY KEY, v) WITHOUT ROWID"},
		{SQL: "WITH RECURSIVE c(x) AS (SELECT 1 UNION ALL SELECT x+1 FROM c WHERE x < 40) INSERT INTO t (b, c) SELECT x%7, 'row'||x FROM c"},
		{SQL: "INSERT INTO w VALUES ('k1', 1), ('k2', 2), ('k3', 3)"},
	}
	res, err := env.Create("w", path, s.PageSize, 0, init)
	sqdb.MustOK(r, t, "create", res, err, len(init)+2)
	defer env.O.Close("w")
	if err := env.O.Open("r2", path); err != nil {
		r.Harness(t, "open r2: %v", err)
	}
	defer env.O.Close("r2")
	// a small cache makes a big write spill dirty pages into the file before commit
	if err := env.O.Exec("w", "PRAGMA cache_size=2"); err != nil {
		r.Harness(t, "cache_size: %v", err)
	}
	if s.SyncOff {
		if err := env.O.Exec("w", "PRAGMA synchronous=OFF"); err != nil {
			r.Harness(t, "synchronous: %v", err)
		}
	}
	probeFile, err := os.Open(path)
	if err != nil {
		r.Harness(t, "probe open: %v", err)
	}
	defer probeFile.Close()

	snapshot := func() []val.Row {
		rows, err := env.O.Query("w", "SELECT a, b, c FROM t ORDER BY a")
		if err != nil {
			r.Harness(t, "snapshot: %v", err)
		}
		return rows
	}
	colSnapshot := func() string {
		rows, err := env.O.Query("w", "SELECT group_concat(name) FROM pragma_table_info('t')")
		if err != nil || len(rows) != 1 {
			r.Harness(t, "column snapshot: %v", err)
		}
		return string(rows[0][0].B)
	}
	committed := snapshot()
	committedCols := colSnapshot()
	committedW, _ := env.O.Query("w", "SELECT k, v FROM w ORDER BY k")

	hi, err := sqlittle.Open(path)
	if err != nil {
		r.Harness(t, "open: %v", err)
	}
	defer hi.Close()
	lo, err := sdb.OpenFile(path)
	if err != nil {
		r.Harness(t, "open low: %v", err)
	}
	defer lo.Close()

	// a third handle of this process that can park inside a read
	// (under another name of the same file: through a symbolic link)
	ownName := path + ".link"
	os.Remove(ownName)
	if err := os.Symlink(path, ownName); err != nil {
		r.Harness(t, "symlink: %v", err)
	}
	defer os.Remove(ownName)
	own, err := sqlittle.Open(ownName)
	if err != nil {
		r.Harness(t, "open own: %v", err)
	}
	defer own.Close()
	var ownRelease chan struct{}
	var ownDone chan error
	releaseOwn := func() {
		if ownRelease != nil {
			close(ownRelease)
			<-ownDone
			ownRelease, ownDone = nil, nil
		}
	}
	defer releaseOwn()
	rawHeld := false
	defer func() {
		if rawHeld {
			peer.Call("rawunlock", "")
		}
	}()

	// model of the writer
	inTxn, wrote, spilled, cursorW, cursorR2, pendingFail := false, false, false, false, false, false
	level := "UNLOCKED"
	seq := 0
	history := []string{}
	classes := map[string]bool{}
	nontrivial := false

	busy := func(err error) bool { return err != nil && oracle.IsBusy(err) }
	do := func(conn, sql string) error { return env.O.Exec(conn, sql) }

	for _, st := range s.Steps {
		// ---- move the writer
		applyMove := func(move string) {
			switch move {
			case "begin":
				if !inTxn && do("w", "BEGIN") == nil {
					inTxn = true
				}
			case "begin-immediate":
				if !inTxn {
					if err := do("w", "BEGIN IMMEDIATE"); err == nil {
						inTxn = true
						if level == "UNLOCKED" || level == "SHARED" {
							level = "RESERVED"
						}
					} else if !busy(err) {
						r.Harness(t, "begin immediate: %v", err)
					}
				}
			case "begin-exclusive":
				if !inTxn {
					if err := do("w", "BEGIN EXCLUSIVE"); err == nil {
						inTxn = true
						level = "EXCLUSIVE"
					} else if busy(err) {
						// r2 reads: SQLite keeps PENDING? no: a failed BEGIN EXCLUSIVE releases everything
					} else {
						r.Harness(t, "begin exclusive: %v", err)
					}
				}
			case "write-small":
				if inTxn {
					seq++
					if err := do("w", fmt.Sprintf("INSERT INTO t (b, c) VALUES (%d, 'uncommitted%d')", seq, seq)); err == nil {
						wrote = true
						if level != "EXCLUSIVE" && level != "PENDING" {
							level = "RESERVED"
						}
					} else if !busy(err) {
						r.Harness(t, "write-small: %v", err)
					}
				}
			case "write-ddl":
				// a row change and a schema change in one transaction (the commit
				// moves the schema cookie as well as the change counter)
				if inTxn {
					seq++
					err := do("w", fmt.Sprintf("INSERT INTO t (b, c) VALUES (%d, 'with-ddl%d')", seq, seq))
					if err == nil {
						if seq%2 == 0 {
							// (a change our own calls can see: the column list)
							err = do("w", fmt.Sprintf("ALTER TABLE t ADD COLUMN d%d DEFAULT %d", seq, seq))
						} else {
							err = do("w", fmt.Sprintf("CREATE INDEX ddl%d ON t (c, b)", seq))
						}
					}
					if err == nil {
						wrote = true
						classes["writer-changes-schema"] = true
						if level != "EXCLUSIVE" && level != "PENDING" {
							level = "RESERVED"
						}
					} else if !busy(err) {
						r.Harness(t, "write-ddl: %v", err)
					}
				}
			case "write-spill":
				if inTxn {
					seq++
					err := do("w", fmt.Sprintf("WITH RECURSIVE c(x) AS (SELECT 1 UNION ALL SELECT x+1 FROM c WHERE x < 400) INSERT INTO t (b, c) SELECT x, 'spill%d-'||hex(zeroblob(60)) FROM c", seq))
					if err == nil {
						wrote, spilled = true, true
						level = "EXCLUSIVE"
					} else if busy(err) {
						// could not get EXCLUSIVE for the spill because r2 reads: statement rolled back
					} else {
						r.Harness(t, "write-spill: %v", err)
					}
				}
			case "cursor-open":
				if !cursorW {
					if _, err := env.O.CursorOpen("w", "c", "SELECT a FROM t", 1); err == nil {
						cursorW = true
						if level == "UNLOCKED" {
							level = "SHARED"
						}
					}
				}
			case "cursor-close":
				if cursorW {
					env.O.CursorClose("w", "c")
					cursorW = false
				}
			case "r2-open":
				if !cursorR2 {
					if _, err := env.O.CursorOpen("r2", "c", "SELECT a FROM t", 1); err == nil {
						cursorR2 = true
					} else if !busy(err) {
						r.Harness(t, "r2 cursor: %v", err)
					}
				}
			case "r2-close":
				if cursorR2 {
					env.O.CursorClose("r2", "c")
					cursorR2 = false
				}
			case "commit":
				if inTxn {
					if cursorW {
						env.O.CursorClose("w", "c")
						cursorW = false
					}
					err := do("w", "COMMIT")
					switch {
					case err == nil:
						inTxn, wrote, spilled, pendingFail = false, false, false, false
						level = "UNLOCKED"
						if !rawHeld {
							// (under the third process' write lock only a transaction
							// that wrote nothing can have committed)
							committed = snapshot()
							committedCols = colSnapshot()
						}
					case busy(err):
						// a reader blocks the commit: SQLite keeps the PENDING lock
						pendingFail = true
					default:
						r.Harness(t, "commit: %v", err)
					}
				}
			case "own-hold":
				if ownRelease == nil {
					rel, done, inside := make(chan struct{}), make(chan error, 1), make(chan bool, 1)
					go func() {
						first := true
						err := own.Select("t", func(sqlittle.Row) {
							if first {
								first = false
								inside <- true
								<-rel
							}
						}, "a")
						if first {
							inside <- false
						}
						done <- err
					}()
					if <-inside {
						ownRelease, ownDone = rel, done
						classes["own-handle-parked-in-read"] = true
					} else {
						<-done // refused (a writer is ahead of us) or no rows: nothing is held
					}
				}
			case "own-release":
				releaseOwn()
			case "raw-lock":
				if !rawHeld {
					if pr, err := peer.Call("rawlock", path); err != nil {
						r.Harness(t, "peer: %v", err)
					} else if pr.Held {
						rawHeld = true
						classes["state:shared-range-write-locked-without-pending"] = true
					}
				}
			case "raw-unlock":
				if rawHeld {
					peer.Call("rawunlock", "")
					rawHeld = false
				}
			case "rollback":
				if inTxn {
					if cursorW {
						env.O.CursorClose("w", "c")
						cursorW = false
					}
					if err := do("w", "ROLLBACK"); err != nil {
						r.Harness(t, "rollback: %v", err)
					}
					inTxn, wrote, spilled, pendingFail = false, false, false, false
					level = "UNLOCKED"
				}
			}
		}
		switch st.Move {
		case "commit-begin-write":
			// three moves with no read of ours in between: the commit is one
			// our handles have not seen when the next transaction is under way
			applyMove("commit")
			applyMove("begin-immediate")
			applyMove("write-small")
			if inTxn && wrote {
				classes["read-meets-unseen-commit-and-open-transaction"] = true
			}
		default:
			applyMove(st.Move)
		}
		history = append(history, st.Move)

		// ---- observe the lock state from this process
		obs, err := locks.ProbeFd(probeFile)
		if err != nil {
			r.Harness(t, "probe: %v", err)
		}
		if obs.Pending.Pid != 0 && obs.Pending.Pid != env.O.Pid || obs.Shared.Pid != 0 && obs.Shared.Pid != env.O.Pid && !(rawHeld && obs.Shared.Pid == peer.Pid) {
			r.Harness(t, "locks held by an unexpected process: %s (oracle pid %d)", obs, env.O.Pid)
		}
		seen := obs.SQLiteLevel()
		if ownRelease != nil && obs.Shared.Type == "write" {
			// a handle of this process is inside a read (parked in its row
			// callback): its SHARED lock must keep every writer out
			r.Violation(t, s, "writer-exclusive-during-our-read", "after %v: the writer holds EXCLUSIVE (%s) while a handle of this process is still inside a read", history, obs)
			return
		}
		// cross-check with the model where the model is definite
		if !inTxn && !cursorW && !cursorR2 && !rawHeld && seen != "UNLOCKED" {
			r.Harness(t, "model says nothing is locked, probe sees %s (%s) after %v", seen, obs, history)
		}
		if spilled && seen != "EXCLUSIVE" && seen != "PENDING" {
			r.Harness(t, "model says pages were spilled under EXCLUSIVE, probe sees %s (%s) after %v", seen, obs, history)
		}
		_, jerr := os.Stat(path + "-journal")
		journal := jerr == nil
		mustFail := obs.Pending.Type == "write" || obs.Shared.Type == "write"
		cls := "state:" + seen
		if journal {
			cls += "+journal"
		}
		if spilled {
			cls += "+spilled"
		}
		if pendingFail && seen == "PENDING" {
			cls += "+commit-blocked"
			if ownRelease != nil {
				classes["state:PENDING+commit-blocked-by-our-own-handle"] = true
			}
		}
		classes[cls] = true
		if mustFail || (seen == "RESERVED" && journal) {
			nontrivial = true
		}
		_ = wrote

		// ---- the read
		var got [][]interface{}
		var gerr error
		want := committed
		cb := func(row sqlittle.Row) { got = append(got, append([]interface{}{}, row...)) }
		what := st.Read
		switch st.Read {
		case "select":
			gerr = hi.Select("t", cb, "a", "b", "c")
		case "open-select":
			h2, err := sqlittle.Open(path)
			if err != nil {
				gerr = err
			} else {
				gerr = h2.Select("t", cb, "a", "b", "c")
				h2.Close()
			}
		case "rowid":
			rid := int64(1 + st.N%40)
			row, err := hi.SelectRowid("t", rid, "a", "b", "c")
			gerr = err
			if row != nil {
				got = append(got, row)
			}
			want = nil
			for _, w := range committed {
				if w[0].I == rid {
					want = append(want, w)
				}
			}
			what = fmt.Sprintf("rowid(%d)", rid)
		case "indexed":
			gerr = hi.IndexedSelectEq("t", "tb", sqlittle.Key{int64(st.N % 7)}, cb, "a", "b", "c")
			want = nil
			for _, w := range committed {
				if w[1].T == 'i' && w[1].I == int64(st.N%7) {
					want = append(want, w)
				}
			}
			what = fmt.Sprintf("indexed(b=%d)", st.N%7)
		case "pk":
			gerr = hi.PKSelect("w", sqlittle.Key{"k2"}, cb, "k", "v")
			want = nil
			for _, w := range committedW {
				if string(w[0].B) == "k2" {
					want = append(want, w)
				}
			}
		case "columns":
			cols, err := hi.Columns("t")
			gerr = err
			if err == nil && strings.Join(cols, ",") != committedCols {
				r.Violation(t, s, "wrong-columns", "after %v: Columns(t) = %v in state %s; the last commit left %s", history, cols, seen, committedCols)
				return
			}
			if committedCols != "a,b,c" {
				classes["columns-read-after-a-committed-alter-table"] = true
			}
			want = nil
		case "low-scan":
			if gerr = lo.RLock(); gerr == nil {
				tab, err := lo.Table("t")
				if err != nil {
					gerr = err
				} else {
					gerr = tab.Scan(func(rowid int64, rec sdb.Record) bool {
						got = append(got, []interface{}{rowid, rec[1], rec[2]})
						return false
					})
				}
				lo.RUnlock()
			}
		}
		where := fmt.Sprintf("writer %s (%s, journal=%v) after %v: %s", seen, obs, journal, history, what)
		if mustFail {
			if gerr == nil {
				r.Violation(t, s, "read-succeeds-under-"+strings.ToLower(seen), "%s succeeds with %d rows; a writer holds %s", where, len(got), seen)
				return
			}
			if len(got) > 0 {
				r.Violation(t, s, "rows-delivered-under-"+strings.ToLower(seen), "%s fails (%v) but delivered %d rows", where, gerr, len(got))
				return
			}
			continue
		}
		if gerr != nil {
			r.Violation(t, s, "read-fails-under-"+strings.ToLower(seen), "%s fails: %v; only %s is held, the read must succeed", where, gerr, seen)
			return
		}
		if len(got) != len(want) {
			r.Violation(t, s, "uncommitted-or-stale-rows", "%s returns %d rows, the last committed state has %d", where, len(got), len(want))
			return
		}
		for i := range want {
			if !e1.SameRow(got[i], want[i]) {
				r.Violation(t, s, "uncommitted-or-stale-rows", "%s row %d is %s, committed %s", where, i, e1.ShowGot(got[i]), want[i])
				return
			}
		}
	}
	// leave no transaction behind
	if cursorW {
		env.O.CursorClose("w", "c")
	}
	if cursorR2 {
		env.O.CursorClose("r2", "c")
	}
	if inTxn {
		do("w", "ROLLBACK")
	}
	// ... and no lock: every read of ours has returned (also the refused
	// ones), every other connection has let go - a writer gets EXCLUSIVE at once
	releaseOwn()
	if rawHeld {
		peer.Call("rawunlock", "")
		rawHeld = false
	}
	if err := do("w", "BEGIN EXCLUSIVE"); err != nil {
		if busy(err) {
			obs, _ := locks.ProbeFd(probeFile)
			r.Violation(t, s, "lock-left-behind", "after %v: all reads have returned and no other connection holds anything, yet a SQLite writer cannot get EXCLUSIVE (%v); locks seen from this process: %s", history, err, obs)
			return
		}
		r.Harness(t, "final begin exclusive: %v", err)
	}
	do("w", "ROLLBACK")
	cls := []string{fmt.Sprintf("ps=%d", s.PageSize), fmt.Sprintf("sync-off=%v", s.SyncOff)}
	for c := range classes {
		cls = append(cls, c)
	}
	r.Case(s, nontrivial, cls...)
}
