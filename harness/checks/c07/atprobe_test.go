package c07

// A writer that holds only RESERVED (synchronous=OFF: its journal carries a
// valid header from the first change on) may finish at any moment - also
// between the reader's look at the journal and the reader's question whether
// the journal's owner is alive. The real file pager is wrapped (verif hook)
// so that the harness runs the writer's ROLLBACK at exactly that point. No
// transaction has crashed and nobody holds PENDING or EXCLUSIVE: the read
// succeeds and shows the last committed state.

import (
	"fmt"
	"testing"

	"github.com/alicebob/sqlittle"
	sdb "github.com/alicebob/sqlittle/db"
	"pgregory.net/rapid"

	"verif/e1"
	"verif/oracle"
	"verif/pagers"
	"verif/sqdb"
	"verif/vt"
)

type atProbeSpec struct {
	PageSize int
	Rows     int
	Warm     bool   // the handle has read before
	Read     string // select, rowid, columns, low-scan
	// End: what the writer does at the probe: "rollback", or "nothing" (it
	// stays in RESERVED: the control)
	End string
}

func TestC07WriterEndsAtProbe(t *testing.T) {
	vt.Exec(t, vt.Check[atProbeSpec]{
		ID: "C07", Test: "TestC07WriterEndsAtProbe",
		Setup: func(r *vt.Run, t *testing.T) {
			var err error
			if env, err = sqdb.NewEnv(); err != nil {
				r.Harness(t, "env: %v", err)
			}
		},
		Teardown: func() { env.Close() },
		Gen: func(t *rapid.T) atProbeSpec {
			return atProbeSpec{
				PageSize: rapid.SampledFrom([]int{512, 1024, 4096}).Draw(t, "ps"),
				Rows:     rapid.SampledFrom([]int{1, 5, 40}).Draw(t, "rows"),
				Warm:     rapid.Bool().Draw(t, "warm"),
				Read:     rapid.SampledFrom([]string{"select", "rowid", "columns", "low-scan"}).Draw(t, "read"),
				End:      rapid.SampledFrom([]string{"rollback", "rollback", "nothing"}).Draw(t, "end"),
			}
		},
		Run: runAtProbe,
	})
}

func runAtProbe(r *vt.Run, t vt.TB, s atProbeSpec) {
	path := env.NewPath()
	defer sqdb.Remove(path)
	init := []oracle.Stmt{
		{SQL: "CREATE TABLE t (a INTEGER PRIMARY KEY, b, c TEXT)"},
		{SQL: fmt.Sprintf("WITH RECURSIVE c(x) AS (SELECT 1 UNION ALL SELECT x+1 FROM c WHERE x < %d) INSERT INTO t (b, c) SELECT x%%5, 'row'||x FROM c", s.Rows)},
	}
	res, err := env.Create("w", path, s.PageSize, 0, init)
	sqdb.MustOK(r, t, "create", res, err, len(init)+2)
	defer env.O.Close("w")
	if _, err := env.O.Query("w", "PRAGMA synchronous=OFF"); err != nil {
		r.Harness(t, "synchronous: %v", err)
	}
	committed, err := env.O.Query("w", "SELECT a, b, c FROM t ORDER BY a")
	if err != nil {
		r.Harness(t, "snapshot: %v", err)
	}

	real, err := sdb.VerifFilePager(path)
	if err != nil {
		r.Harness(t, "file pager: %v", err)
	}
	trace := &pagers.Trace{P: real}
	d, err := sdb.VerifOpen(trace, path+"-journal")
	if err != nil {
		r.Harness(t, "open: %v", err)
	}
	defer d.Close()
	hl := sqlittle.VerifWrap(d)
	if s.Warm {
		if err := hl.Select("t", func(sqlittle.Row) {}, "a", "b", "c"); err != nil {
			r.Harness(t, "warm-up read: %v", err)
		}
	}
	// the writer: RESERVED, journal on disk with a valid header
	res, err = env.O.Script("w", []oracle.Stmt{{SQL: "BEGIN IMMEDIATE"}, {SQL: "INSERT INTO t (b, c) VALUES (77, 'uncommitted')"}}, true)
	sqdb.MustOK(r, t, "open transaction", res, err, 2)
	inTxn := true
	defer func() {
		if inTxn {
			env.O.Exec("w", "ROLLBACK")
		}
	}()
	probes := 0
	var hookErr error
	trace.Hook = func(e pagers.Event, _ int) {
		if e.Kind == "prereserved" {
			probes++
			if s.End == "rollback" && inTxn {
				if err := env.O.Exec("w", "ROLLBACK"); err != nil {
					hookErr = err
				}
				inTxn = false
			}
		}
	}
	var got [][]interface{}
	var gerr error
	switch s.Read {
	case "select":
		gerr = hl.Select("t", func(row sqlittle.Row) { got = append(got, append([]interface{}{}, row...)) }, "a", "b", "c")
	case "rowid":
		var row sqlittle.Row
		row, gerr = hl.SelectRowid("t", 1, "a", "b", "c")
		if row != nil {
			got = append(got, row)
		}
		committed = committed[:1]
	case "columns":
		_, gerr = hl.Columns("t")
		committed = nil
	case "low-scan":
		if gerr = d.RLock(); gerr == nil {
			tab, err := d.Table("t")
			if err != nil {
				gerr = err
			} else {
				gerr = tab.Scan(func(rowid int64, rec sdb.Record) bool {
					got = append(got, []interface{}{rowid, rec[1], rec[2]})
					return false
				})
			}
			d.RUnlock()
		}
	}
	trace.Hook = nil
	if hookErr != nil {
		r.Harness(t, "rollback inside the probe hook: %v", hookErr)
	}
	r.Case(s, probes > 0, "at-probe:writer-"+s.End, fmt.Sprintf("at-probe:reserved-probed=%v", probes > 0))
	if probes == 0 {
		// the journal was not taken for a live writer's: nothing to judge here
		return
	}
	what := fmt.Sprintf("%s on a handle (warm=%v) while a synchronous=OFF writer holds RESERVED with its journal on disk; at the reader's probe of the reserved byte the writer does: %s", s.Read, s.Warm, s.End)
	if gerr != nil {
		r.Violation(t, s, "read-fails-at-writer-end", "%s - the read fails: %v; no transaction has crashed and nobody holds PENDING or EXCLUSIVE", what, gerr)
		return
	}
	if len(got) != len(committed) {
		r.Violation(t, s, "uncommitted-or-stale-rows", "%s - %d rows, the last committed state has %d", what, len(got), len(committed))
		return
	}
	for i := range committed {
		if !e1.SameRow(got[i], committed[i]) {
			r.Violation(t, s, "uncommitted-or-stale-rows", "%s - row %d is %s, committed %s", what, i, e1.ShowGot(got[i]), committed[i])
			return
		}
	}
}
