// C19 — the database/sql driver returns the native API's rows and cleans up.
package c19

import (
	"context"
	"database/sql"
	"fmt"
	"os"
	"path/filepath"
	"runtime"
	"strings"
	"sync"
	"testing"
	"time"
	"verif/fold"

	"github.com/alicebob/sqlittle"
	_ "github.com/alicebob/sqlittle/driver"
	"pgregory.net/rapid"

	"verif/e1"
	"verif/locks"
	"verif/sqdb"
	"verif/val"
	"verif/vt"
)

var (
	env   *sqdb.Env
	probe *locks.Client
)

func setup(r *vt.Run, t *testing.T) {
	var err error
	if env, err = sqdb.NewEnv(); err != nil {
		r.Harness(t, "env: %v", err)
	}
	if probe, err = locks.StartClient(); err != nil {
		r.Harness(t, "lockprobe: %v", err)
	}
}

func teardown() {
	probe.Stop()
	env.Close()
}

type spec struct {
	DB      e1.Spec
	Pick    []int  // column picks; empty = "*"
	Star    int    // position at which a "*" is inserted (-1: none)
	Bad     string // "", "table", "column", "not-select", "syntax"
	Plan    string // all, close, cancel, cancel-async, corrupt, truncate, prepared, prepared-alter
	K       int    // rows consumed before close / cancel
	Yields  int    // scheduler yields before the asynchronous cancel
	Corrupt int    // which page (mod page count) is overwritten with 0xFF for the "corrupt" plan
	// ForeignCtx: the query's context is not one of package context's own
	// types (context.WithCancel then needs a goroutine to watch it, which
	// lives until the derived context is cancelled)
	ForeignCtx bool `json:",omitempty"`
	// ViaLink: database/sql gets the file under a name that leads through a
	// symbolic link to a directory and "..": the kernel resolves the link
	// first, so <dir>/lnk/../x is <dir>/nest/x (lnk -> nest/deep), not <dir>/x
	ViaLink bool `json:",omitempty"`
}

// foreignCtx is a context.Context implemented outside package context.
type foreignCtx struct {
	done chan struct{}
	once sync.Once
}

func newForeignCtx() *foreignCtx                    { return &foreignCtx{done: make(chan struct{})} }
func (c *foreignCtx) Deadline() (time.Time, bool)   { return time.Time{}, false }
func (c *foreignCtx) Done() <-chan struct{}         { return c.done }
func (c *foreignCtx) Value(interface{}) interface{} { return nil }
func (c *foreignCtx) cancel()                       { c.once.Do(func() { close(c.done) }) }
func (c *foreignCtx) Err() error {
	select {
	case <-c.done:
		return context.Canceled
	default:
		return nil
	}
}

// watcherGoroutines counts the goroutines package context runs to watch a
// foreign parent context.
func watcherGoroutines() int {
	buf := make([]byte, 1<<20)
	n := runtime.Stack(buf, true)
	return strings.Count(string(buf[:n]), "context.(*cancelCtx).propagateCancel.func")
}

func TestC19Driver(t *testing.T) {
	vt.Exec(t, vt.Check[spec]{
		ID: "C19", Test: "TestC19Driver",
		Setup: setup, Teardown: teardown,
		Gen: func(t *rapid.T) spec {
			s := spec{DB: e1.Gen(t, e1.Opts{MaxTables: 1, Conservative: true, BigRows: 400, PageSizes: []int{512, 1024, 4096}})}
			n := rapid.IntRange(0, 4).Draw(t, "npick")
			for i := 0; i < n; i++ {
				s.Pick = append(s.Pick, rapid.IntRange(0, 20).Draw(t, "pick"))
			}
			s.Star = rapid.SampledFrom([]int{-1, -1, 0, 1, 2}).Draw(t, "star")
			s.Bad = rapid.SampledFrom([]string{"", "", "", "", "table", "column", "not-select", "syntax", "compound"}).Draw(t, "bad")
			s.Plan = rapid.SampledFrom([]string{"all", "all", "close", "cancel", "cancel-async", "corrupt", "truncate", "prepared", "prepared-alter", "nested", "prepared-wal", "busy-first"}).Draw(t, "plan")
			s.K = rapid.IntRange(0, 12).Draw(t, "k")
			s.Yields = rapid.IntRange(0, 50).Draw(t, "yields")
			s.Corrupt = rapid.IntRange(0, 1000).Draw(t, "corrupt")
			s.ForeignCtx = rapid.IntRange(0, 2).Draw(t, "foreignctx") == 0
			s.ViaLink = rapid.IntRange(0, 3).Draw(t, "vialink") == 0
			return s
		},
		Run: run,
	})
}

// what follows a complete SELECT in the "compound" kind of bad query
var compoundTails = []string{"; DELETE FROM t", "; DROP TABLE t", ";garbage", "; SELECT 1", ";LIMIT 1", " ; CREATE TABLE x (a)"}

// starItem stands for the wildcard in the list of select items (a column may
// be called "*" itself).
const starItem = "\x00*"

// bareName: the name can stand in SQL text without quotes - a letter, an
// underscore or any byte above 0x7f first, then those and digits - and is no
// word of SQL (only a few plain names are let through unquoted).
func bareName(c string) bool {
	if c == "" {
		return false
	}
	ascii := true
	for i := 0; i < len(c); i++ {
		b := c[i]
		switch {
		case b >= 0x80:
			ascii = false
		case b == '_' || b >= 'a' && b <= 'z' || b >= 'A' && b <= 'Z':
		case b >= '0' && b <= '9' && i > 0:
		default:
			return false
		}
	}
	if ascii {
		// (ASCII words may be keywords of SQLite or of the driver's grammar)
		switch c {
		case "a", "b", "c", "d", "e", "f", "g", "x1", "y_2", "data", "Ab", "fail", "ignore", "abort", "rollback", "z", "Z_z":
			return true
		}
		return false
	}
	return true
}

func producerGoroutines() int {
	buf := make([]byte, 1<<20)
	n := runtime.Stack(buf, true)
	return strings.Count(string(buf[:n]), "sqlittle/driver.(*Statement).QueryContext.func1")
}

func renderAny(vs []interface{}) string {
	var row val.Row
	for _, x := range vs {
		v, ok := val.FromGo(x)
		if !ok {
			return fmt.Sprintf("%#v", vs)
		}
		row = append(row, v)
	}
	return row.String()
}

func run(r *vt.Run, t vt.TB, s spec) {
	path := env.NewPath()
	dsn := path
	if s.ViaLink {
		nest := filepath.Join(env.Dir, "nest")
		if err := os.MkdirAll(filepath.Join(nest, "deep"), 0o755); err != nil {
			r.Harness(t, "mkdir: %v", err)
		}
		lnk := filepath.Join(env.Dir, "lnk")
		if _, err := os.Lstat(lnk); err != nil {
			if err := os.Symlink(filepath.Join(nest, "deep"), lnk); err != nil {
				r.Harness(t, "symlink: %v", err)
			}
		}
		base := filepath.Base(path)
		path = filepath.Join(nest, base)
		dsn = env.Dir + "/lnk/../" + base // (not joined: Join would resolve the ".." on paper)
		r.Count("database-sql-name-through-a-linked-directory", 1)
	}
	defer sqdb.Remove(path)
	created, _ := e1.Build(r, t, env, s.DB, path)
	if !created[0] {
		r.Exclude("sqlite-rejects-create-table")
		return
	}
	name := s.DB.Tables[0].Def.Ident.Name
	nat, err := sqlittle.Open(path)
	if err != nil {
		r.Harness(t, "open: %v", err)
	}
	allCols, err := nat.Columns(name)
	if err != nil {
		nat.Close()
		r.Exclude("table-definition-rejected")
		return
	}
	// the query
	var sel, expanded, items []string // items: the select list with "*" unexpanded
	pool := append(append([]string{}, allCols...), "rowid", "oid")
	if s.DB.Tables[0].Def.WithoutRowid {
		pool = allCols
	}
	nq := 0
	quote := func(c string) string {
		switch fold.Lower(c) {
		case "rowid", "oid":
			return c
		}
		nq++
		switch fold.Lower(c) {
		case "fail", "ignore", "abort", "rollback":
			// words of the ON CONFLICT clause: ordinary names in a select list
			return c
		}
		if (s.Corrupt+nq)%3 == 0 && bareName(c) {
			// written without quotes where SQLite takes the name as it is
			return c
		}
		return `"` + strings.ReplaceAll(c, `"`, `""`) + `"`
	}
	picks := append([]int{}, s.Pick...)
	for i, c := range allCols {
		if c == "*" && s.Star >= 0 && s.K%2 == 0 {
			// the wildcard, then the column that is itself called `*`
			for len(picks) <= s.Star {
				picks = append(picks, s.K+len(picks))
			}
			picks[s.Star] = i
			r.Count("select:wildcard-before-a-column-called-star", 1)
			break
		}
	}
	for i, c := range allCols {
		switch fold.Lower(c) {
		case "fail", "ignore", "abort", "rollback":
			picks = append(picks, i)
			r.Count("select:conflict-word-as-a-bare-column-name", 1)
		}
	}
	for i, p := range picks {
		if i == s.Star {
			sel = append(sel, "*")
			items = append(items, starItem)
			expanded = append(expanded, allCols...)
		}
		c := pool[p%len(pool)]
		sel = append(sel, quote(c))
		items = append(items, c)
		expanded = append(expanded, c)
	}
	if len(sel) == 0 || s.Star >= len(picks) {
		sel = append(sel, "*")
		items = append(items, starItem)
		expanded = append(expanded, allCols...)
	}
	// (always quoted: a table may be called rowid, which is a word of the driver's own grammar)
	tableSQL := `"` + strings.ReplaceAll(name, `"`, `""`) + `"`
	query := "SELECT " + strings.Join(sel, ", ") + " FROM " + tableSQL
	nativeTable := name
	switch s.Bad {
	case "table":
		query = "SELECT * FROM nosuchtable"
		nativeTable = "nosuchtable"
	case "column":
		unknown := "nosuchcolumn"
		if s.DB.Tables[0].Def.WithoutRowid && s.K%2 == 0 {
			// a WITHOUT ROWID table has no rowid: its names are unknown columns
			// there (unless a column is really called so)
			alias := []string{"rowid", "OID", "_rowid_", "RowId"}[s.K/2%4]
			real := false
			for _, c := range allCols {
				if fold.Equal(c, alias) {
					real = true
				}
			}
			if !real {
				unknown = alias
				r.Count("bad:column:rowid-name-on-without-rowid-table", 1)
			}
		}
		query = "SELECT " + unknown + ", " + strings.Join(sel, ", ") + " FROM " + tableSQL
		expanded = append([]string{unknown}, expanded...)
		items = append([]string{unknown}, items...)
	case "not-select":
		query = "CREATE TABLE x (a)"
	case "syntax":
		query = "SELECT FROM " + tableSQL
	case "compound":
		// more than the one SELECT: a second statement, or anything else,
		// behind a semicolon
		query += compoundTails[s.K%len(compoundTails)]
	}
	var beforeTruncation [][]interface{} // the table as it was while the file was whole
	if s.Plan == "truncate" && s.Bad == "" {
		nat.Select(nativeTable, func(row sqlittle.Row) { beforeTruncation = append(beforeTruncation, append([]interface{}{}, row...)) }, expanded...)
	}
	if s.Plan == "truncate" {
		// the file loses its tail: pages the scan reaches later cannot be read
		st, _ := os.Stat(path)
		pages := int(st.Size()) / s.DB.PageSize
		if pages < 3 {
			nat.Close()
			r.Exclude("too-few-pages-to-truncate")
			return
		}
		keep := 2 + s.Corrupt%(pages-2)
		if err := os.Truncate(path, int64(keep)*int64(s.DB.PageSize)); err != nil {
			r.Harness(t, "truncate: %v", err)
		}
		nat.Close()
		if nat, err = sqlittle.Open(path); err != nil {
			r.Harness(t, "reopen: %v", err)
		}
	}
	if s.Plan == "corrupt" {
		// overwrite one page (never the first) with 0xFF: corruption met during the scan
		st, _ := os.Stat(path)
		pages := int(st.Size()) / s.DB.PageSize
		if pages < 2 {
			nat.Close()
			r.Exclude("single-page-database")
			return
		}
		pg := 1 + s.Corrupt%(pages-1)
		f, err := os.OpenFile(path, os.O_WRONLY, 0)
		if err != nil {
			r.Harness(t, "corrupt: %v", err)
		}
		ff := make([]byte, s.DB.PageSize)
		for i := range ff {
			ff[i] = 0xff
		}
		f.WriteAt(ff, int64(pg)*int64(s.DB.PageSize))
		f.Close()
		nat.Close()
		if nat, err = sqlittle.Open(path); err != nil {
			r.Harness(t, "reopen: %v", err)
		}
	}
	// native result
	var want [][]interface{}
	var wantErr error
	if s.Bad == "not-select" || s.Bad == "syntax" || s.Bad == "compound" {
		wantErr = fmt.Errorf("not a select")
	} else {
		wantErr = nat.Select(nativeTable, func(row sqlittle.Row) { want = append(want, append([]interface{}{}, row...)) }, expanded...)
	}
	nat.Close()
	if s.Bad == "column" && wantErr == nil {
		// (the table has no such column, whatever the native API makes of the
		// name: the query has to fail)
		wantErr = fmt.Errorf("no such column %q in the table (columns %q)", expanded[0], allCols)
	}
	r.Case(s, s.Plan != "all" || s.Bad != "" || len(want) > 0, "plan:"+s.Plan, "bad:"+s.Bad, fmt.Sprintf("star=%v", s.Star >= 0 || len(s.Pick) == 0), fmt.Sprintf("rows<=%d", bucket(len(want))))

	before := producerGoroutines()
	db, err := sql.Open("sqlittle", dsn)
	if err != nil {
		r.Harness(t, "sql.Open: %v", err)
	}
	defer db.Close()
	if s.Plan == "prepared" || s.Plan == "prepared-alter" {
		// the statement's result on the file as it is now (after a schema change)
		renative := func() (exp []string, want [][]interface{}, wantErr error, ok bool) {
			nat, err := sqlittle.Open(path)
			if err != nil {
				r.Harness(t, "reopen: %v", err)
			}
			defer nat.Close()
			if s.Bad == "not-select" || s.Bad == "syntax" || s.Bad == "compound" {
				return nil, nil, fmt.Errorf("not a select"), true
			}
			cols, err := nat.Columns(name)
			if err != nil {
				return nil, nil, nil, false
			}
			for _, it := range items {
				if it == starItem {
					exp = append(exp, cols...)
				} else {
					exp = append(exp, it)
				}
			}
			wantErr = nat.Select(nativeTable, func(row sqlittle.Row) { want = append(want, append([]interface{}{}, row...)) }, exp...)
			return exp, want, wantErr, true
		}
		var alter string
		if s.Plan == "prepared-alter" {
			c := quote(allCols[(s.Corrupt/3)%len(allCols)])
			switch s.Corrupt % 3 {
			case 0:
				alter = "ALTER TABLE " + tableSQL + " ADD COLUMN zz_added DEFAULT 7"
			case 1:
				alter = "ALTER TABLE " + tableSQL + " RENAME COLUMN " + c + " TO zz_renamed"
			case 2:
				alter = "ALTER TABLE " + tableSQL + " DROP COLUMN " + c
			}
		}
		runPrepared(r, t, s, db, path, query, expanded, want, wantErr, before, alter, renative)
		return
	}
	if s.Plan == "nested" {
		runNested(r, t, s, db, path, query, want, wantErr, before)
		return
	}
	if s.Plan == "prepared-wal" {
		runPreparedWAL(r, t, s, db, path, query, want, wantErr, before)
		return
	}
	if s.Plan == "busy-first" {
		// the first query meets a SQLite writer that holds EXCLUSIVE: it is
		// refused (through Query, Scan or rows.Err). The writer leaves; the
		// query below then runs as if nothing had happened - and gives its
		// lock back at the end, too.
		if err := env.O.Open("wx", path); err != nil {
			r.Harness(t, "open wx: %v", err)
		}
		if err := env.O.Exec("wx", "BEGIN EXCLUSIVE"); err != nil {
			env.O.Close("wx")
			r.Harness(t, "begin exclusive: %v", err)
		}
		n := 0
		rows, err := db.Query(query)
		if err == nil {
			for rows.Next() {
				n++
			}
			err = rows.Err()
			rows.Close()
		}
		rerr := env.O.Exec("wx", "ROLLBACK")
		env.O.Close("wx")
		if rerr != nil {
			r.Harness(t, "rollback: %v", rerr)
		}
		if s.Bad == "" && (err == nil || n > 0) {
			r.Violation(t, s, "read-under-exclusive-writer", "%s while a SQLite connection holds EXCLUSIVE: %d rows, error %v", query, n, err)
			return
		}
		r.Count("queries-refused-under-an-exclusive-writer", 1)
	}
	ctx, cancel := context.WithCancel(context.Background())
	defer cancel()
	watchersBefore := watcherGoroutines()
	if s.ForeignCtx {
		fc := newForeignCtx()
		ctx, cancel = fc, fc.cancel
		defer cancel()
	}
	rows, qerr := db.QueryContext(ctx, query)
	var got [][]interface{}
	var surfaced error = qerr
	consumed := 0
	stoppedEarly := false
	if qerr == nil {
		cols, cerr := rows.Columns()
		if cerr != nil {
			surfaced = cerr
		} else if s.Bad == "" && !fold.Equal(strings.Join(cols, "\x00"), strings.Join(expanded, "\x00")) {
			rows.Close()
			r.Violation(t, s, "columns-differ", "%s: database/sql reports columns %q, the native column list is %q", query, cols, expanded)
			return
		}
		asyncDone := make(chan struct{})
		// K = 0: the result set is closed / cancelled before its first row
		// was asked for (the producer may not even have started)
		switch {
		case s.K == 0 && s.Plan == "close":
			stoppedEarly = true
		case s.K == 0 && s.Plan == "cancel":
			cancel()
			stoppedEarly = true
		case s.K == 0 && s.Plan == "cancel-async":
			go func() {
				for i := 0; i < s.Yields; i++ {
					runtime.Gosched()
				}
				cancel()
				close(asyncDone)
			}()
		}
		for !stoppedEarly && rows.Next() {
			dest := make([]interface{}, len(cols))
			ptrs := make([]interface{}, len(cols))
			// where the native row has a BLOB or a NULL the value is scanned
			// into a *[]byte: database/sql's way to tell the two apart is a
			// nil slice for NULL, so an empty BLOB must not come out nil
			var blobs []*[]byte
			var blobAt []int
			for i := range dest {
				ptrs[i] = &dest[i]
				if consumed < len(want) && i < len(want[consumed]) && len(want[consumed]) == len(cols) {
					_, isBlob := want[consumed][i].([]byte)
					if isBlob || want[consumed][i] == nil {
						b := new([]byte)
						ptrs[i] = b
						blobs, blobAt = append(blobs, b), append(blobAt, i)
					}
				}
			}
			if err := rows.Scan(ptrs...); err != nil {
				surfaced = err
				break
			}
			for k, b := range blobs {
				i := blobAt[k]
				if *b != nil {
					dest[i] = *b
				}
				if wb, isBlob := want[consumed][i].([]byte); isBlob && *b == nil {
					rows.Close()
					r.Violation(t, s, "blob-scans-as-null", "%s: row %d column %s is a BLOB of %d bytes natively; scanned into a *[]byte through database/sql it is nil, which is how NULL is reported", query, consumed, cols[i], len(wb))
					return
				} else if isBlob && len(wb) == 0 {
					r.Count("empty-blob-scanned-into-byte-slice", 1)
				}
				if want[consumed][i] == nil && *b != nil {
					rows.Close()
					r.Violation(t, s, "null-scans-as-blob", "%s: row %d column %s is NULL natively; scanned into a *[]byte through database/sql it is %q", query, consumed, cols[i], *b)
					return
				}
			}
			got = append(got, dest)
			consumed++
			if consumed == s.K {
				switch s.Plan {
				case "close":
					stoppedEarly = true
				case "cancel":
					cancel()
					stoppedEarly = true
				case "cancel-async":
					go func() {
						for i := 0; i < s.Yields; i++ {
							runtime.Gosched()
						}
						cancel()
						close(asyncDone)
					}()
				}
				if stoppedEarly {
					break
				}
			}
		}
		if err := rows.Err(); err != nil && surfaced == nil {
			surfaced = err
		}
		closeDone := make(chan error, 1)
		go func() { closeDone <- rows.Close() }()
		select {
		case <-closeDone:
		case <-time.After(20 * time.Second):
			r.Violation(t, s, "close-hangs", "%s: rows.Close did not return within 20 s (plan %s after %d rows)", query, s.Plan, consumed)
			return
		}
		if s.Plan == "cancel-async" && consumed >= s.K {
			select {
			case <-asyncDone:
			case <-time.After(5 * time.Second):
			}
		}
	}
	cancelled := s.Plan == "cancel" || s.Plan == "cancel-async"
	// ---- rows
	if len(got) > len(want) {
		r.Violation(t, s, "extra-rows", "%s: database/sql delivered %d rows, the native select %d", query, len(got), len(want))
		return
	}
	for i := range got {
		if renderAny(got[i]) != renderAny(want[i]) {
			r.Violation(t, s, "row-differs", "%s: row %d through database/sql is %s, natively %s", query, i, renderAny(got[i]), renderAny(want[i]))
			return
		}
	}
	// a file that lost its tail: what is missing cannot be read, so every
	// row that is delivered is a row the whole file had, unchanged (judged
	// against the file before it was cut, not against the native API on the
	// damaged file)
	if s.Plan == "truncate" && beforeTruncation != nil {
		for i := range got {
			if i >= len(beforeTruncation) || renderAny(got[i]) != renderAny(beforeTruncation[i]) {
				r.Violation(t, s, "truncated-file-row-differs", "%s on a file cut short: row %d through database/sql is %.200s; the whole file had %.200s there", query, i, renderAny(got[i]), func() string {
					if i < len(beforeTruncation) {
						return renderAny(beforeTruncation[i])
					}
					return "no such row"
				}())
				return
			}
		}
		if len(got) < len(beforeTruncation) && surfaced == nil && !stoppedEarly {
			r.Violation(t, s, "silently-short", "%s on a file cut short: %d of the %d rows the whole file had, and no error", query, len(got), len(beforeTruncation))
			return
		}
		r.Count("truncated-files-judged-against-the-whole-file", 1)
	}
	// ---- errors surface; a short result is never silent
	if wantErr != nil && surfaced == nil && !stoppedEarly {
		r.Violation(t, s, "error-not-surfaced", "%s: the native API fails (%v) after %d rows; database/sql delivered %d rows and no error through Query, Scan or rows.Err", query, wantErr, len(want), len(got))
		return
	}
	if len(got) < len(want) && surfaced == nil && !stoppedEarly && !(cancelled && consumed >= s.K) {
		r.Violation(t, s, "silently-short", "%s: database/sql delivered %d of %d rows without any error", query, len(got), len(want))
		return
	}
	if wantErr == nil && surfaced != nil && !cancelled {
		r.Violation(t, s, "spurious-error", "%s: database/sql reports %v, the native select succeeds with %d rows", query, surfaced, len(want))
		return
	}
	// ---- clean up: producer gone, lock released
	if s.ForeignCtx && !cancelled {
		// the query is over (failed, or its result set closed) while its
		// context is still alive: nothing may be left watching that context
		deadline := time.Now().Add(2 * time.Second)
		for watcherGoroutines() > watchersBefore {
			if time.Now().After(deadline) {
				r.Violation(t, s, "context-watcher-leak", "%s (query error: %v, plan %s): the query is over and its context not cancelled; %d goroutine(s) that watch this context for a derived one (context.WithCancel) are still running", query, qerr, s.Plan, watcherGoroutines()-watchersBefore)
				return
			}
			time.Sleep(2 * time.Millisecond)
		}
		r.Count("foreign-context-queries", 1)
		if qerr != nil {
			r.Count("foreign-context-failed-queries", 1)
		}
	}
	if !cancelled && qerr == nil {
		// rows.Close was called by us and has returned: the read is over now,
		// not some time later (the connection is back in the pool and the
		// next query may get it)
		st, err := probe.Probe(path)
		if err != nil {
			r.Harness(t, "probe: %v", err)
		}
		// (the producer goroutine itself may take a moment more to exit)
		if st.Shared.Type != "none" && st.Shared.Pid == os.Getpid() {
			r.Violation(t, s, "close-returns-early", "%s (plan %s after %d rows): rows.Close has returned, yet the read is still going on: this process holds %s", query, s.Plan, consumed, st)
			return
		}
		r.Count("close-checked-at-once", 1)
	}
	deadline := time.Now().Add(5 * time.Second)
	for producerGoroutines() > before {
		if time.Now().After(deadline) {
			r.Violation(t, s, "goroutine-leak", "%s (plan %s after %d rows): the driver's producer goroutine is still running 5 s after rows.Close", query, s.Plan, consumed)
			return
		}
		time.Sleep(5 * time.Millisecond)
	}
	st, err := probe.Probe(path)
	if err != nil {
		r.Harness(t, "probe: %v", err)
	}
	me := os.Getpid()
	if (st.Shared.Type != "none" && st.Shared.Pid == me) || (st.Pending.Type != "none" && st.Pending.Pid == me) {
		r.Violation(t, s, "lock-left-behind", "%s (plan %s after %d rows): this process still holds %s after rows.Close", query, s.Plan, consumed, st)
		return
	}
}

// runPrepared: a prepared statement outlives its result sets: close the first
// one after K rows (the lock must be gone while the statement stays open),
// then run the statement again completely.
//
// With alter != "" a writer changes the table definition between the two
// executions: the second one must follow the new definition, like the native
// select on the changed file does.
func runPrepared(r *vt.Run, t vt.TB, s spec, db *sql.DB, path, query string, expanded []string, want [][]interface{}, wantErr error, before int, alter string, renative func() ([]string, [][]interface{}, error, bool)) {
	stmt, err := db.Prepare(query)
	if err != nil {
		if wantErr == nil {
			r.Violation(t, s, "spurious-error", "%s: Prepare fails: %v", query, err)
		}
		return
	}
	defer stmt.Close()
	me := os.Getpid()
	for round := 0; round < 2; round++ {
		if round == 1 && alter != "" {
			if err := env.O.Open("alter", path); err != nil {
				r.Harness(t, "alter: open: %v", err)
			}
			aerr := env.O.Exec("alter", alter)
			env.O.Close("alter")
			if aerr != nil {
				r.Count("alter:rejected-by-sqlite", 1)
			} else {
				var ok bool
				if expanded, want, wantErr, ok = renative(); !ok {
					r.Count("alter:definition-rejected", 1)
					return
				}
				r.Count(fmt.Sprintf("alter:applied:%d", s.Corrupt%3), 1)
			}
		}
		rows, err := stmt.Query()
		var got [][]interface{}
		surfaced := err
		if err == nil {
			cols, _ := rows.Columns()
			if s.Bad == "" && wantErr == nil && !fold.Equal(strings.Join(cols, "\x00"), strings.Join(expanded, "\x00")) {
				rows.Close()
				r.Violation(t, s, "columns-differ", "%s (prepared statement, round %d, after %q): database/sql reports columns %q, the native column list is %q", query, round, alter, cols, expanded)
				return
			}
			for rows.Next() {
				dest := make([]interface{}, len(cols))
				ptrs := make([]interface{}, len(cols))
				for i := range dest {
					ptrs[i] = &dest[i]
				}
				if err := rows.Scan(ptrs...); err != nil {
					surfaced = err
					break
				}
				got = append(got, dest)
				if round == 0 && len(got) == s.K {
					break
				}
			}
			if err := rows.Err(); err != nil && surfaced == nil {
				surfaced = err
			}
			rows.Close()
		}
		// the result set is closed, the statement (and its handle) is not: no lock may remain
		st, perr := probe.Probe(path)
		if perr != nil {
			r.Harness(t, "probe: %v", perr)
		}
		if (st.Shared.Type != "none" && st.Shared.Pid == me) || (st.Pending.Type != "none" && st.Pending.Pid == me) {
			r.Violation(t, s, "lock-left-behind", "%s (prepared statement, round %d, %d rows read): rows.Close returned, this process still holds %s", query, round, len(got), st)
			return
		}
		// (the producer signals Close just before it returns: give it a moment to be gone)
		deadline := time.Now().Add(5 * time.Second)
		for producerGoroutines() > before {
			if time.Now().After(deadline) {
				r.Violation(t, s, "goroutine-leak", "%s (prepared statement, round %d): a producer goroutine is still running 5 s after rows.Close returned", query, round)
				return
			}
			time.Sleep(2 * time.Millisecond)
		}
		for i := range got {
			if i >= len(want) || renderAny(got[i]) != renderAny(want[i]) {
				r.Violation(t, s, "row-differs", "%s (prepared statement, round %d): row %d is %s, natively %v", query, round, i, renderAny(got[i]), i < len(want))
				return
			}
		}
		stopped := round == 0 && s.K > 0 && len(got) == s.K
		if wantErr != nil && surfaced == nil && !stopped {
			r.Violation(t, s, "error-not-surfaced", "%s (prepared statement, round %d): the native API fails (%v), database/sql reports nothing after %d rows", query, round, wantErr, len(got))
			return
		}
		if wantErr == nil && surfaced != nil {
			r.Violation(t, s, "spurious-error", "%s (prepared statement, round %d): %v", query, round, surfaced)
			return
		}
		if wantErr == nil && !stopped && len(got) != len(want) {
			r.Violation(t, s, "silently-short", "%s (prepared statement, round %d): %d of %d rows", query, round, len(got), len(want))
			return
		}
	}
}

// runNested: two result sets of one connection (a transaction or a sql.Conn)
// open at the same time, as in `for outer.Next() { tx.Query(inner) }`: after K
// rows of the first, the same query runs completely on the same connection,
// then the first is read to its end. Both must deliver the native rows.
func runNested(r *vt.Run, t vt.TB, s spec, db *sql.DB, path, query string, want [][]interface{}, wantErr error, before int) {
	ctx := context.Background()
	type querier interface {
		QueryContext(ctx context.Context, query string, args ...interface{}) (*sql.Rows, error)
	}
	var q querier
	kind := "tx"
	if s.Corrupt%2 == 0 {
		tx, err := db.Begin()
		if err != nil {
			r.Harness(t, "begin: %v", err)
		}
		defer tx.Rollback()
		q = tx
	} else {
		kind = "conn"
		c, err := db.Conn(ctx)
		if err != nil {
			r.Harness(t, "conn: %v", err)
		}
		defer c.Close()
		q = c
	}
	readAll := func(rows *sql.Rows, stopAfter int) (got [][]interface{}, surfaced error) {
		cols, _ := rows.Columns()
		for (stopAfter < 0 || len(got) < stopAfter) && rows.Next() {
			dest := make([]interface{}, len(cols))
			ptrs := make([]interface{}, len(cols))
			for i := range dest {
				ptrs[i] = &dest[i]
			}
			if err := rows.Scan(ptrs...); err != nil {
				return got, err
			}
			got = append(got, dest)
		}
		if stopAfter < 0 || len(got) < stopAfter {
			surfaced = rows.Err()
		}
		return got, surfaced
	}
	judge := func(which string, got [][]interface{}, surfaced error) bool {
		for i := range got {
			if i >= len(want) || renderAny(got[i]) != renderAny(want[i]) {
				r.Violation(t, s, "row-differs", "%s (two result sets on one %s, %s): row %d is %s, natively present: %v", query, kind, which, i, renderAny(got[i]), i < len(want))
				return false
			}
		}
		if wantErr != nil && surfaced == nil {
			r.Violation(t, s, "error-not-surfaced", "%s (two result sets on one %s, %s): the native API fails (%v), database/sql reports nothing after %d rows", query, kind, which, wantErr, len(got))
			return false
		}
		if wantErr == nil && surfaced != nil {
			r.Violation(t, s, "spurious-error", "%s (two result sets on one %s, %s, the first one read up to row %d): %v; the native select succeeds with %d rows", query, kind, which, s.K, surfaced, len(want))
			return false
		}
		if wantErr == nil && len(got) != len(want) {
			r.Violation(t, s, "silently-short", "%s (two result sets on one %s, %s): %d of %d rows", query, kind, which, len(got), len(want))
			return false
		}
		return true
	}
	outer, err := q.QueryContext(ctx, query)
	if err != nil {
		if wantErr == nil {
			r.Violation(t, s, "spurious-error", "%s (on a %s): %v", query, kind, err)
		}
		return
	}
	head, herr := readAll(outer, s.K)
	inner, err := q.QueryContext(ctx, query)
	var igot [][]interface{}
	isurf := err
	if err == nil {
		igot, isurf = readAll(inner, -1)
		inner.Close()
	}
	var tail [][]interface{}
	osurf := herr
	if herr == nil {
		tail, osurf = readAll(outer, -1)
	}
	outer.Close()
	if !judge("second result set", igot, isurf) {
		return
	}
	if !judge("first result set", append(head, tail...), osurf) {
		return
	}
	deadline := time.Now().Add(5 * time.Second)
	for producerGoroutines() > before {
		if time.Now().After(deadline) {
			r.Violation(t, s, "goroutine-leak", "%s (two result sets on one %s): a producer goroutine is still running 5 s after both were closed", query, kind)
			return
		}
		time.Sleep(2 * time.Millisecond)
	}
	st, perr := probe.Probe(path)
	if perr != nil {
		r.Harness(t, "probe: %v", perr)
	}
	me := os.Getpid()
	if (st.Shared.Type != "none" && st.Shared.Pid == me) || (st.Pending.Type != "none" && st.Pending.Pid == me) {
		r.Violation(t, s, "lock-left-behind", "%s (two result sets on one %s): both closed, this process still holds %s", query, kind, st)
	}
}

// runPreparedWAL: a prepared statement lives through a time in which the file
// cannot be read: SQLite switches it to WAL mode, the statement's execution
// has to fail (and leave no lock behind: SQLite must be able to switch back),
// and after the switch back it delivers the native rows again.
func runPreparedWAL(r *vt.Run, t vt.TB, s spec, db *sql.DB, path, query string, want [][]interface{}, wantErr error, before int) {
	stmt, err := db.Prepare(query)
	if err != nil {
		if wantErr == nil {
			r.Violation(t, s, "spurious-error", "%s: Prepare fails: %v", query, err)
		}
		return
	}
	defer stmt.Close()
	me := os.Getpid()
	exec := func() (got [][]interface{}, surfaced error) {
		rows, err := stmt.Query()
		if err != nil {
			return nil, err
		}
		defer rows.Close()
		cols, _ := rows.Columns()
		for rows.Next() {
			dest := make([]interface{}, len(cols))
			ptrs := make([]interface{}, len(cols))
			for i := range dest {
				ptrs[i] = &dest[i]
			}
			if err := rows.Scan(ptrs...); err != nil {
				return got, err
			}
			got = append(got, dest)
		}
		return got, rows.Err()
	}
	judge := func(when string, got [][]interface{}, surfaced error) bool {
		if wantErr != nil {
			if surfaced == nil {
				r.Violation(t, s, "error-not-surfaced", "%s (prepared statement, %s): the native API fails (%v), database/sql reports nothing after %d rows", query, when, wantErr, len(got))
				return false
			}
			return true
		}
		if surfaced != nil {
			r.Violation(t, s, "spurious-error", "%s (prepared statement, %s): %v; the native select succeeds with %d rows", query, when, surfaced, len(want))
			return false
		}
		if len(got) != len(want) {
			r.Violation(t, s, "silently-short", "%s (prepared statement, %s): %d of %d rows", query, when, len(got), len(want))
			return false
		}
		for i := range got {
			if renderAny(got[i]) != renderAny(want[i]) {
				r.Violation(t, s, "row-differs", "%s (prepared statement, %s): row %d is %s, natively %s", query, when, i, renderAny(got[i]), renderAny(want[i]))
				return false
			}
		}
		return true
	}
	noLock := func(when string) bool {
		deadline := time.Now().Add(5 * time.Second)
		for producerGoroutines() > before {
			if time.Now().After(deadline) {
				r.Violation(t, s, "goroutine-leak", "%s (prepared statement, %s): a producer goroutine is still running 5 s after the result set was closed", query, when)
				return false
			}
			time.Sleep(2 * time.Millisecond)
		}
		st, perr := probe.Probe(path)
		if perr != nil {
			r.Harness(t, "probe: %v", perr)
		}
		if (st.Shared.Type != "none" && st.Shared.Pid == me) || (st.Pending.Type != "none" && st.Pending.Pid == me) {
			r.Violation(t, s, "lock-left-behind", "%s (prepared statement, %s): the result set is closed, this process still holds %s", query, when, st)
			return false
		}
		return true
	}
	got, surfaced := exec()
	if !judge("first execution", got, surfaced) || !noLock("first execution") {
		return
	}
	if err := env.O.Open("wal", path); err != nil {
		r.Harness(t, "wal: open: %v", err)
	}
	defer env.O.Close("wal")
	if rows, err := env.O.Query("wal", "PRAGMA journal_mode=WAL"); err != nil || len(rows) != 1 || string(rows[0][0].B) != "wal" {
		r.Harness(t, "switch to WAL: %v %v", rows, err)
	}
	got, surfaced = exec()
	if surfaced == nil {
		r.Violation(t, s, "error-not-surfaced", "%s (prepared statement): the file is in WAL mode now, the execution reports nothing after %d rows", query, len(got))
		return
	}
	if len(got) > 0 && wantErr == nil && len(got) > len(want) {
		r.Violation(t, s, "extra-rows", "%s (prepared statement, file in WAL mode): %d rows", query, len(got))
		return
	}
	if !noLock("execution refused because the file is in WAL mode") {
		return
	}
	if rows, err := env.O.Query("wal", "PRAGMA journal_mode=DELETE"); err != nil || len(rows) != 1 || string(rows[0][0].B) != "delete" {
		r.Violation(t, s, "lock-left-behind", "%s (prepared statement): after the execution that was refused because of WAL mode SQLite cannot switch the file back: %v %v", query, rows, err)
		return
	}
	got, surfaced = exec()
	if !judge("execution after the file left WAL mode again", got, surfaced) {
		return
	}
	noLock("execution after the file left WAL mode again")
}

func bucket(n int) int {
	for _, b := range []int{0, 10, 100, 1000} {
		if n <= b {
			return b
		}
	}
	return 10000
}
