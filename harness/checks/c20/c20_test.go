// C20 — independent handles can be used from concurrent goroutines.
//
// Generated plans of N goroutines x M operations, each goroutine with its own
// handles (native API) or sharing a database/sql pool, on the same and on
// different files; every result must equal the result of the same operation
// run alone (computed first), and the race detector (the binary is built with
// -race) must stay silent.
//
// Besides three fixed files every plan has a fresh file (index 3) whose stored
// CREATE statements, and the statements of the "parse-fresh" operation, spell
// their keywords in a letter case chosen by the plan; the fresh file is first
// touched in the concurrent phase (its sequential results are computed
// afterwards), so state that is filled lazily on first use (caches, memo
// tables keyed by content) is filled while other goroutines run.
package c20

import (
	"database/sql"
	"encoding/json"
	"fmt"
	"os"
	"path/filepath"
	"runtime"
	"sort"
	"strings"
	"sync"
	"testing"

	"github.com/alicebob/sqlittle"
	sdb "github.com/alicebob/sqlittle/db"
	_ "github.com/alicebob/sqlittle/driver"
	sqsql "github.com/alicebob/sqlittle/sql"
	"pgregory.net/rapid"

	"verif/e1"
	"verif/locks"
	"verif/oracle"
	"verif/sqdb"
	"verif/vt"
)

var (
	env   *sqdb.Env
	probe *locks.Client
	files []string // the three fixed files; run() appends the plan's fresh file as files[3]
)

const freshFile = 3

var appCollations int

var mangled = map[string]bool{"CREATE": true, "TABLE": true, "INDEX": true, "PRIMARY": true, "KEY": true, "COLLATE": true, "WITHOUT": true, "ROWID": true,
	"ON": true, "UNIQUE": true, "DEFAULT": true, "REFERENCES": true, "DELETE": true, "CASCADE": true, "WHERE": true, "DESC": true, "ASC": true, "SELECT": true,
	"FROM": true, "NOT": true, "NULL": true, "CHECK": true, "AND": true, "OR": true, "CONSTRAINT": true, "IS": true}

// mangle respells the SQL keywords of an (unquoted, upper case keyword)
// statement: letter i of the keywords is lower case when bit (off+i) of the
// pattern is set. Identifiers, type and collation names stay as they are.
func mangle(sqlText string, bits []bool, off int) string {
	if len(bits) == 0 {
		return sqlText
	}
	out := []byte(sqlText)
	n := off
	for i := 0; i < len(out); {
		c := out[i]
		if c == '\'' || c == '"' {
			j := i + 1
			for j < len(out) && out[j] != c {
				j++
			}
			i = j + 1
			continue
		}
		if !(c >= 'A' && c <= 'Z' || c >= 'a' && c <= 'z' || c == '_') {
			i++
			continue
		}
		j := i
		for j < len(out) && (out[j] >= 'A' && out[j] <= 'Z' || out[j] >= 'a' && out[j] <= 'z' || out[j] == '_' || out[j] >= '0' && out[j] <= '9') {
			j++
		}
		if mangled[string(out[i:j])] {
			for k := i; k < j; k++ {
				if bits[n%len(bits)] {
					out[k] += 'a' - 'A'
				}
				n++
			}
		}
		i = j
	}
	return string(out)
}

// sharedCols is a list of column names every goroutine passes to Select: an
// input, which nobody writes to. The spellings are not those of the
// definitions (which differ between the files, too).
var sharedCols = []string{"a", "B", "c"}

func schemaStmts(rows int) []string {
	tdef := "CREATE TABLE t (a INTEGER PRIMARY KEY, b, c TEXT COLLATE NOCASE)"
	if rows == 700 {
		tdef = "CREATE TABLE t (A INTEGER PRIMARY KEY, b, C TEXT COLLATE NOCASE)"
	}
	return []string{
		tdef,
		"CREATE INDEX tb ON t (b)",
		"CREATE INDEX tc ON t (c)",
		"CREATE TABLE w (k TEXT PRIMARY KEY, v, u) WITHOUT ROWID",
		"CREATE INDEX wv ON w (v)",
		fmt.Sprintf("WITH RECURSIVE c(x) AS (SELECT 1 UNION ALL SELECT x+1 FROM c WHERE x < %d) INSERT INTO t (b, c) SELECT x%%7, CASE x%%3 WHEN 0 THEN 'Row' ELSE 'row' END||(x%%11)||hex(zeroblob(x%%40)) FROM c", rows),
		fmt.Sprintf("WITH RECURSIVE c(x) AS (SELECT 1 UNION ALL SELECT x+1 FROM c WHERE x < %d) INSERT INTO w SELECT 'k'||x, x%%5, hex(zeroblob(700)) FROM c", rows),
		// rows that take long to hand over (hundreds of overflow pages each)
		// definitions outside the library's grammar: everything that touches
		// them ends in an error, and that error is the same every time
		"CREATE INDEX tpart ON t (b) WHERE b IS NOT NULL AND c LIKE 'r%'",
		"CREATE TABLE odd (a, b CHECK (b BETWEEN 1 AND 5), c AS (a || 'x'))",
		"CREATE TABLE big (id INTEGER PRIMARY KEY, payload BLOB)",
		"INSERT INTO big (payload) VALUES (zeroblob(250000)), (zeroblob(250001)), (zeroblob(250002)), (zeroblob(250003))",
	}
}

func setup(r *vt.Run, t *testing.T) {
	var err error
	if env, err = sqdb.NewEnv(); err != nil {
		r.Harness(t, "env: %v", err)
	}
	for i, rows := range []int{5, 60, 700} {
		path := filepath.Join(env.Dir, fmt.Sprintf("shared%d.sqlite", i))
		var init []oracle.Stmt
		for _, q := range schemaStmts(rows) {
			init = append(init, oracle.Stmt{SQL: q})
		}
		if i == 1 {
			// this file keeps a (committed, not hot) journal next to it:
			// every open and every read transaction looks into it
			init = append(init, oracle.Stmt{SQL: "PRAGMA journal_mode=PERSIST", Fetch: true}, oracle.Stmt{SQL: "UPDATE t SET b = b WHERE a = 1"})
		}
		res, err := env.Create("c20", path, []int{512, 1024, 4096}[i], 0, init)
		sqdb.MustOK(r, t, "create", res, err, len(init)+2)
		if i == 1 {
			if st, err := os.Stat(path + "-journal"); err != nil || st.Size() == 0 {
				r.Harness(t, "no persistent journal next to %s: %v", path, err)
			}
		}
		env.O.Close("c20")
		os.Remove(path + ".link")
		if err := os.Link(path, path+".link"); err != nil {
			r.Harness(t, "link: %v", err)
		}
		files = append(files, path)
	}
	if probe, err = locks.StartClient(); err != nil {
		r.Harness(t, "lockprobe: %v", err)
	}
}

type opSpec struct {
	Kind string
	File int
	Arg  int
}

type spec struct {
	Procs   int
	Workers [][]opSpec
	Yield   bool
	Case    []bool // letter case pattern of the keywords in the fresh file's DDL and in parse-fresh statements
}

var kinds = []string{"parse-fresh", "select-probed", "select", "select-wr", "indexed", "indexed-nocase", "indexed-eq", "indexed-wr", "pk", "rowid", "columns", "low-scan", "parse", "compare", "driver", "driver-early-close", "driver-connect", "open-close", "schema", "def", "def", "low-missing", "low-missing", "appc", "appc"}

var statements = []string{
	"CREATE TABLE t (a INTEGER PRIMARY KEY, b, c TEXT COLLATE NOCASE)",
	"CREATE INDEX i ON t (a, b COLLATE nocase DESC, c) WHERE a > 5",
	"CREATE TABLE w (k TEXT PRIMARY KEY, v DEFAULT 'x', u REFERENCES t(a) ON DELETE CASCADE, UNIQUE (v, u)) WITHOUT ROWID",
	"SELECT a, b, * FROM t",
	"CREATE TABLE broken (",
}

func TestC20Concurrent(t *testing.T) {
	vt.Exec(t, vt.Check[spec]{
		ID: "C20", Test: "TestC20Concurrent",
		Setup: setup, Teardown: func() { probe.Stop(); env.Close() },
		Gen: func(t *rapid.T) spec {
			s := spec{Procs: rapid.SampledFrom([]int{1, 2, 4, 8, 16}).Draw(t, "procs"), Yield: rapid.Bool().Draw(t, "yield")}
			n := rapid.IntRange(2, 16).Draw(t, "workers")
			m := rapid.IntRange(1, 8).Draw(t, "opsper")
			for i := 0; i < n; i++ {
				var ops []opSpec
				for j := 0; j < m; j++ {
					ops = append(ops, opSpec{rapid.SampledFrom(kinds).Draw(t, "kind"), rapid.IntRange(0, freshFile).Draw(t, "file"), rapid.IntRange(0, 50).Draw(t, "arg")})
				}
				s.Workers = append(s.Workers, ops)
			}
			s.Case = rapid.SliceOfN(rapid.Bool(), 24, 24).Draw(t, "case")
			return s
		},
		Run: run,
	})
}

type handles struct {
	hi     map[int]*sqlittle.DB
	lo     map[int]*sdb.Database
	pool   map[int]*sql.DB // shared between goroutines (database/sql is made for that)
	linked bool            // open the fixed files through their hard links
	// keys shared by all goroutines of a plan (made anew for every plan)
	sharedKeys map[int]sqlittle.Key
}

// name gives the name under which this set of handles opens file f: the
// handles of every second goroutine use a hard link (the same file).
func (h *handles) name(f int) string {
	if h.linked && f < freshFile {
		return files[f] + ".link"
	}
	return files[f]
}

func (h *handles) high(f int) (*sqlittle.DB, error) {
	if h.hi[f] == nil {
		d, err := sqlittle.Open(h.name(f))
		if err != nil {
			return nil, err
		}
		h.hi[f] = d
	}
	return h.hi[f], nil
}

func (h *handles) low(f int) (*sdb.Database, error) {
	if h.lo[f] == nil {
		d, err := sdb.OpenFile(h.name(f))
		if err != nil {
			return nil, err
		}
		h.lo[f] = d
	}
	return h.lo[f], nil
}

func (h *handles) close() {
	for _, d := range h.hi {
		d.Close()
	}
	for _, d := range h.lo {
		d.Close()
	}
}

// runOp gives a rendering of the operation's complete result.
func runOp(h *handles, o opSpec, yield bool, pattern []bool) string {
	var b strings.Builder
	cb := func(row sqlittle.Row) {
		fmt.Fprintf(&b, "%s;", e1.ShowGot(row))
		if yield {
			runtime.Gosched()
		}
	}
	fail := func(err error) string { return b.String() + "ERR:" + fmt.Sprint(err) }
	switch o.Kind {
	case "select", "select-probed", "select-wr", "indexed", "indexed-nocase", "indexed-eq", "indexed-wr", "pk", "rowid", "columns":
		d, err := h.high(o.File)
		if err != nil {
			return fail(err)
		}
		switch o.Kind {
		case "select-probed":
			// inside the first row callback another process is asked whether
			// this process holds the SHARED lock on the file
			nrow := 0
			err = d.Select("t", func(row sqlittle.Row) {
				nrow++
				if nrow%16 == 1 {
					// (the first row and every sixteenth after it)
					st, perr := probe.Probe(files[o.File])
					switch {
					case perr != nil:
						fmt.Fprintf(&b, "probe error %v;", perr)
					case st.Shared.Type == "read" && st.Shared.Pid == os.Getpid():
						fmt.Fprint(&b, "locked;")
					default:
						fmt.Fprintf(&b, "NOT LOCKED (%s);", st)
					}
				}
				cb(row)
			}, "a", "b", "c")
		case "select":
			if o.Arg%2 == 0 {
				err = d.Select("t", cb, sharedCols...)
			} else {
				err = d.Select("t", cb, "a", "b", "c")
			}
		case "select-wr":
			err = d.Select("w", cb, "k", "v")
		case "indexed":
			err = d.IndexedSelect("t", "tb", cb, "a", "b")
		case "indexed-nocase":
			err = d.IndexedSelectEq("t", "tc", sqlittle.Key{fmt.Sprintf("ROW%d", o.Arg%11)}, cb, "a", "c")
		case "indexed-eq":
			key := sqlittle.Key{int64(o.Arg % 7)}
			if h.sharedKeys != nil && o.Arg%2 == 0 {
				// one Key value used by every goroutine (an input: nobody
				// writes to it), holding a Go int, which Key accepts
				key = h.sharedKeys[o.Arg%7]
			}
			err = d.IndexedSelectEq("t", "tb", key, cb, "a", "b", "c")
		case "indexed-wr":
			err = d.IndexedSelectEq("w", "wv", sqlittle.Key{int64(o.Arg % 5)}, cb, "k", "v")
		case "pk":
			err = d.PKSelect("w", sqlittle.Key{fmt.Sprintf("k%d", 1+o.Arg)}, cb, "k", "v", "u")
		case "rowid":
			var row sqlittle.Row
			row, err = d.SelectRowid("t", int64(1+o.Arg), "a", "b", "c")
			if row != nil {
				cb(row)
			}
		case "columns":
			var cols []string
			cols, err = d.Columns("w")
			fmt.Fprint(&b, cols)
		}
		if err != nil {
			return fail(err)
		}
	case "low-scan", "schema", "low-missing":
		d, err := h.low(o.File)
		if err != nil {
			return fail(err)
		}
		if err := d.RLock(); err != nil {
			return fail(err)
		}
		defer d.RUnlock()
		if o.Kind == "low-missing" {
			// the error path of the low-level lookups: objects that do not
			// exist, or exist as something else; the errors are kept and looked
			// at after other lookups have failed
			n := fmt.Sprintf("missing_%d", o.Arg%9)
			_, e1 := d.Table(n)
			_, e2 := d.NonRowidTable("t") // (a rowid table)
			_, e3 := d.Index(n + "_idx")
			_, e4 := d.Table("w") // (a WITHOUT ROWID table)
			if yield {
				runtime.Gosched()
			}
			fmt.Fprintf(&b, "%v;%v;%v;%v", e1, e2, e3, e4)
			return b.String()
		}
		if o.Kind == "schema" {
			s, err := d.Schema("w")
			if err != nil {
				return fail(err)
			}
			js, _ := json.Marshal(s)
			fmt.Fprintf(&b, "%s", js)
			return b.String()
		}
		ix, err := d.Index("tb")
		if err != nil {
			return fail(err)
		}
		err = ix.ScanMin(sdb.Key{{V: int64(o.Arg % 7)}}, func(rec sdb.Record) bool {
			fmt.Fprintf(&b, "%v;", rec)
			if yield {
				runtime.Gosched()
			}
			return false
		})
		if err != nil {
			return fail(err)
		}
	case "appc":
		// the fresh file's table whose column names a collation of the
		// application's own: its columns and rows (no key is compared)
		d, err := h.high(freshFile)
		if err != nil {
			return fail(err)
		}
		cols, err := d.Columns("appc")
		fmt.Fprint(&b, cols, err, ";")
		err = d.Select("appc", func(row sqlittle.Row) { fmt.Fprint(&b, []interface{}(row), ";") }, "a", "b")
		fmt.Fprint(&b, err)
	case "def":
		// the parsed definitions of tables and indexes, among them two the
		// grammar does not take (an error path of its own)
		d, err := h.low(o.File)
		if err != nil {
			return fail(err)
		}
		if err := d.RLock(); err != nil {
			return fail(err)
		}
		defer d.RUnlock()
		for _, n := range []string{"t", "odd", "w"} {
			tab, err := d.Table(n)
			if err != nil {
				fmt.Fprintf(&b, "table %s: %v;", n, err)
				continue
			}
			def, err := tab.Def()
			js, _ := json.Marshal(def)
			fmt.Fprintf(&b, "table %s: %s %v;", n, js, err)
		}
		for _, n := range []string{"tb", "tpart", "wv"} {
			ix, err := d.Index(n)
			if err != nil {
				fmt.Fprintf(&b, "index %s: %v;", n, err)
				continue
			}
			def, err := ix.Def()
			js, _ := json.Marshal(def)
			fmt.Fprintf(&b, "index %s: %s %v;", n, js, err)
		}
		if _, err := d.Schema("odd"); err != nil {
			fmt.Fprintf(&b, "schema odd: %v;", err)
		}
	case "parse", "parse-fresh":
		q := statements[o.Arg%len(statements)]
		if o.Kind == "parse-fresh" {
			q = mangle(q, pattern, o.Arg)
		}
		st, err := sqsql.Parse(q)
		js, _ := json.Marshal(st) // (no pointer values in the rendering)
		fmt.Fprintf(&b, "%T %s %v", st, js, err)
	case "compare":
		vals := []interface{}{nil, int64(o.Arg), float64(o.Arg) + 0.5, "Abc", "abc ", "ABC", []byte{1, 2}}
		for i, x := range vals {
			for _, y := range vals {
				k := sdb.Key{{V: x, Collate: []string{"", "nocase", "rtrim"}[(i+o.Arg)%3], Desc: o.Arg%2 == 0}}
				fmt.Fprintf(&b, "%v%v", sdb.Search(k, sdb.Record{y}), sdb.Equals(k, sdb.Record{y}))
			}
		}
	case "driver":
		q := "SELECT a, c FROM t"
		if o.Arg%3 == 0 {
			q = "SELECT A, C FROM t" // (not the spelling of any of the definitions)
		}
		if o.File == freshFile {
			q = mangle(q, pattern, o.Arg)
		}
		rows, err := h.pool[o.File].Query(q)
		if err != nil {
			return fail(err)
		}
		// the column names are there before the first row is
		names, _ := rows.Columns()
		fmt.Fprint(&b, names, ";")
		for rows.Next() {
			var a, c interface{}
			if err := rows.Scan(&a, &c); err != nil {
				rows.Close()
				return fail(err)
			}
			fmt.Fprintf(&b, "%v,%s;", a, c)
			if yield {
				runtime.Gosched()
			}
		}
		if err := rows.Err(); err != nil {
			return fail(err)
		}
		rows.Close()
	case "driver-connect":
		// a new database/sql connection to the file that is used for things
		// which need no read: a ping, an empty transaction, a statement
		// refused for its syntax, a prepared statement that is never run
		p, err := sql.Open("sqlittle", h.name(o.File))
		if err != nil {
			return fail(err)
		}
		fmt.Fprint(&b, p.Ping() == nil, ";")
		if tx, err := p.Begin(); err == nil {
			fmt.Fprint(&b, tx.Rollback() == nil, ";")
		}
		if rows, err := p.Query("SELECT FROM t"); err == nil {
			rows.Close()
			fmt.Fprint(&b, "a syntax error is accepted;")
		}
		if st, err := p.Prepare("SELECT a FROM t"); err == nil {
			st.Close()
		}
		p.Close()
	case "driver-early-close":
		// a result set of slow rows is closed after one or two of them; the
		// connection goes back to the pool and the next query is likely to
		// get it: by then the first query has to be over entirely
		rows, err := h.pool[o.File].Query("SELECT id, payload FROM big")
		if err != nil {
			return fail(err)
		}
		for n := 0; n <= o.Arg%2 && rows.Next(); n++ {
			var id int64
			var p []byte
			if err := rows.Scan(&id, &p); err != nil {
				rows.Close()
				return fail(err)
			}
			fmt.Fprintf(&b, "%d:%d;", id, len(p))
		}
		if err := rows.Close(); err != nil {
			return fail(err)
		}
		rows, err = h.pool[o.File].Query("SELECT id FROM big")
		if err != nil {
			return fail(err)
		}
		for rows.Next() {
			var id int64
			if err := rows.Scan(&id); err != nil {
				rows.Close()
				return fail(err)
			}
			fmt.Fprintf(&b, "%d;", id)
		}
		if err := rows.Err(); err != nil {
			return fail(err)
		}
		rows.Close()
	case "open-close":
		d, err := sqlittle.Open(files[o.File])
		if err != nil {
			return fail(err)
		}
		cols, err := d.Columns("t")
		fmt.Fprint(&b, cols, err)
		d.Close()
	}
	return b.String()
}

// late: the operation meets state nobody has touched yet in the concurrent
// phase; its result alone is computed afterwards.
func late(o opSpec) bool {
	switch o.Kind {
	case "parse-fresh", "appc":
		return true
	case "parse", "compare":
		return false
	}
	return o.File == freshFile
}

func run(r *vt.Run, t vt.TB, s spec) {
	// the plan's fresh file: same logical schema, keywords respelled
	fresh := env.NewPath()
	defer sqdb.Remove(fresh)
	var init []oracle.Stmt
	for i, q := range schemaStmts(25) {
		if i < 5 {
			q = mangle(q, s.Case, i*5)
		}
		init = append(init, oracle.Stmt{SQL: q})
	}
	// a table with a column under a collation the application defined itself
	// (a new name in every plan: nothing in this process has met it before)
	appCollations++
	init = append(init, oracle.Stmt{SQL: fmt.Sprintf("CREATE TABLE appc (a TEXT COLLATE verifcoll%d, b)", appCollations%64)}, oracle.Stmt{SQL: "INSERT INTO appc VALUES ('x', 1), ('y', 2)"})
	res, err := env.Create("c20f", fresh, 1024, 0, init)
	sqdb.MustOK(r, t, "create fresh", res, err, len(init)+2)
	env.O.Close("c20f")
	files = append(files[:freshFile:freshFile], fresh)

	pool := map[int]*sql.DB{}
	for i, f := range files {
		db, err := sql.Open("sqlittle", f)
		if err != nil {
			r.Harness(t, "sql.Open: %v", err)
		}
		pool[i] = db
		defer db.Close()
	}
	// every operation alone (those on fresh state: after the concurrent phase)
	want := map[opSpec]string{}
	seqH := &handles{hi: map[int]*sqlittle.DB{}, lo: map[int]*sdb.Database{}, pool: pool}
	nops, nlate := 0, 0
	sameFile := map[int]int{}
	for _, w := range s.Workers {
		seen := map[int]bool{}
		for _, o := range w {
			nops++
			if late(o) {
				nlate++
			} else if _, ok := want[o]; !ok {
				want[o] = runOp(seqH, o, false, s.Case)
			}
			if !seen[o.File] {
				seen[o.File] = true
				sameFile[o.File]++
			}
		}
	}
	seqH.close()
	shared := false
	for _, n := range sameFile {
		if n >= 2 {
			shared = true
		}
	}
	r.Case(s, len(s.Workers) >= 2 && shared, fmt.Sprintf("procs=%d", s.Procs), fmt.Sprintf("workers<=%d", ((len(s.Workers)+3)/4)*4), fmt.Sprintf("same-file=%v", shared), fmt.Sprintf("yield=%v", s.Yield),
		fmt.Sprintf("fresh-state-shared=%v", sameFile[freshFile] >= 2))
	r.Count("operations", nops)
	for _, w := range s.Workers {
		for _, o := range w {
			if o.Kind == "select-probed" {
				r.Count("op:select-probed", 1)
			}
		}
	}
	r.Count("operations-on-fresh-state", nlate)

	sharedKeys := map[int]sqlittle.Key{}
	for j := 0; j < 7; j++ {
		sharedKeys[j] = sqlittle.Key{j} // (int, not int64)
	}
	old := runtime.GOMAXPROCS(s.Procs)
	defer runtime.GOMAXPROCS(old)
	var wg sync.WaitGroup
	var mu sync.Mutex
	var problems []string
	type lateResult struct {
		wi, oi int
		o      opSpec
		got    string
	}
	var lateGot []lateResult
	start := make(chan struct{})
	for wi, w := range s.Workers {
		wg.Add(1)
		go func(wi int, w []opSpec) {
			defer wg.Done()
			defer func() {
				if p := recover(); p != nil {
					mu.Lock()
					problems = append(problems, fmt.Sprintf("worker %d panics: %v", wi, p))
					mu.Unlock()
				}
			}()
			h := &handles{hi: map[int]*sqlittle.DB{}, lo: map[int]*sdb.Database{}, pool: pool, linked: wi%2 == 1, sharedKeys: sharedKeys}
			defer h.close()
			<-start
			for oi, o := range w {
				got := runOp(h, o, s.Yield, s.Case)
				if late(o) {
					mu.Lock()
					lateGot = append(lateGot, lateResult{wi, oi, o, got})
					mu.Unlock()
				} else if got != want[o] {
					mu.Lock()
					problems = append(problems, fmt.Sprintf("worker %d op %d %+v: concurrent result differs from the result alone:\n  alone:      %.300s\n  concurrent: %.300s", wi, oi, o, want[o], got))
					mu.Unlock()
				}
			}
		}(wi, w)
	}
	close(start)
	wg.Wait()
	runtime.GOMAXPROCS(old)
	seqH = &handles{hi: map[int]*sqlittle.DB{}, lo: map[int]*sdb.Database{}, pool: pool}
	sort.Slice(lateGot, func(i, j int) bool {
		if lateGot[i].wi != lateGot[j].wi {
			return lateGot[i].wi < lateGot[j].wi
		}
		return lateGot[i].oi < lateGot[j].oi
	})
	for _, l := range lateGot {
		if _, ok := want[l.o]; !ok {
			want[l.o] = runOp(seqH, l.o, false, s.Case)
		}
		if l.got != want[l.o] {
			problems = append(problems, fmt.Sprintf("worker %d op %d %+v (first use of fresh state): concurrent result differs from the result alone:\n  alone:      %.300s\n  concurrent: %.300s", l.wi, l.oi, l.o, want[l.o], l.got))
		}
	}
	seqH.close()
	if len(problems) > 0 {
		r.Violation(t, s, "result-differs-under-concurrency", "%d problems with %d goroutines (GOMAXPROCS %d); first: %s", len(problems), len(s.Workers), s.Procs, problems[0])
	}
}
