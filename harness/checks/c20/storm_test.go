package c20

// Open storm: many goroutines, each opening, reading and closing its own file
// over and over at full speed. What the handles of different goroutines share
// is not Go memory but the process: descriptor numbers are handed out again
// the moment they are closed, so a library that closes a number it no longer
// owns closes somebody else's file. The race detector cannot see that; the
// results can: every round has to give what the same file gave when it was
// read alone.
//
// The files keep a journal next to them whose header is zeroed (what
// journal_mode=PERSIST leaves after every commit), so every open and every
// read transaction opens, reads and closes a second file.

import (
	"fmt"
	"os"
	"path/filepath"
	"runtime"
	"sync"
	"testing"

	"github.com/alicebob/sqlittle"
	"pgregory.net/rapid"

	"verif/oracle"
	"verif/sqdb"
	"verif/vt"
)

type stormSpec struct {
	Procs   int
	Workers int
	Rounds  int
	Link    bool // every second goroutine opens its file under a second name (hard link)
}

var (
	stormEnv   *sqdb.Env
	stormFiles []string
)

const stormNFiles = 16

func stormSetup(r *vt.Run, t *testing.T) {
	var err error
	if stormEnv, err = sqdb.NewEnv(); err != nil {
		r.Harness(t, "env: %v", err)
	}
	for i := 0; i < stormNFiles; i++ {
		path := filepath.Join(stormEnv.Dir, fmt.Sprintf("storm%02d.sqlite", i))
		init := []oracle.Stmt{
			{SQL: "CREATE TABLE t (a INTEGER PRIMARY KEY, b, c TEXT)"},
			{SQL: fmt.Sprintf("WITH RECURSIVE c(x) AS (SELECT 1 UNION ALL SELECT x+1 FROM c WHERE x < 40) INSERT INTO t (b, c) SELECT x*%d, 'file%02d-row'||x FROM c", i+1, i)},
			{SQL: "PRAGMA journal_mode=PERSIST", Fetch: true},
			{SQL: "UPDATE t SET b = b + 1 WHERE a = 1"},
		}
		res, err := stormEnv.Create("storm", path, 1024, 0, init)
		sqdb.MustOK(r, t, "create", res, err, len(init)+2)
		stormEnv.O.Close("storm")
		if st, err := os.Stat(path + "-journal"); err != nil || st.Size() == 0 {
			r.Harness(t, "no persistent journal next to %s: %v", path, err)
		}
		os.Remove(path + ".link")
		if err := os.Link(path, path+".link"); err != nil {
			r.Harness(t, "link: %v", err)
		}
		stormFiles = append(stormFiles, path)
	}
}

func stormRead(path string) string {
	db, err := sqlittle.Open(path)
	if err != nil {
		return "open: " + err.Error()
	}
	out := ""
	err = db.Select("t", func(row sqlittle.Row) { out += fmt.Sprint([]interface{}(row)) }, "a", "b", "c")
	if cerr := db.Close(); cerr != nil {
		out += " close: " + cerr.Error()
	}
	if err != nil {
		out += " error: " + err.Error()
	}
	return out
}

func TestC20OpenStorm(t *testing.T) {
	vt.Exec(t, vt.Check[stormSpec]{
		ID: "C20", Test: "TestC20OpenStorm",
		Setup: stormSetup, Teardown: func() { stormEnv.Close() },
		Gen: func(t *rapid.T) stormSpec {
			return stormSpec{
				Procs:   rapid.SampledFrom([]int{4, 8, 16, 16}).Draw(t, "procs"),
				Workers: rapid.SampledFrom([]int{8, 16, 16, 32}).Draw(t, "workers"),
				Rounds:  rapid.SampledFrom([]int{200, 400, 800}).Draw(t, "rounds"),
				Link:    rapid.Bool().Draw(t, "link"),
			}
		},
		Run: func(r *vt.Run, t vt.TB, s stormSpec) {
			want := make([]string, stormNFiles)
			for i, f := range stormFiles {
				want[i] = stormRead(f)
			}
			old := runtime.GOMAXPROCS(s.Procs)
			defer runtime.GOMAXPROCS(old)
			var wg sync.WaitGroup
			var mu sync.Mutex
			problem := ""
			start := make(chan struct{})
			for w := 0; w < s.Workers; w++ {
				wg.Add(1)
				go func(w int) {
					defer wg.Done()
					fi := w % stormNFiles
					name := stormFiles[fi]
					if s.Link && w%2 == 1 {
						name += ".link"
					}
					<-start
					for k := 0; k < s.Rounds; k++ {
						if got := stormRead(name); got != want[fi] {
							mu.Lock()
							if problem == "" {
								problem = fmt.Sprintf("goroutine %d, round %d on %s: %.200q; alone the file gives %.200q", w, k, filepath.Base(name), got, want[fi])
							}
							mu.Unlock()
							return
						}
					}
				}(w)
			}
			close(start)
			wg.Wait()
			r.Case(s, s.Workers >= 8 && s.Procs >= 4, fmt.Sprintf("storm:procs=%d", s.Procs), fmt.Sprintf("storm:workers=%d", s.Workers), fmt.Sprintf("storm:links=%v", s.Link))
			r.Count("storm:open-read-close-rounds", s.Workers*s.Rounds)
			if problem != "" {
				r.Violation(t, s, "storm:differs", "%s", problem)
			}
		},
	})
}
