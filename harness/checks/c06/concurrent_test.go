package c06

// Handles of one process used from different goroutines at the same time: the
// SHARED lock belongs to the process, so the pager keeps per-file bookkeeping
// of its readers, and taking the lock, counting the reader and dropping the
// lock must be one step with respect to the other handles. The schedule of
// the goroutines is the Go scheduler's (sampled, steered by generated spin
// delays and GOMAXPROCS), not owned by the harness; the invariant is the one
// of TestC06Held: inside a row callback the shared range is read-locked by
// this process, as seen from another process.

import (
	"fmt"
	"os"
	"runtime"
	"sync"
	"sync/atomic"
	"testing"
	"time"

	"github.com/alicebob/sqlittle"
	"pgregory.net/rapid"

	"verif/oracle"
	"verif/sqdb"
	"verif/vt"
)

type concSpec struct {
	Procs    int
	Rows     int
	Churners int
	Rounds   int
	ProbeRow int   // the row callback (mod row count) that asks the probe
	Spin     []int // busy-wait units before each round of the probing reader, cycled
	// Link: the other handles open the file under another name ("hard": a
	// hard link, "sym": a symbolic link); it is the same file all the same
	Link string `json:",omitempty"`
	// ReadOnly: the file has no write permission bit when the handles are
	// opened (writers with the right to ignore that, or a later chmod, can
	// still change it: permission bits say nothing about locking)
	ReadOnly bool `json:",omitempty"`
}

func TestC06Concurrent(t *testing.T) {
	vt.Exec(t, vt.Check[concSpec]{
		ID: "C06", Test: "TestC06Concurrent",
		Setup: setup, Teardown: teardown,
		Gen: func(t *rapid.T) concSpec {
			return concSpec{
				Procs:    rapid.SampledFrom([]int{2, 4, 8, 16}).Draw(t, "procs"),
				Rows:     rapid.SampledFrom([]int{1, 1, 3, 10, 40}).Draw(t, "rows"),
				Churners: rapid.IntRange(1, 3).Draw(t, "churners"),
				Rounds:   rapid.SampledFrom([]int{200, 500, 1000}).Draw(t, "rounds"),
				ProbeRow: rapid.IntRange(0, 39).Draw(t, "proberow"),
				Spin:     rapid.SliceOfN(rapid.IntRange(0, 4000), 1, 16).Draw(t, "spin"),
				Link:     rapid.SampledFrom([]string{"", "", "hard", "sym"}).Draw(t, "link"),
				ReadOnly: rapid.IntRange(0, 2).Draw(t, "readonly") == 0,
			}
		},
		Run: runConcurrent,
	})
}

var spinSink uint64

func spin(n int) {
	x := spinSink
	for i := 0; i < n; i++ {
		x = x*6364136223846793005 + 1442695040888963407
	}
	atomic.StoreUint64(&spinSink, x)
}

func runConcurrent(r *vt.Run, t vt.TB, s concSpec) {
	path := env.NewPath()
	defer sqdb.Remove(path)
	res, err := env.Create("cc", path, 1024, 0, []oracle.Stmt{
		{SQL: "CREATE TABLE t (a INTEGER PRIMARY KEY, b)"},
		{SQL: fmt.Sprintf("WITH RECURSIVE c(x) AS (SELECT 1 UNION ALL SELECT x+1 FROM c WHERE x < %d) INSERT INTO t (b) SELECT x FROM c", s.Rows)},
	})
	sqdb.MustOK(r, t, "create", res, err, 4)
	env.O.Close("cc")
	if s.ReadOnly {
		if err := os.Chmod(path, 0o444); err != nil {
			r.Harness(t, "chmod: %v", err)
		}
	}

	old := runtime.GOMAXPROCS(s.Procs)
	defer runtime.GOMAXPROCS(old)
	me := os.Getpid()
	prober, err := sqlittle.Open(path)
	if err != nil {
		r.Harness(t, "open: %v", err)
	}
	// how long one read takes, and how fast spin() is: the other readers
	// finish their read somewhere in [0, 2 reads] after the round starts
	t0 := time.Now()
	for i := 0; i < 40; i++ {
		prober.Select("t", func(sqlittle.Row) {}, "a")
	}
	readNs := float64(time.Since(t0).Nanoseconds()) / 40
	t0 = time.Now()
	spin(200000)
	spinNs := float64(time.Since(t0).Nanoseconds()) / 200000
	unit := int(2 * readNs / spinNs / 4000) // spin units per step of the generated delays
	if unit < 1 {
		unit = 1
	}
	// Each round every other handle does exactly one read and is idle
	// afterwards (a reader that loops would take the process' lock again at
	// once and hide a lost one from the probe).
	var wg sync.WaitGroup
	var churned int64
	var churnErr atomic.Value
	starts := make([]chan int, s.Churners)
	done := make(chan struct{}, s.Churners)
	otherName := path
	switch s.Link {
	case "hard":
		otherName = path + ".hardlink"
		os.Remove(otherName)
		if err := os.Link(path, otherName); err != nil {
			r.Harness(t, "link: %v", err)
		}
		defer os.Remove(otherName)
	case "sym":
		otherName = path + ".symlink"
		os.Remove(otherName)
		if err := os.Symlink(path, otherName); err != nil {
			r.Harness(t, "symlink: %v", err)
		}
		defer os.Remove(otherName)
	}
	for i := 0; i < s.Churners; i++ {
		db, err := sqlittle.Open(otherName)
		if err != nil {
			r.Harness(t, "open: %v", err)
		}
		starts[i] = make(chan int)
		wg.Add(1)
		go func(i int, db *sqlittle.DB) {
			defer wg.Done()
			defer db.Close()
			for round := range starts[i] {
				spin(unit * s.Spin[(round*7+i*3+1)%len(s.Spin)] / 2)
				if err := db.Select("t", func(sqlittle.Row) {}, "a"); err != nil {
					churnErr.Store(err)
				}
				atomic.AddInt64(&churned, 1)
				done <- struct{}{}
			}
		}(i, db)
	}
	probes := 0
	problem := ""
	var harnessErr error
	for round := 0; round < s.Rounds && problem == "" && harnessErr == nil; round++ {
		for i := range starts {
			starts[i] <- round
		}
		spin(unit * s.Spin[round%len(s.Spin)])
		row := 0
		err := prober.Select("t", func(sqlittle.Row) {
			if row == s.ProbeRow%s.Rows && problem == "" && harnessErr == nil {
				st, perr := probe.Probe(path)
				probes++
				if perr != nil {
					harnessErr = perr
				} else if st.Shared.Type != "read" || st.Shared.Pid != me {
					problem = fmt.Sprintf("round %d of the probing reader, inside the callback of row %d of Select: another process sees %s; the shared range is not read-locked by this process (%d). %d other handles of this process each did one read of the same file in their own goroutines around the start of this one",
						round, row, st, me, s.Churners)
				}
			}
			row++
		}, "a")
		if err != nil && problem == "" {
			problem = fmt.Sprintf("round %d of the probing reader: Select fails: %v", round, err)
		}
		for range starts {
			<-done
		}
	}
	for i := range starts {
		close(starts[i])
	}
	wg.Wait()
	prober.Close()
	r.Case(s, probes > 0 && atomic.LoadInt64(&churned) > 0, fmt.Sprintf("concurrent:procs=%d", s.Procs), fmt.Sprintf("concurrent:churners=%d", s.Churners), "concurrent:other-name="+s.Link, fmt.Sprintf("concurrent:file-without-write-permission=%v", s.ReadOnly))
	r.Count("concurrent:probes-inside-callbacks", probes)
	r.Count("concurrent:reads-by-other-handles", int(atomic.LoadInt64(&churned)))
	if harnessErr != nil {
		r.Harness(t, "probe: %v", harnessErr)
	}
	if e := churnErr.Load(); e != nil && problem == "" {
		problem = fmt.Sprintf("a concurrent reader fails: %v", e)
	}
	if problem != "" {
		r.Violation(t, s, "concurrent:lock-lost", "%s", problem)
		return
	}
	// everything returned and closed: nothing of ours may stay locked
	st, perr := probe.Probe(path)
	if perr != nil {
		r.Harness(t, "probe: %v", perr)
	}
	if (st.Shared.Type != "none" && st.Shared.Pid == me) || (st.Pending.Type != "none" && st.Pending.Pid == me) {
		r.Violation(t, s, "concurrent:lock-left-behind", "after %d concurrent readers on their own handles returned and closed them, this process still holds %s", s.Churners+1, st)
	}
}
