// C06 — a read holds SQLite's SHARED lock from its first page read until it
// returns.
//
// The harness owns the schedule at pager-call and callback granularity: the
// real file pager is wrapped in a tracing pager (verif hook) whose hook runs
// side actions at generated event positions. Observers: an out-of-process
// F_GETLK probe (POSIX locks are invisible to their holder), the order of
// lock/page/unlock events, and a real SQLite COMMIT attempted meanwhile.
package c06

import (
	"bufio"
	"context"
	"database/sql"
	"encoding/json"
	"fmt"
	"io"
	"os"
	"os/exec"
	"path/filepath"
	"runtime"
	"strings"
	"testing"
	"time"

	"github.com/alicebob/sqlittle"
	sdb "github.com/alicebob/sqlittle/db"
	_ "github.com/alicebob/sqlittle/driver"
	"pgregory.net/rapid"

	"verif/locks"
	"verif/oracle"
	"verif/pagers"
	"verif/sqdb"
	"verif/vt"
)

var (
	env   *sqdb.Env
	probe *locks.Client
	peer  *peerClient
	other string // another database file
)

type peerClient struct {
	cmd *exec.Cmd
	in  io.WriteCloser
	out *bufio.Reader
	pid int
}

type peerResp struct {
	Rows int
	Err  string
	Held bool
}

func startPeer() (*peerClient, error) {
	cmd := exec.Command(locks.ToolPath("peer"))
	cmd.Stderr = os.Stderr
	in, err := cmd.StdinPipe()
	if err != nil {
		return nil, err
	}
	out, err := cmd.StdoutPipe()
	if err != nil {
		return nil, err
	}
	if err := cmd.Start(); err != nil {
		return nil, err
	}
	return &peerClient{cmd: cmd, in: in, out: bufio.NewReader(out), pid: cmd.Process.Pid}, nil
}

func (p *peerClient) call(cmd, path string) (peerResp, error) {
	var r peerResp
	b, _ := json.Marshal(map[string]string{"cmd": cmd, "path": path})
	if _, err := p.in.Write(append(b, '\n')); err != nil {
		return r, err
	}
	line, err := p.out.ReadBytes('\n')
	if err != nil {
		return r, err
	}
	return r, json.Unmarshal(line, &r)
}

func (p *peerClient) stop() {
	if p != nil && p.cmd != nil {
		p.in.Close()
		p.cmd.Wait()
	}
}

func setup(r *vt.Run, t *testing.T) {
	var err error
	if env, err = sqdb.NewEnv(); err != nil {
		r.Harness(t, "env: %v", err)
	}
	if probe, err = locks.StartClient(); err != nil {
		r.Harness(t, "lockprobe: %v", err)
	}
	if peer, err = startPeer(); err != nil {
		r.Harness(t, "peer: %v", err)
	}
	other = filepath.Join(env.Dir, "other.sqlite")
	res, err := env.Create("o", other, 1024, 0, []oracle.Stmt{{SQL: "CREATE TABLE t (a INTEGER PRIMARY KEY, b)"}, {SQL: "INSERT INTO t (b) VALUES (1), (2), (3)"}})
	sqdb.MustOK(r, t, "other db", res, err, 4)
	env.O.Close("o")
}

func teardown() {
	probe.Stop()
	peer.stop()
	env.Close()
}

type side struct {
	At   int
	Kind string
}

type spec struct {
	PageSize int
	Rows     int
	Op       string
	Arg      int
	Exit     string
	ExitAt   int
	Sides    []side
	// Writer: what a SQLite writer has left on disk before the call starts:
	// "" nothing, "open-txn" an open transaction with its journal (RESERVED
	// held), "hot-journal" the journal of a crashed transaction
	Writer string `json:",omitempty"`
	// FailedOpen: before the call an Open of the same file in this process
	// failed (the file was in WAL mode for a moment). Whatever that attempt
	// left behind must not hurt later reads (side action "gc" lets the
	// garbage collector finalise what it finds).
	FailedOpen bool `json:",omitempty"`
}

var ops = []string{"Select", "SelectDone", "SelectRowid", "IndexedSelect", "IndexedSelectEq", "PKSelect", "PKSelect-wr", "Columns", "Select-wr", "IndexedSelect-wr"}
var exits = []string{"normal", "normal", "stop", "error-column", "error-table", "error-index", "fault", "panic"}
var sideKinds = []string{"commit-attempt", "commit-attempt", "other-file-open-read-close", "peer-read", "peer-hold", "peer-hold-forgotten", "peer-hold-forgotten", "peer-release",
	"same-process-open", "same-process-read", "same-process-close", "same-process-open-close", "probe", "same-handle-nested-call", "same-process-close-then-read", "gc", "gc", "open-while-writer-pending", "open-while-writer-pending", "driver-failed-query", "driver-failed-query", "driver-connect", "driver-connect"}

func TestC06Held(t *testing.T) {
	vt.Exec(t, vt.Check[spec]{
		ID: "C06", Test: "TestC06Held",
		Setup: setup, Teardown: teardown,
		Gen: func(t *rapid.T) spec {
			s := spec{
				PageSize: rapid.SampledFrom([]int{512, 1024, 4096}).Draw(t, "ps"),
				Rows:     rapid.SampledFrom([]int{1, 5, 40, 120}).Draw(t, "rows"),
				Op:       rapid.SampledFrom(ops).Draw(t, "op"),
				Arg:      rapid.IntRange(0, 200).Draw(t, "arg"),
				Exit:     rapid.SampledFrom(exits).Draw(t, "exit"),
				ExitAt:   rapid.IntRange(1, 12).Draw(t, "exitat"),
				Writer:   rapid.SampledFrom([]string{"", "", "", "open-txn", "hot-journal", "raw-exclusive"}).Draw(t, "writer"),
			}
			s.FailedOpen = rapid.IntRange(0, 3).Draw(t, "failedopen") == 0
			n := rapid.IntRange(0, 4).Draw(t, "nsides")
			for i := 0; i < n; i++ {
				s.Sides = append(s.Sides, side{At: rapid.IntRange(0, 30).Draw(t, "at"), Kind: rapid.SampledFrom(sideKinds).Draw(t, "sk")})
			}
			return s
		},
		Run: run,
	})
}

func buildDB(r *vt.Run, t vt.TB, s spec, path string) {
	init := []oracle.Stmt{
		{SQL: "CREATE TABLE t (a INTEGER PRIMARY KEY, b, c TEXT)"},
		{SQL: "CREATE INDEX tb ON t (b)"},
		{SQL: "CREATE TABLE w (k TEXT PRIMARY KEY, v, u) WITHOUT ROWID"},
		{SQL: "CREATE INDEX wv ON w (v)"},
		{SQL: fmt.Sprintf("WITH RECURSIVE c(x) AS (SELECT 1 UNION ALL SELECT x+1 FROM c WHERE x < %d) INSERT INTO t (b, c) SELECT x%%5, 'row'||x||hex(zeroblob(40)) FROM c", s.Rows)},
		{SQL: fmt.Sprintf("WITH RECURSIVE c(x) AS (SELECT 1 UNION ALL SELECT x+1 FROM c WHERE x < %d) INSERT INTO w SELECT 'k'||x, x%%5, hex(zeroblob(30)) FROM c", s.Rows)},
	}
	res, err := env.Create("w", path, s.PageSize, 0, init)
	sqdb.MustOK(r, t, "create", res, err, len(init)+2)
}

func run(r *vt.Run, t vt.TB, s spec) {
	path := env.NewPath()
	defer sqdb.Remove(path)
	buildDB(r, t, s, path)
	defer env.O.Close("w")
	mypid := os.Getpid()

	if s.FailedOpen {
		// the file is in WAL mode for a moment; an Open in between fails
		if rows, err := env.O.Query("w", "PRAGMA journal_mode=WAL"); err != nil || len(rows) != 1 || string(rows[0][0].B) != "wal" {
			r.Harness(t, "switch to WAL: %v %v", rows, err)
		}
		if h, err := sqlittle.Open(path); err == nil {
			h.Close()
			r.Harness(t, "a WAL-mode file opens")
		}
		if rows, err := env.O.Query("w", "PRAGMA journal_mode=DELETE"); err != nil || len(rows) != 1 || string(rows[0][0].B) != "delete" {
			r.Harness(t, "switch back from WAL: %v %v", rows, err)
		}
	}
	real, err := sdb.VerifFilePager(path)
	if err != nil {
		r.Harness(t, "file pager: %v", err)
	}
	fault := &pagers.Fault{P: real}
	trace := &pagers.Trace{P: fault}
	d, err := sdb.VerifOpen(trace, path+"-journal")
	if err != nil {
		r.Harness(t, "open: %v", err)
	}
	hl := sqlittle.VerifWrap(d)

	var second *sqlittle.DB // another handle on the same file in this process
	var kept []*sqlittle.DB // more of them, closed after the call
	var pool *sql.DB        // database/sql on the same file
	var pools []*sql.DB     // more of them
	peerHolding := false
	lockLost := "" // set when a same-process action has (by POSIX rules) dropped our lock
	inOp := false
	ev := 0
	classes := map[string]bool{}
	sideRan := 0
	violated := false
	vsig, vmsg := "", ""

	violation := func(sig, format string, args ...interface{}) {
		if violated {
			return
		}
		if lockLost != "" {
			// the listed known finding: history shape = another handle of this
			// process on the same file was closed / unlocked during the call
			sig = "same-process-second-handle"
			format = "after " + lockLost + " on a second handle of this process: " + format
		}
		// reported after the call has returned and everything is cleaned up
		// (the hook runs inside the operation under test)
		violated = true
		vsig, vmsg = sig, fmt.Sprintf(format, args...)
	}
	// problems of the machinery noticed while the operation runs are reported
	// after it has returned (the hooks run inside the code under test)
	harnessMsg := ""
	harness := func(format string, args ...interface{}) {
		if harnessMsg == "" {
			harnessMsg = fmt.Sprintf(format, args...)
		}
	}
	checkHeld := func(where string) {
		st, err := probe.Probe(path)
		if err != nil {
			harness("probe: %v", err)
		}
		ok := st.Shared.Type == "read" && (st.Shared.Pid == mypid || (peerHolding && st.Shared.Pid == peer.pid))
		if peerHolding && st.Shared.Pid == peer.pid {
			return // F_GETLK reports one holder only; cannot tell about ours
		}
		if s.Writer == "raw-exclusive" {
			return
		}
		if s.Writer == "open-txn" && st.Shared.Type == "read" && st.Shared.Pid == env.O.Pid {
			return // the writer's open transaction holds SHARED as well: same limitation
		}
		if !ok {
			violation("lock-not-held:"+strings.SplitN(where, " ", 2)[0], "%s inside %s(%s exit): the shared range is not read-locked by this process (%s)", where, s.Op, s.Exit, st)
		}
	}
	commitAttempt := func(expectBusy bool, where string) {
		if err := env.O.Exec("w", "BEGIN IMMEDIATE"); err != nil {
			if oracle.IsBusy(err) {
				return
			}
			harness("begin immediate: %v", err)
		}
		if err := env.O.Exec("w", "INSERT INTO t (b, c) VALUES (99, 'by the writer')"); err != nil {
			harness("insert: %v", err)
		}
		err := env.O.Exec("w", "COMMIT")
		if err != nil && !oracle.IsBusy(err) {
			harness("commit: %v", err)
		}
		if err != nil {
			env.O.Exec("w", "ROLLBACK")
		}
		if expectBusy && err == nil {
			violation("writer-committed-during-read", "%s inside %s(%s exit): a SQLite writer committed while the read was in progress", where, s.Op, s.Exit)
		}
		if !expectBusy && err != nil {
			violation("writer-blocked-after-return", "%s: a SQLite writer still cannot commit: %v", where, err)
		}
	}
	curKind, nesting := "", false
	runSide := func(k, where string) {
		sideRan++
		classes["side:"+k] = true
		switch k {
		case "probe":
		case "commit-attempt":
			// blocked by our read, or by the reader parked in the peer process
			commitAttempt(inOp || peerHolding, where)
		case "other-file-open-read-close":
			h, err := sqlittle.Open(other)
			if err != nil {
				harness("open other: %v", err)
			}
			h.Select("t", func(sqlittle.Row) {}, "a")
			h.Close()
		case "peer-read":
			if !peerHolding {
				if pr, err := peer.call("read", path); err != nil || (pr.Err != "" && s.Writer != "hot-journal") {
					harness("peer read: %v %s", err, pr.Err)
				}
			}
		case "peer-hold":
			if !peerHolding {
				pr, err := peer.call("hold", path)
				if err != nil {
					harness("peer hold: %v", err)
				}
				peerHolding = pr.Held && pr.Err == ""
			}
		case "peer-hold-forgotten":
			// the reader in the other process is a one-shot helper: nothing
			// refers to its handle once the select runs, nobody will close it,
			// and the garbage collector runs inside its row callback. The read
			// lock is that call's, not the handle variable's: it is still
			// there when the callback has parked.
			if !peerHolding {
				pr, err := peer.call("hold-forgotten", path)
				if err != nil {
					harness("peer hold-forgotten: %v", err)
				}
				peerHolding = pr.Held && pr.Err == ""
				if peerHolding {
					classes["side:peer-parked-on-a-forgotten-handle"] = true
					st, perr := probe.Probe(path)
					if perr != nil {
						harness("probe: %v", perr)
					} else if !(st.Shared.Type == "read" && (st.Shared.Pid == peer.pid || st.Shared.Pid == mypid || st.Shared.Pid == env.O.Pid)) {
						violation("lock-not-held:forgotten-handle", "%s: another process is inside the row callback of a Select whose handle nothing refers to any more, after two garbage collections there: the shared range is not read-locked (%s)", where, st)
					}
				}
			}
		case "peer-release":
			if peerHolding {
				peer.call("release", "")
				peerHolding = false
			}
		case "same-process-open":
			if second == nil {
				second, _ = sqlittle.Open(path)
			}
		case "same-process-read":
			if second != nil {
				second.Select("t", func(sqlittle.Row) {}, "a")
				if inOp {
					lockLost = "a read (lock + unlock)"
				}
			}
		case "same-process-close":
			if second != nil {
				second.Close()
				second = nil
				if inOp {
					lockLost = "Close"
				}
			}
		case "same-handle-nested-call":
			// a select on the same handle from inside its own row callback:
			// refused or served, the lock of the outer call has to stay
			if curKind == "callback" && inOp {
				nesting = true
				func() {
					defer func() { recover() }()
					hl.SelectRowid("t", 1, "a")
				}()
				nesting = false
				classes["side:nested-call-inside-callback"] = true
			}
		case "gc":
			// finalisers of objects nobody holds any more run now (an open
			// file somebody forgot is closed by its finaliser, and a close
			// of any descriptor of the file drops the process' locks on it)
			runtime.GC()
			time.Sleep(3 * time.Millisecond)
			runtime.GC()
			time.Sleep(time.Millisecond)
			if s.FailedOpen {
				classes["side:gc-after-failed-open"] = true
			}
		case "same-process-close-then-read":
			// three handles: one is closed while the operation holds the lock
			// (its descriptor has to stay open until nobody reads), then
			// another one does a complete read of its own
			h1, err1 := sqlittle.Open(path)
			h2, err2 := sqlittle.Open(path)
			if err1 == nil {
				h1.Close()
			}
			if err2 == nil {
				h2.Select("t", func(sqlittle.Row) {}, "a")
				h2.Close()
			}
			classes["side:same-process-close-then-read"] = true
			if inOp {
				lockLost = "Close of one handle, then a read on another"
			}
		case "open-while-writer-pending":
			// a SQLite writer in another process has reached COMMIT and waits
			// in PENDING for our read to finish (the normal state of a writer
			// that commits while a reader is active); meanwhile this process
			// opens the same file once more - that may work or be refused,
			// but whatever it leaves behind must not cost the read its lock
			if !inOp || peerHolding || s.Writer != "" {
				return
			}
			if err := env.O.Exec("w", "BEGIN IMMEDIATE"); err != nil {
				if !oracle.IsBusy(err) {
					harness("begin immediate: %v", err)
				}
				return
			}
			if err := env.O.Exec("w", "INSERT INTO t (b, c) VALUES (98, 'by the waiting writer')"); err != nil {
				harness("insert: %v", err)
			}
			err := env.O.Exec("w", "COMMIT")
			if err == nil {
				violation("writer-committed-during-read", "%s inside %s(%s exit): a SQLite writer committed while the read was in progress", where, s.Op, s.Exit)
				return
			}
			if !oracle.IsBusy(err) {
				harness("commit: %v", err)
			}
			// the writer keeps PENDING now
			h, oerr := sqlittle.Open(path)
			if oerr == nil {
				kept = append(kept, h)
				classes["side:open-while-writer-pending:opened"] = true
			} else {
				classes["side:open-while-writer-pending:refused"] = true
			}
			h = nil
			runtime.GC()
			time.Sleep(3 * time.Millisecond)
			runtime.GC()
			time.Sleep(time.Millisecond)
			// the writer tries again
			if err := env.O.Exec("w", "COMMIT"); err == nil {
				violation("writer-committed-during-read", "%s inside %s(%s exit): this process opened the same file again (%v) while a SQLite writer was waiting in PENDING; after a garbage collection the writer's COMMIT goes through although the read is still in progress", where, s.Op, s.Exit, oerr)
				return
			} else if !oracle.IsBusy(err) {
				harness("commit: %v", err)
			}
			env.O.Exec("w", "ROLLBACK")
		case "driver-connect":
			// database/sql makes a new connection to the same file and uses it
			// for things that need no read of their own: a ping, an empty
			// transaction, a statement refused for its syntax, a prepared
			// statement that is never run. None of that may touch the locks
			// of a read in progress.
			p, err := sql.Open("sqlittle", path)
			if err != nil {
				harness("sql.Open: %v", err)
				return
			}
			pools = append(pools, p)
			p.Ping()
			if c, err := p.Conn(context.Background()); err == nil {
				c.Close()
			}
			if tx, err := p.Begin(); err == nil {
				tx.Rollback()
			}
			if rows, err := p.Query("SELECT FROM t"); err == nil {
				rows.Close()
			}
			if st, err := p.Prepare("SELECT a FROM t"); err == nil {
				st.Close()
			}
			runtime.GC()
			time.Sleep(2 * time.Millisecond)
			runtime.GC()
			if inOp {
				classes["side:driver-connect-inside-read"] = true
			}
		case "driver-failed-query":
			// the database/sql driver is asked for something it has to refuse
			// (unknown table, unknown column, not a SELECT, a syntax error) on
			// the same file; whatever it opened for that must be given back
			// properly - a descriptor left to the garbage collector takes the
			// process' locks along when it is finalised
			if pool == nil {
				var err error
				if pool, err = sql.Open("sqlittle", path); err != nil {
					harness("sql.Open: %v", err)
					return
				}
			}
			for _, q := range []string{"SELECT * FROM nosuchtable", "SELECT nosuchcolumn FROM t", "CREATE TABLE x (a)", "SELECT FROM t"} {
				if rows, err := pool.Query(q); err == nil {
					for rows.Next() {
					}
					rows.Close()
				}
				if st, err := pool.Prepare(q); err == nil {
					if rows, err := st.Query(); err == nil {
						rows.Close()
					}
					st.Close()
				}
			}
			runtime.GC()
			time.Sleep(3 * time.Millisecond)
			runtime.GC()
			time.Sleep(time.Millisecond)
			if inOp {
				classes["side:driver-failed-query-inside-read"] = true
			}
		case "same-process-open-close":
			if h, err := sqlittle.Open(path); err == nil {
				h.Close()
				if inOp {
					lockLost = "Open + Close"
				}
			}
		}
	}
	atEvent := func(kind string) {
		curKind = kind
		if inOp && (kind == "page" || kind == "callback") {
			checkHeld(fmt.Sprintf("%s event %d", kind, ev))
		}
		for _, sd := range s.Sides {
			if sd.At == ev {
				runSide(sd.Kind, fmt.Sprintf("side action %s at event %d (%s)", sd.Kind, ev, kind))
				if inOp && (kind == "page" || kind == "callback") {
					checkHeld(fmt.Sprintf("%s event %d after side action %s", kind, ev, sd.Kind))
				}
			}
		}
		ev++
	}
	trace.Hook = func(e pagers.Event, _ int) {
		if nesting {
			return // events of the nested call itself
		}
		switch e.Kind {
		case "lock":
			inOp = true
			atEvent("lock")
		case "unlock":
			// the event is emitted after the pager has unlocked
			inOp = false
			atEvent("unlock")
		case "page":
			atEvent("page")
		}
	}

	// ---- what a writer left behind before the call
	rawHeld := false
	switch s.Writer {
	case "raw-exclusive":
		// another process write-locks the shared range without holding the
		// pending byte: the call gets PENDING, fails on SHARED and has to give
		// PENDING back
		pr, err := peer.call("rawlock", path)
		if err != nil || pr.Err != "" {
			r.Harness(t, "raw lock: %v %s", err, pr.Err)
		}
		rawHeld = true
		classes["writer:raw-exclusive"] = true
	}
	switch s.Writer {
	case "open-txn", "hot-journal":
		if err := env.O.Open("w2", path); err != nil {
			r.Harness(t, "open w2: %v", err)
		}
		defer env.O.Close("w2")
		res, err := env.O.Script("w2", []oracle.Stmt{{SQL: "BEGIN IMMEDIATE"}, {SQL: "INSERT INTO t (b, c) VALUES (77, 'uncommitted')"}}, true)
		sqdb.MustOK(r, t, "open transaction", res, err, 2)
		if _, err := os.Stat(path + "-journal"); err != nil {
			r.Harness(t, "the open transaction has no journal on disk: %v", err)
		}
		if s.Writer == "hot-journal" {
			// keep the journal of the transaction, as if the writer had died
			b, err := os.ReadFile(path + "-journal")
			if err != nil {
				r.Harness(t, "read journal: %v", err)
			}
			if err := env.O.Exec("w2", "ROLLBACK"); err != nil {
				r.Harness(t, "rollback: %v", err)
			}
			// SQLite writes the magic and the record count into the header only
			// when it syncs the journal; do what that sync would have done
			if len(b) < 512 {
				r.Harness(t, "journal of the open transaction has only %d bytes", len(b))
			}
			copy(b[0:8], []byte{0xd9, 0xd5, 0x05, 0xf9, 0x20, 0xa1, 0x63, 0xd7})
			b[8], b[9], b[10], b[11] = 0, 0, 0, 1
			if err := os.WriteFile(path+"-journal", b, 0o644); err != nil {
				r.Harness(t, "write journal: %v", err)
			}
		}
		classes["writer:"+s.Writer] = true
	}

	// ---- the operation
	rows := 0
	stopAt, panicAt := -1, -1
	switch s.Exit {
	case "stop":
		stopAt = s.ExitAt
	case "panic":
		panicAt = s.ExitAt
	case "fault":
		fault.K = fault.Count + s.ExitAt
		fault.Mode = []string{"eio", "eof", "ff"}[s.Arg%3]
	}
	cb := func(row sqlittle.Row) {
		rows++
		atEvent("callback")
		if rows == panicAt {
			panic("callback panics")
		}
	}
	cbDone := func(row sqlittle.Row) bool {
		cb(row)
		return rows == stopAt
	}
	table, index, cols := "t", "tb", []string{"a", "b", "c"}
	if strings.HasSuffix(s.Op, "-wr") {
		table, index, cols = "w", "wv", []string{"k", "v", "u"}
	}
	switch s.Exit {
	case "error-column":
		cols = append(cols, "nosuchcolumn")
	case "error-table":
		table = "nosuchtable"
	case "error-index":
		index = "nosuchindex"
	}
	evStart := len(trace.Events)
	var opErr error
	var pan interface{}
	func() {
		defer func() { pan = recover() }()
		switch s.Op {
		case "Select", "Select-wr":
			opErr = hl.Select(table, cb, cols...)
		case "SelectDone":
			opErr = hl.SelectDone(table, cbDone, cols...)
		case "SelectRowid":
			var row sqlittle.Row
			row, opErr = hl.SelectRowid(table, int64(1+s.Arg%(s.Rows+1)), cols...)
			if row != nil {
				cb(row)
			}
		case "IndexedSelect", "IndexedSelect-wr":
			opErr = hl.IndexedSelect(table, index, cb, cols...)
		case "IndexedSelectEq":
			opErr = hl.IndexedSelectEq(table, index, sqlittle.Key{int64(s.Arg % 5)}, cb, cols...)
		case "PKSelect":
			opErr = hl.PKSelect(table, sqlittle.Key{int64(1 + s.Arg%(s.Rows+1))}, cb, cols...)
		case "PKSelect-wr":
			opErr = hl.PKSelect(table, sqlittle.Key{fmt.Sprintf("k%d", 1+s.Arg%(s.Rows+1))}, cb, cols...)
		case "Columns":
			_, opErr = hl.Columns(table)
		}
	}()
	_ = opErr
	returnedInOp := inOp
	inOp = false

	if rawHeld {
		peer.call("rawunlock", "")
		if opErr == nil && pan == nil && s.Exit == "normal" {
			violation("read-under-foreign-exclusive-lock", "%s succeeds although another process holds a write lock on the shared range", s.Op)
		}
	}
	// ---- after the call
	// I2: every page read of the operation lies between its lock and unlock
	locked := false
	for _, e := range trace.Events[evStart:] {
		switch e.Kind {
		case "lock":
			locked = true
		case "unlock":
			locked = false
		case "page":
			if !locked {
				violation("page-read-outside-lock", "%s(%s exit): page %d was read while the handle did not hold the lock", s.Op, s.Exit, e.Page)
			}
		}
	}
	if returnedInOp || locked {
		violation("not-unlocked-at-return", "%s(%s exit, panic=%v): returned without releasing the read lock", s.Op, s.Exit, pan)
	}
	// I3: nothing of ours stays locked
	st, err := probe.Probe(path)
	if err != nil {
		r.Harness(t, "probe: %v", err)
	}
	if (st.Shared.Type != "none" && st.Shared.Pid == mypid) || (st.Pending.Type != "none" && st.Pending.Pid == mypid) {
		violation("lock-left-behind", "%s(%s exit, panic=%v) returned but this process still holds %s", s.Op, s.Exit, pan, st)
	}
	if peerHolding {
		peer.call("release", "")
		peerHolding = false
	}
	if s.Writer == "open-txn" {
		if err := env.O.Exec("w2", "ROLLBACK"); err != nil {
			r.Harness(t, "rollback of the open transaction: %v", err)
		}
	}
	if s.Writer == "hot-journal" && opErr == nil && pan == nil && s.Exit == "normal" && lockLost == "" {
		violation("read-with-hot-journal", "%s returned without error although the journal of a crashed transaction is present", s.Op)
	}
	lockLost = ""
	if s.Writer == "raw-exclusive" && !violated {
		// the ordinary retry after a refused read: the other process has let
		// go, the same handle reads again, and this read has to hold the lock
		trace.Hook = nil
		fault.K = 0 // (no injected fault in the retry)
		first := true
		rerr := hl.Select("t", func(sqlittle.Row) {
			if first {
				first = false
				checkHeld("first row callback of the read retried after a refused one")
				commitAttempt(true, "first row callback of the read retried after a refused one")
			}
		}, "a")
		if rerr != nil {
			violation("retry-fails", "Select on the same handle after the foreign write lock is gone: %v", rerr)
		}
		classes["retry-after-refused-read"] = true
		st, err := probe.Probe(path)
		if err != nil {
			r.Harness(t, "probe: %v", err)
		}
		if (st.Shared.Type != "none" && st.Shared.Pid == mypid) || (st.Pending.Type != "none" && st.Pending.Pid == mypid) {
			violation("lock-left-behind", "the read retried after a refused one returned but this process still holds %s", st)
		}
	}
	// I4': writers can proceed
	commitAttempt(false, fmt.Sprintf("after %s(%s exit)", s.Op, s.Exit))
	if second != nil {
		second.Close()
	}
	for _, h := range kept {
		h.Close()
	}
	if pool != nil {
		pool.Close()
	}
	for _, p := range pools {
		p.Close()
	}
	d.Close()

	if harnessMsg != "" {
		r.Harness(t, "%s", harnessMsg)
	}
	if violated {
		if r.Violation(t, s, vsig, "%s", vmsg) {
			return
		}
		classes["known-finding-shape"] = true
	}
	cls := []string{"op:" + s.Op, "exit:" + s.Exit, fmt.Sprintf("ps=%d", s.PageSize)}
	for c := range classes {
		cls = append(cls, c)
	}
	r.Case(s, sideRan > 0, cls...)
	r.Count("events", ev)
}

// ---- the database/sql driver: the lock is held while a result set is open

type drvSpec struct {
	PageSize int
	Rows     int
	ReadRows int
	End      string // close, cancel, drain
}

func TestC06Driver(t *testing.T) {
	vt.Exec(t, vt.Check[drvSpec]{
		ID: "C06", Test: "TestC06Driver",
		Setup: setup, Teardown: teardown,
		Gen: func(t *rapid.T) drvSpec {
			return drvSpec{
				PageSize: rapid.SampledFrom([]int{512, 4096}).Draw(t, "ps"), Rows: rapid.SampledFrom([]int{3, 40, 120}).Draw(t, "rows"),
				ReadRows: rapid.IntRange(1, 6).Draw(t, "readrows"), End: rapid.SampledFrom([]string{"close", "cancel", "drain"}).Draw(t, "end"),
			}
		},
		Run: func(r *vt.Run, t vt.TB, s drvSpec) {
			path := env.NewPath()
			defer sqdb.Remove(path)
			buildDB(r, t, spec{PageSize: s.PageSize, Rows: s.Rows}, path)
			defer env.O.Close("w")
			mypid := os.Getpid()
			r.Case(s, true, "driver:"+s.End)
			db, err := sql.Open("sqlittle", path)
			if err != nil {
				r.Harness(t, "sql.Open: %v", err)
			}
			defer db.Close()
			ctx, cancel := context.WithCancel(context.Background())
			defer cancel()
			rows, err := db.QueryContext(ctx, "SELECT a, b FROM t")
			if err != nil {
				r.Harness(t, "query: %v", err)
			}
			n := 0
			for n < s.ReadRows && rows.Next() {
				n++
				var a, b interface{}
				rows.Scan(&a, &b)
				if n < s.Rows { // the producer is parked handing over the next row
					st, err := probe.Probe(path)
					if err != nil {
						r.Harness(t, "probe: %v", err)
					}
					if !(st.Shared.Type == "read" && st.Shared.Pid == mypid) {
						// the producer may just have finished: re-check that rows remain
						r.Violation(t, s, "driver:lock-not-held", "after %d of %d rows through database/sql the shared range is not read-locked by this process (%s)", n, s.Rows, st)
						rows.Close()
						return
					}
				}
			}
			switch s.End {
			case "close":
				rows.Close()
			case "cancel":
				cancel()
				rows.Close()
			default:
				for rows.Next() {
				}
				rows.Close()
			}
			// Close waits for the producer, so the read has returned: nothing of
			// ours may remain locked at this point
			st, err := probe.Probe(path)
			if err != nil {
				r.Harness(t, "probe: %v", err)
			}
			if (st.Shared.Type != "none" && st.Shared.Pid == mypid) || (st.Pending.Type != "none" && st.Pending.Pid == mypid) {
				r.Violation(t, s, "driver:lock-left-behind", "rows.Close (%s after %d rows) returned, this process still holds %s", s.End, n, st)
			}
		},
	})
}
