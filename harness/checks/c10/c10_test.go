// C10 — table and index definitions are interpreted the way SQLite
// interprets them. Differential over generated CREATE TABLE / CREATE INDEX
// programs: SQLite's own catalogue (table_xinfo, table_list, index_list,
// index_xinfo) of the file it wrote vs sqlittle's Schema / Tables / Indexes /
// Columns.
package c10

import (
	"fmt"
	"sort"
	"strings"
	"testing"
	"verif/fold"

	"github.com/alicebob/sqlittle"
	sdb "github.com/alicebob/sqlittle/db"
	sqsql "github.com/alicebob/sqlittle/sql"
	"pgregory.net/rapid"

	"verif/e1"
	"verif/sqdb"
	"verif/val"
	"verif/vt"
)

var env *sqdb.Env

type spec struct {
	DB e1.Spec
}

func TestC10Schema(t *testing.T) {
	vt.Exec(t, vt.Check[spec]{
		ID: "C10", Test: "TestC10Schema",
		Setup: func(r *vt.Run, t *testing.T) {
			var err error
			if env, err = sqdb.NewEnv(); err != nil {
				r.Harness(t, "env: %v", err)
			}
		},
		Teardown: func() { env.Close() },
		Gen: func(t *rapid.T) spec {
			s := e1.Gen(t, e1.Opts{MaxTables: 2, Indexes: true, PageSizes: []int{1024}})
			// definitions only: no rows needed
			for i := range s.Tables {
				s.Tables[i].Rows = nil
				s.Tables[i].Bulk = nil
			}
			if rapid.IntRange(0, 3).Draw(t, "alter") == 0 {
				tn := s.Tables[0].Def.Ident.SQL
				s.History = append(s.History, fmt.Sprintf("ALTER TABLE %s ADD COLUMN %s %s", tn, rapid.SampledFrom([]string{"added", "\"new col\"", "[x y]"}).Draw(t, "aname"),
					rapid.SampledFrom([]string{"", "INTEGER", "TEXT DEFAULT 'd'", "INT NOT NULL DEFAULT 0", "REFERENCES other(id)", "TEXT COLLATE NOCASE"}).Draw(t, "atype")))
			}
			if rapid.IntRange(0, 4).Draw(t, "renamecol") == 0 {
				// SQLite rewrites the stored CREATE TABLE / CREATE INDEX text
				tb := s.Tables[0].Def
				c := rapid.SampledFrom(tb.Cols).Draw(t, "rcol")
				s.History = append(s.History, fmt.Sprintf("ALTER TABLE %s RENAME COLUMN %s TO %s", tb.Ident.SQL, c.Ident.SQL,
					rapid.SampledFrom([]string{"renamed_col", "\"re named\"", "[Ren]", "rowid2"}).Draw(t, "rname")))
			}
			if rapid.IntRange(0, 5).Draw(t, "dropcol") == 0 {
				tb := s.Tables[0].Def
				c := rapid.SampledFrom(tb.Cols).Draw(t, "dcol")
				s.History = append(s.History, fmt.Sprintf("ALTER TABLE %s DROP COLUMN %s", tb.Ident.SQL, c.Ident.SQL))
			}
			if rapid.IntRange(0, 3).Draw(t, "other") == 0 {
				// objects that are no ordinary tables or indexes
				tn := s.Tables[0].Def.Ident.SQL
				s.History = append(s.History, rapid.SampledFrom([]string{
					"CREATE VIEW v1 AS SELECT * FROM " + tn,
					"CREATE TRIGGER tr1 AFTER INSERT ON " + tn + " BEGIN SELECT 1; END",
					"ANALYZE",
					"CREATE VIRTUAL TABLE ft USING fts5(x)",
					"CREATE VIRTUAL TABLE rt USING rtree(id, a, b)",
					"CREATE TEMP TABLE tmp1 (a)",
				}).Draw(t, "otherobj"))
			}
			if rapid.IntRange(0, 5).Draw(t, "rename") == 0 {
				s.History = append(s.History, fmt.Sprintf("ALTER TABLE %s RENAME TO %s", s.Tables[len(s.Tables)-1].Def.Ident.SQL, "renamed_table"))
			}
			return spec{DB: s}
		},
		Run: run,
	})
}

func lowerSet(xs []string) string {
	ys := append([]string{}, xs...)
	for i := range ys {
		ys[i] = fold.Lower(ys[i])
	}
	sort.Strings(ys)
	return strings.Join(ys, ",")
}

func normColl(c string) string {
	if c == "" {
		return "binary"
	}
	return fold.Lower(c)
}

func interacting(def string) bool {
	u := fold.Upper(def)
	n := strings.Count(u, "UNIQUE") + strings.Count(u, "PRIMARY KEY")
	return n >= 2 || (n >= 1 && (strings.Contains(u, "COLLATE") || strings.Contains(u, "WITHOUT ROWID") || strings.Contains(u, "DESC")))
}

func run(r *vt.Run, t vt.TB, s spec) {
	path := env.NewPath()
	defer sqdb.Remove(path)
	created, _ := e1.Build(r, t, env, s.DB, path)
	any := false
	for _, c := range created {
		any = any || c
	}
	if !any {
		r.Exclude("sqlite-rejects-every-create-table")
		return
	}
	if err := env.O.Open("q", path); err != nil {
		r.Harness(t, "open: %v", err)
	}
	defer env.O.Close("q")
	db, err := sqlittle.Open(path)
	if err != nil {
		r.Violation(t, s, "open-error", "a database written by SQLite does not open: %v", err)
		return
	}
	defer db.Close()
	low := sqlittle.VerifLow(db)

	// object names
	master, err := env.O.Query("q", "SELECT type, name FROM sqlite_master ORDER BY rowid")
	if err != nil {
		r.Harness(t, "sqlite_master: %v", err)
	}
	var wantTables, wantIndexes []string
	for _, row := range master {
		switch string(row[0].B) {
		case "table":
			wantTables = append(wantTables, string(row[1].B))
		case "index":
			wantIndexes = append(wantIndexes, string(row[1].B))
		}
	}
	gotTables, err := low.Tables()
	if err != nil {
		r.Violation(t, s, "tables-error", "Tables(): %v", err)
		return
	}
	gotIndexes, err := low.Indexes()
	if err != nil {
		r.Violation(t, s, "indexes-error", "Indexes(): %v", err)
		return
	}
	if lowerSet(gotTables) != lowerSet(wantTables) {
		r.Violation(t, s, "tables-differ", "Tables() = %v, sqlite_master has %v", gotTables, wantTables)
		return
	}
	if lowerSet(gotIndexes) != lowerSet(wantIndexes) {
		r.Violation(t, s, "indexes-differ", "Indexes() = %v, sqlite_master has %v", gotIndexes, wantIndexes)
		return
	}

	classes := []string{}
	nontrivial := false
	for _, name := range wantTables {
		if strings.HasPrefix(name, "sqlite_") {
			continue
		}
		sqlRow, _ := env.O.Query("q", "SELECT sql FROM sqlite_master WHERE name = CAST(? AS TEXT)", valText(name))
		def := ""
		if len(sqlRow) == 1 {
			def = string(sqlRow[0][0].B)
		}
		var tdef *e1.TableSpec
		for i := range s.DB.Tables {
			if fold.Equal(s.DB.Tables[i].Def.Ident.Name, name) || name == "renamed_table" && i == len(s.DB.Tables)-1 {
				tdef = &s.DB.Tables[i]
			}
		}
		if tdef != nil && e1.IntegerArgsPK(tdef.Def) {
			r.Count("shape:integer-with-type-arguments-as-primary-key", 1)
		}
		fail := func(sig, format string, args ...interface{}) {
			r.Violation(t, s, sig, "%s: %s", def, fmt.Sprintf(format, args...))
		}
		cat := e1.ReadCatalog(r, t, env.O, "q", name)
		sch, err := low.Schema(name)
		cols, cerr := db.Columns(name)
		if err != nil {
			classes = append(classes, "definition-rejected")
			if cerr == nil {
				fail("columns-without-schema", "Schema fails (%v) but Columns returns %v", err, cols)
				return
			}
			continue
		}
		classes = append(classes, "definition-accepted")
		if interacting(def) {
			nontrivial = true
			classes = append(classes, "interacting-constraints")
		}
		hidden := false
		var wantCols []string
		for _, c := range cat.Columns {
			if c.Hidden != 0 {
				hidden = true
			}
			wantCols = append(wantCols, c.Name)
		}
		if hidden {
			fail("generated-column-accepted", "the table has generated columns (%v) which sqlittle does not implement, yet it accepts the definition", wantCols)
			return
		}
		var gotCols []string
		for _, c := range sch.Columns {
			gotCols = append(gotCols, c.Column)
		}
		// identifiers are case-insensitive in SQL: names are compared that way
		if !fold.Equal(strings.Join(gotCols, "\x00"), strings.Join(wantCols, "\x00")) {
			fail("columns-differ", "columns %q, SQLite %q", gotCols, wantCols)
			return
		}
		if cerr != nil || !fold.Equal(strings.Join(cols, "\x00"), strings.Join(wantCols, "\x00")) {
			fail("columns-differ", "Columns() = %q (%v), SQLite %q", cols, cerr, wantCols)
			return
		}
		if sch.WithoutRowid != cat.WithoutRowid {
			fail("without-rowid-differs", "WithoutRowid=%v, SQLite %v", sch.WithoutRowid, cat.WithoutRowid)
			return
		}
		// which column aliases the rowid? SQLite: the single pk column of a
		// rowid table for which no pk autoindex exists
		// (names carry a marker: a column may have the empty name)
		const none = "\x00none"
		alias := none
		if !cat.WithoutRowid {
			var pkcols []string
			for _, c := range cat.Columns {
				if c.PK > 0 {
					pkcols = append(pkcols, c.Name)
				}
			}
			hasPKIndex := false
			for _, ii := range cat.Indexes {
				if ii.Origin == "pk" {
					hasPKIndex = true
				}
			}
			if len(pkcols) == 1 && !hasPKIndex {
				alias = pkcols[0]
			}
		}
		gotAlias := none
		for _, c := range sch.Columns {
			if c.Rowid {
				if gotAlias != none {
					fail("two-rowid-aliases", "columns %q and %q both alias the rowid", gotAlias, c.Column)
					return
				}
				gotAlias = c.Column
			}
		}
		if !fold.Equal(gotAlias, alias) || sch.RowidPK != (alias != none) {
			fail("rowid-alias-differs", "rowid alias column %q (RowidPK=%v), SQLite %q", gotAlias, sch.RowidPK, alias)
			return
		}
		// primary key columns
		if cat.WithoutRowid {
			if cat.PKIndex == nil {
				r.Harness(t, "no pk index for WITHOUT ROWID table %s", name)
			}
			var wantPK []string
			for _, x := range cat.PKIndex.Cols {
				if x.Key {
					d := "ASC"
					if x.Desc {
						d = "DESC"
					}
					wantPK = append(wantPK, fold.Lower(x.Name)+"/"+normColl(x.Coll)+"/"+d)
				}
			}
			var gotPK []string
			for _, c := range sch.PK {
				gotPK = append(gotPK, fold.Lower(c.Column)+"/"+normColl(c.Collate)+"/"+c.SortOrder.String())
			}
			if strings.Join(gotPK, ",") != strings.Join(wantPK, ",") {
				fail("pk-differs", "primary key %v, SQLite %v", gotPK, wantPK)
				return
			}
			// storage order of the columns: pk columns first, then the rest
			order := sqlittle.VerifStoreOrder(sch)
			wantOrder := make([]int, len(cat.Columns))
			pos := 0
			seen := map[string]bool{}
			for _, x := range cat.PKIndex.Cols {
				// (a key may hold a column twice, under two collations: the
				// record then stores it twice; the first copy is as good as any)
				if !seen[fold.Lower(x.Name)] {
					seen[fold.Lower(x.Name)] = true
					for i, c := range cat.Columns {
						if fold.Equal(c.Name, x.Name) {
							wantOrder[i] = pos
						}
					}
				}
				pos++
			}
			if len(order) > len(wantOrder) {
				order = order[:len(wantOrder)] // one entry per column is what the callers use
			}
			if fmt.Sprint(order) != fmt.Sprint(wantOrder) {
				fail("store-order-differs", "column store order %v, SQLite %v", order, wantOrder)
				return
			}
		} else {
			wantPKName := ""
			for _, ii := range cat.Indexes {
				if ii.Origin == "pk" {
					wantPKName = ii.Name
				}
			}
			if !fold.Equal(sch.PrimaryKey, wantPKName) {
				fail("pk-index-differs", "primary key index %q, SQLite %q", sch.PrimaryKey, wantPKName)
				return
			}
			if wantPKName == "" && alias == none {
				// no primary key at all: a primary-key select has nothing to go
				// by and says so, whatever the table's indexes are called
				n := 0
				if err := db.PKSelect(name, sqlittle.Key{}, func(sqlittle.Row) { n++ }); err == nil {
					fail("pk-invented", "SQLite gives the table no primary key; PKSelect with the empty key succeeds (%d rows; indexes %v)", n, indexNames(cat))
					return
				}
				r.Count("no-primary-key-tables-asked-by-primary-key", 1)
			}
		}
		// an index SQLite has and sqlittle does not report: fine when its
		// definition is outside the grammar (the index is left out) - not when
		// the library's own parser reads that definition without complaint
		for _, ii := range cat.Indexes {
			reported := false
			for _, six := range sch.Indexes {
				if fold.Equal(six.Index, ii.Name) {
					reported = true
				}
			}
			if reported || ii.Origin != "c" {
				continue
			}
			isql, _ := env.O.Query("q", "SELECT sql FROM sqlite_master WHERE type = 'index' AND name = CAST(? AS TEXT)", valText(ii.Name))
			if len(isql) != 1 || isql[0][0].T != 't' {
				continue
			}
			if st, perr := sqsql.Parse(string(isql[0][0].B)); perr == nil {
				if _, ok := st.(sqsql.CreateIndexStmt); ok {
					fail("index-left-out-though-understood", "index %q (%s) is missing from the schema (which has %d indexes) although its definition parses", ii.Name, isql[0][0].B, len(sch.Indexes))
					return
				}
			}
			r.Count("indexes-left-out-for-their-definition", 1)
		}
		// every index sqlittle reports must exist in SQLite under that name
		// with exactly those key columns, collations and directions
		for _, six := range sch.Indexes {
			var ii *e1.IndexInfo
			for k := range cat.Indexes {
				if fold.Equal(cat.Indexes[k].Name, six.Index) {
					ii = &cat.Indexes[k]
				}
			}
			if ii == nil {
				fail("index-invented", "reports index %q (%+v) which SQLite does not have (it has %v)", six.Index, six.Columns, indexNames(cat))
				return
			}
			var want []string
			for _, x := range ii.Cols {
				if !x.Key {
					continue
				}
				d := "ASC"
				if x.Desc {
					d = "DESC"
				}
				n := fold.Lower(x.Name)
				if x.Cid == -2 {
					n = "<expr>"
				}
				if x.Cid == -1 {
					n = "<rowid>"
				}
				want = append(want, n+"/"+normColl(x.Coll)+"/"+d)
			}
			var got []string
			for _, c := range six.Columns {
				n := fold.Lower(c.Column)
				coll := normColl(c.Collate)
				if c.Expression != "" {
					n = "<expr>"
				}
				got = append(got, n+"/"+coll+"/"+c.SortOrder.String())
			}
			// (expression columns carry the collation given with them, BINARY otherwise)
			same := len(got) == len(want)
			for k := 0; same && k < len(got); k++ {
				same = got[k] == want[k]
			}
			if !same {
				fail("index-columns-differ", "index %q key columns %v, SQLite %v", six.Index, got, want)
				return
			}
			classes = append(classes, "index:"+ii.Origin)
			// appended columns of an index on a WITHOUT ROWID table
			if cat.WithoutRowid {
				// where sqlittle expects the primary key columns inside the
				// index entry must be where SQLite stores a column of that name
				// (SQLite may store a key column twice when collations differ;
				// either copy holds the same value)
				pos, _ := sqlittle.VerifIndexLayout(sch, &six)
				if len(pos) != len(sch.PK) {
					fail("index-appended-columns-differ", "index %q: %d primary key positions for %d primary key columns", six.Index, len(pos), len(sch.PK))
					return
				}
				for k, p := range pos {
					if p < 0 || p >= len(ii.Cols) || !fold.Equal(ii.Cols[p].Name, sch.PK[k].Column) {
						var wantAll []string
						for _, x := range ii.Cols {
							wantAll = append(wantAll, x.Name)
						}
						fail("index-appended-columns-differ", "index %q: primary key column %q expected at position %d of the index entry, SQLite stores %q", six.Index, sch.PK[k].Column, p, wantAll)
						return
					}
				}
				classes = append(classes, "index:appended-columns-checked")
			}
		}
	}
	r.Case(s, nontrivial, classes...)
}

func indexNames(c *e1.Catalog) []string {
	var out []string
	for _, ii := range c.Indexes {
		out = append(out, ii.Name)
	}
	return out
}

var _ = sdb.ErrCorrupted
var _ = sqsql.Asc

func valText(s string) val.V { return val.Text(s) }
