package c12

// Structural damage inside a record: a serial type in the header of one table
// row announces more bytes than the record has. The low-level lookup of that
// row (Table.Rowid) fails, having decoded the columns in front of the damage.
// Whatever the high-level API builds on that lookup has met a read failure and
// must report it: an error - never success with the decoded part filled up
// with NULLs or defaults.
//
// The oracle is the layering itself: the row is "damaged" when the library's
// own low-level lookup says so on this image; the rows in front of it are the
// builder's.

import (
	"fmt"
	"testing"

	"github.com/alicebob/sqlittle"
	"pgregory.net/rapid"

	"verif/bt"
	"verif/btgen"
	"verif/val"
	"verif/vt"
)

type dmgSpec struct {
	Img  bt.Image
	Seed uint64
}

func TestC12DamagedRecord(t *testing.T) {
	vt.Exec(t, vt.Check[dmgSpec]{
		ID: "C12", Test: "TestC12DamagedRecord",
		Gen: func(t *rapid.T) dmgSpec {
			return dmgSpec{
				Img:  btgen.Image(t, btgen.Opts{MaxRows: 25, Indexes: true, RowidAlias: true, PageSizes: []int{512, 1024}}),
				Seed: rapid.Uint64().Draw(t, "seed"),
			}
		},
		Run: runDamaged,
	})
}

func runDamaged(r *vt.Run, t vt.TB, s dmgSpec) {
	built, err := bt.Build(&s.Img)
	if err != nil {
		r.Exclude("layout-impossible")
		return
	}
	bt0 := built.Tables["t"]
	if bt0 == nil || bt0.Spec.WithoutRowid || len(bt0.Rows) == 0 {
		r.Exclude("no-rowid-table-with-rows")
		return
	}
	tab := bt0.Spec
	cols := tab.ColNames()
	rs := s.Seed
	next := func(n int) int {
		rs = rs*6364136223846793005 + 1442695040888963407
		return int((rs >> 33) % uint64(n))
	}
	var cands []int
	for i, ref := range built.Refs {
		if ref.Kind == "rec.serial" && ref.Len == 1 {
			cands = append(cands, i)
		}
	}
	if len(cands) == 0 {
		r.Exclude("no-one-byte-serial-type")
		return
	}
	// look for a damage that the low-level lookup of exactly one row of t
	// notices, the catalogue staying readable
	for try := 0; try < 16; try++ {
		ref := built.Refs[cands[next(len(cands))]]
		img := append([]byte{}, built.Img...)
		if img[ref.Off] == 0x7f {
			continue
		}
		img[ref.Off] = 0x7f // TEXT of 57 bytes
		d, _, err := bt.Open(img)
		if err != nil {
			continue
		}
		low, err := d.Table("t")
		if err != nil {
			d.Close()
			continue
		}
		var damaged []int64
		for _, row := range bt0.Rows {
			d.RLock()
			_, lerr := low.Rowid(row.Rowid)
			d.RUnlock()
			if lerr != nil {
				damaged = append(damaged, row.Rowid)
			}
		}
		if len(damaged) != 1 {
			d.Close()
			continue
		}
		x := damaged[0]
		hl := sqlittle.VerifWrap(d)
		var before []string
		for _, row := range bt0.Rows {
			if row.Rowid == x {
				break
			}
			before = append(before, val.Row(tab.Logical(row)).String())
		}
		where := fmt.Sprintf("serial type at offset %d (page %d) set to 127; the low-level lookup of rowid %d fails", ref.Off, ref.Page, x)
		// the point lookups of that row
		row, err := hl.SelectRowid("t", x, cols...)
		if err == nil {
			d.Close()
			r.Violation(t, s, "damaged:unreported:SelectRowid", "%s, SelectRowid(%d) reports success with %s", where, x, renderRow(row))
			return
		}
		if tab.RowidAlias {
			var got []string
			err := hl.PKSelect("t", sqlittle.Key{x}, func(row sqlittle.Row) { got = append(got, renderRow(row)) }, cols...)
			if err == nil {
				d.Close()
				r.Violation(t, s, "damaged:unreported:PKSelect", "%s, PKSelect(%d) reports success with %v", where, x, got)
				return
			}
		}
		// the full scan: the rows in front of it, then the error
		var got []string
		err = hl.Select("t", func(row sqlittle.Row) { got = append(got, renderRow(row)) }, cols...)
		if err == nil {
			d.Close()
			r.Violation(t, s, "damaged:unreported:Select", "%s, Select reports success with %d rows", where, len(got))
			return
		}
		for i := range got {
			if i >= len(before) || got[i] != before[i] {
				d.Close()
				r.Violation(t, s, "damaged:wrong-row", "%s, Select delivers %s as row %d before its error; the rows in front of the damaged one are %v", where, got[i], i, before)
				return
			}
		}
		// through every index: each entry leads to its table row
		nidx := 0
		for iname := range bt0.Indexes {
			n := 0
			err := hl.IndexedSelect("t", iname, func(sqlittle.Row) { n++ }, cols...)
			if err == nil {
				d.Close()
				r.Violation(t, s, "damaged:unreported:IndexedSelect", "%s, IndexedSelect(%s) reports success with %d rows", where, iname, n)
				return
			}
			nidx++
		}
		d.Close()
		r.Case(s, true, fmt.Sprintf("damaged:alias=%v", tab.RowidAlias), fmt.Sprintf("damaged:through-indexes=%v", nidx > 0), fmt.Sprintf("damaged:rows-in-front=%v", len(before) > 0))
		return
	}
	r.Exclude("no-damage-noticed-by-exactly-one-lookup")
}
