// C12 — read failures are reported, never turned into silently missing rows.
//
// For every operation on a generated database: run it fault free on a
// counting pager (result R, n page reads, counted from Open), then for every
// k in 1..n open a fresh handle whose k-th read fails (I/O error, short read,
// or a page of 0xFF bytes) and require: an error is returned, and the rows
// delivered are a prefix of R.
package c12

import (
	"encoding/binary"
	"errors"
	"fmt"
	"os"
	"strings"
	"testing"

	"github.com/alicebob/sqlittle"
	sdb "github.com/alicebob/sqlittle/db"
	"pgregory.net/rapid"

	"verif/bt"
	"verif/btgen"
	"verif/oracle"
	"verif/pagers"
	"verif/sqdb"
	"verif/val"
	"verif/vt"
)

var env *sqdb.Env

type op struct {
	name   string
	nested bool // performs lookups inside a scan callback
	run    func(d *sdb.Database) ([]string, error)
}

func renderRow(r sqlittle.Row) string {
	vs, ok := bt.RecordVals(sdb.Record(r))
	if !ok {
		return fmt.Sprint([]interface{}(r))
	}
	return val.Row(vs).String()
}

func renderRec(rowid int64, r sdb.Record) string {
	vs, ok := bt.RecordVals(r)
	if !ok {
		return fmt.Sprint(rowid, []interface{}(r))
	}
	return fmt.Sprintf("%d:%s", rowid, val.Row(vs))
}

func hlOp(name string, nested bool, f func(db *sqlittle.DB, emit func(sqlittle.Row)) error) op {
	return op{name: name, nested: nested, run: func(d *sdb.Database) ([]string, error) {
		var rows []string
		err := f(sqlittle.VerifWrap(d), func(r sqlittle.Row) { rows = append(rows, renderRow(r)) })
		return rows, err
	}}
}

// outcome of one run under one fault
type outcome struct {
	rows  []string
	err   error
	pan   interface{}
	fired bool
	page  int
	size  int
}

func runWithFault(img []byte, o op, k int, mode string, failLock bool) outcome {
	out, _ := runWithFault2(img, o, k, mode, failLock, false)
	return out
}

// runWithFault2 optionally runs the operation a second time on the same
// handle, with no further fault (the fault was transient): again gives the
// outcome of that second run.
func runWithFault2(img []byte, o op, k int, mode string, failLock, again bool) (outcome, *outcome) {
	f := &pagers.Fault{P: pagers.NewMem(img), K: k, Mode: mode, FailRLock: failLock}
	var out outcome
	var second *outcome
	func() {
		defer func() { out.pan = recover() }()
		d, err := sdb.VerifOpen(f, "")
		if err != nil {
			out.err = err
			return
		}
		defer d.Close()
		out.rows, out.err = o.run(d)
		if again {
			second = &outcome{}
			func() {
				defer func() { second.pan = recover() }()
				second.rows, second.err = o.run(d)
			}()
		}
	}()
	out.fired, out.page, out.size = f.Fired, f.FiredPage, f.FiredSize
	return out, second
}

func countReads(img []byte, o op) (outcome, int) {
	f := &pagers.Fault{P: pagers.NewMem(img)}
	var out outcome
	func() {
		defer func() { out.pan = recover() }()
		d, err := sdb.VerifOpen(f, "")
		if err != nil {
			out.err = err
			return
		}
		defer d.Close()
		out.rows, out.err = o.run(d)
	}()
	return out, f.Count
}

func isBtreePage(img []byte, page, ps int) bool {
	off := (page - 1) * ps
	if page == 1 {
		off += 100
	}
	if page < 1 || off >= len(img) {
		return false
	}
	switch img[off] {
	case 2, 5, 10, 13:
		return true
	}
	return false
}

func isPrefix(a, b []string) bool {
	if len(a) > len(b) {
		return false
	}
	for i := range a {
		if a[i] != b[i] {
			return false
		}
	}
	return true
}

var modes = []string{"eio", "eof", "ff"}

// enumerate runs the full fault enumeration for the operations on the image.
// Returns false if a violation was reported.
func enumerate(r *vt.Run, t vt.TB, spec interface{}, img []byte, ps int, ops []op, confirm func(problem string) bool) (faults, nestedFaults int, ok bool) {
	for _, o := range ops {
		base, n := countReads(img, o)
		if base.pan != nil {
			if confirm(fmt.Sprintf("%s panics without any fault: %v", o.name, base.pan)) {
				r.Violation(t, spec, "panic", "%s panics without any fault: %v", o.name, base.pan)
			}
			return faults, nestedFaults, false
		}
		if base.err != nil {
			if confirm(fmt.Sprintf("%s fails without any fault: %v", o.name, base.err)) {
				r.Violation(t, spec, "base-error", "%s fails without any fault: %v", o.name, base.err)
			}
			return faults, nestedFaults, false
		}
		// the lock cannot be taken
		if lo := runWithFault(img, o, 0, "", true); lo.pan != nil || (lo.err == nil && o.name[0] != '.') || len(lo.rows) > 0 {
			if o.name[0] != '.' { // low level operations do not lock themselves
				r.Violation(t, spec, "lock-failure-unreported", "%s with a failing RLock: err=%v rows=%d panic=%v", o.name, lo.err, len(lo.rows), lo.pan)
				return faults, nestedFaults, false
			}
		}
		for k := 1; k <= n; k++ {
			for _, mode := range modes {
				out, again := runWithFault2(img, o, k, mode, false, mode != "ff")
				if !out.fired {
					r.Harness(t, "%s: read %d of %d not reached on a fresh handle (non-deterministic read sequence?)", o.name, k, n)
				}
				if mode == "ff" && !(out.size == 100 && out.page == 1) && !isBtreePage(img, out.page, ps) {
					r.Exclude("ff-on-overflow-page-is-undetectable")
					continue
				}
				faults++
				if o.nested {
					nestedFaults++
				}
				what := fmt.Sprintf("%s, read %d of %d (page %d) fails with %s", o.name, k, n, out.page, mode)
				if out.pan != nil {
					r.Violation(t, spec, "fault:panic", "%s: panic %v", what, out.pan)
					return faults, nestedFaults, false
				}
				if out.err == nil {
					sig := "fault:unreported"
					if o.nested {
						sig = "fault:unreported:nested"
					}
					if len(out.rows) != len(base.rows) {
						sig += ":rows-missing"
					}
					r.Violation(t, spec, sig, "%s: the operation reports success with %d rows (fault free: %d rows)", what, len(out.rows), len(base.rows))
					return faults, nestedFaults, false
				}
				if !isPrefix(out.rows, base.rows) {
					r.Violation(t, spec, "fault:not-a-prefix", "%s: error %v, but the %d delivered rows are not a prefix of the fault-free result", what, out.err, len(out.rows))
					return faults, nestedFaults, false
				}
				// the fault was transient: the same call on the same handle
				// must now give the complete result, or fail again; it must
				// not succeed with anything else (e.g. served from a cache
				// that remembers the half-read state)
				if again != nil {
					if again.pan != nil {
						r.Violation(t, spec, "fault:panic-afterwards", "%s: the same call again on the same handle panics: %v", what, again.pan)
						return faults, nestedFaults, false
					}
					if again.err == nil && !(len(again.rows) == len(base.rows) && isPrefix(again.rows, base.rows)) {
						r.Violation(t, spec, "fault:wrong-result-afterwards", "%s: the same call again on the same handle (no fault now) succeeds with %d rows, the fault-free result has %d", what, len(again.rows), len(base.rows))
						return faults, nestedFaults, false
					}
					if again.err != nil && !isPrefix(again.rows, base.rows) {
						r.Violation(t, spec, "fault:not-a-prefix-afterwards", "%s: the same call again fails (%v) with rows that are not a prefix", what, again.err)
						return faults, nestedFaults, false
					}
				}
			}
		}
	}
	return faults, nestedFaults, true
}

type spec struct {
	Img  bt.Image
	Seed uint64
}

func TestC12Builder(t *testing.T) {
	vt.Exec(t, vt.Check[spec]{
		ID: "C12", Test: "TestC12Builder",
		Setup: func(r *vt.Run, t *testing.T) {
			var err error
			if env, err = sqdb.NewEnv(); err != nil {
				r.Harness(t, "env: %v", err)
			}
		},
		Teardown: func() { env.Close() },
		Gen: func(t *rapid.T) spec {
			return spec{Img: btgen.Image(t, btgen.Opts{MaxRows: 25, Indexes: true, WR: true, LongValues: true, RowidAlias: true}), Seed: rapid.Uint64().Draw(t, "seed")}
		},
		Run: runBuilder,
	})
}

func runBuilder(r *vt.Run, t vt.TB, s spec) {
	built, err := bt.Build(&s.Img)
	if err != nil {
		r.Exclude("layout-impossible")
		return
	}
	confirm := func(problem string) bool {
		diff, err := bt.SQLiteAgrees(env.O, env.Dir, built)
		if err != nil {
			r.Harness(t, "cross validation failed to run: %v (sqlittle: %s)", err, problem)
		}
		if diff != "" {
			r.Harness(t, "builder and SQLite disagree about the image (%s); sqlittle: %s", diff, problem)
		}
		return true
	}
	rs := s.Seed
	next := func(n int) int {
		rs = rs*6364136223846793005 + 1442695040888963407
		if n <= 0 {
			return 0
		}
		return int((rs >> 33) % uint64(n))
	}
	tt := built.Tables["t"]
	cols := append([]string{"rowid"}, tt.Spec.ColNames()...)
	var ops []op
	ops = append(ops, hlOp("Select(t)", false, func(db *sqlittle.DB, emit func(sqlittle.Row)) error { return db.Select("t", emit, cols...) }))
	// the same scan asked for fewer columns: none at all (a count of the rows), the first one only
	ops = append(ops, hlOp("Select(t, no columns)", false, func(db *sqlittle.DB, emit func(sqlittle.Row)) error { return db.Select("t", emit) }))
	ops = append(ops, hlOp("Select(t, first column)", false, func(db *sqlittle.DB, emit func(sqlittle.Row)) error { return db.Select("t", emit, cols[:1]...) }))
	ops = append(ops, op{name: "Columns(t)", run: func(d *sdb.Database) ([]string, error) { return sqlittle.VerifWrap(d).Columns("t") }})
	var rid int64 = 1
	if len(tt.Rows) > 0 {
		rid = tt.Rows[next(len(tt.Rows))].Rowid
	}
	ops = append(ops, hlOp(fmt.Sprintf("SelectRowid(t,%d)", rid), false, func(db *sqlittle.DB, emit func(sqlittle.Row)) error {
		row, err := db.SelectRowid("t", rid, cols...)
		if row != nil {
			emit(row)
		}
		return err
	}))
	if tt.Spec.RowidAlias {
		ops = append(ops, hlOp(fmt.Sprintf("PKSelect(t,%d)", rid), false, func(db *sqlittle.DB, emit func(sqlittle.Row)) error {
			return db.PKSelect("t", sqlittle.Key{rid}, emit, cols...)
		}))
	}
	// the catalogue itself (the master table of generated images can span
	// several pages): a list cut short is rows omitted
	ops = append(ops, op{name: ".Tables()", run: func(d *sdb.Database) ([]string, error) { return d.Tables() }})
	ops = append(ops, op{name: ".Indexes()", run: func(d *sdb.Database) ([]string, error) { return d.Indexes() }})
	// the debugging summary lists the first rows of every table and index; a
	// failure it meets is written into the text as an "error:" line, which
	// counts as reported here
	ops = append(ops, op{name: ".Info()", run: func(d *sdb.Database) ([]string, error) {
		text, err := d.Info()
		if err != nil {
			return nil, err
		}
		lines := strings.Split(text, "\n")
		for i, l := range lines {
			if strings.HasPrefix(strings.TrimSpace(l), "error: ") {
				return lines[:i], errors.New(strings.TrimSpace(l))
			}
		}
		return lines, nil
	}})
	ops = append(ops, op{name: ".Table.Scan(t)", run: func(d *sdb.Database) ([]string, error) {
		tab, err := d.Table("t")
		if err != nil {
			return nil, err
		}
		var rows []string
		err = tab.Scan(func(rowid int64, rec sdb.Record) bool { rows = append(rows, renderRec(rowid, rec)); return false })
		return rows, err
	}})
	ops = append(ops, op{name: fmt.Sprintf(".Table.Rowid(t,%d)", rid), run: func(d *sdb.Database) ([]string, error) {
		tab, err := d.Table("t")
		if err != nil {
			return nil, err
		}
		rec, err := tab.Rowid(rid)
		if rec == nil {
			return nil, err
		}
		return []string{renderRec(rid, rec)}, err
	}})
	for name, bi := range tt.Indexes {
		name, bi := name, bi
		ops = append(ops, hlOp("IndexedSelect(t,"+name+")", true, func(db *sqlittle.DB, emit func(sqlittle.Row)) error {
			return db.IndexedSelect("t", name, emit, cols...)
		}))
		var key sqlittle.Key
		var lkey sdb.Key
		if len(bi.Entries) > 0 {
			e := bi.Entries[next(len(bi.Entries))]
			key = sqlittle.Key{e.Values[0].Go()}
			lkey = sdb.Key{{V: e.Values[0].Go(), Collate: bi.Key[0].Collate, Desc: bi.Key[0].Desc}}
		}
		ops = append(ops, hlOp(fmt.Sprintf("IndexedSelectEq(t,%s,%v)", name, key), true, func(db *sqlittle.DB, emit func(sqlittle.Row)) error {
			return db.IndexedSelectEq("t", name, key, emit, cols...)
		}))
		scan := func(label string, f func(ix *sdb.Index, cb sdb.RecordCB) error) {
			ops = append(ops, op{name: "." + label + "(" + name + ")", run: func(d *sdb.Database) ([]string, error) {
				ix, err := d.Index(name)
				if err != nil {
					return nil, err
				}
				var rows []string
				err = f(ix, func(rec sdb.Record) bool { rows = append(rows, renderRec(0, rec)); return false })
				return rows, err
			}})
		}
		scan("Index.Scan", func(ix *sdb.Index, cb sdb.RecordCB) error { return ix.Scan(cb) })
		scan("Index.ScanMin", func(ix *sdb.Index, cb sdb.RecordCB) error { return ix.ScanMin(lkey, cb) })
		scan("Index.ScanEq", func(ix *sdb.Index, cb sdb.RecordCB) error { return ix.ScanEq(lkey, cb) })
		scan("Index.ScanRange", func(ix *sdb.Index, cb sdb.RecordCB) error { return ix.ScanRange(sdb.Key{}, lkey, cb) })
	}
	if w := built.Tables["w"]; w != nil {
		wcols := w.Spec.ColNames()
		ops = append(ops, hlOp("Select(w)", false, func(db *sqlittle.DB, emit func(sqlittle.Row)) error { return db.Select("w", emit, wcols...) }))
		if len(w.Entries) > 0 {
			e := w.Entries[next(len(w.Entries))]
			key := sqlittle.Key{e.Values[0].Go()}
			ops = append(ops, hlOp(fmt.Sprintf("PKSelect(w,%v)", key), false, func(db *sqlittle.DB, emit func(sqlittle.Row)) error {
				return db.PKSelect("w", key, emit, wcols...)
			}))
		}
		// secondary indexes: every entry is looked up in the table by its
		// primary key (nested lookups)
		for name, bi := range w.Indexes {
			name, bi := name, bi
			ops = append(ops, hlOp("IndexedSelect(w,"+name+")", true, func(db *sqlittle.DB, emit func(sqlittle.Row)) error {
				return db.IndexedSelect("w", name, emit, wcols...)
			}))
			var key sqlittle.Key
			if len(bi.Entries) > 0 {
				key = sqlittle.Key{bi.Entries[next(len(bi.Entries))].Values[0].Go()}
			}
			ops = append(ops, hlOp(fmt.Sprintf("IndexedSelectEq(w,%s,%v)", name, key), true, func(db *sqlittle.DB, emit func(sqlittle.Row)) error {
				return db.IndexedSelectEq("w", name, key, emit, wcols...)
			}))
		}
	}
	depth := tt.Shape.Depth
	faults, nested, ok := enumerate(r, t, s, built.Img, s.Img.PageSize, ops, confirm)
	if !ok {
		return
	}
	r.Case(s, nested > 0, fmt.Sprintf("builder:depth=%d", depth), fmt.Sprintf("ps=%d", s.Img.PageSize))
	r.Count("faults-injected", faults)
	r.Count("faults-on-operations-with-nested-lookups", nested)
	r.Count("operations", len(ops))
}

// ---- SQLite-written files (secondary indexes on WITHOUT ROWID tables, partial indexes)

type sqSpec struct {
	PageSize int
	Rows     int
	Seed     uint64
}

func TestC12SQLite(t *testing.T) {
	vt.Exec(t, vt.Check[sqSpec]{
		ID: "C12", Test: "TestC12SQLite",
		Setup: func(r *vt.Run, t *testing.T) {
			var err error
			if env, err = sqdb.NewEnv(); err != nil {
				r.Harness(t, "env: %v", err)
			}
		},
		Teardown: func() { env.Close() },
		Gen: func(t *rapid.T) sqSpec {
			return sqSpec{PageSize: rapid.SampledFrom([]int{512, 512, 1024, 4096}).Draw(t, "ps"), Rows: rapid.IntRange(1, 40).Draw(t, "rows"), Seed: rapid.Uint64().Draw(t, "seed")}
		},
		Run: runSQLite,
	})
}

func runSQLite(r *vt.Run, t vt.TB, s sqSpec) {
	path := env.NewPath()
	defer sqdb.Remove(path)
	stmts := []oracle.Stmt{
		{SQL: "CREATE TABLE w (a TEXT, b INTEGER, c, d, PRIMARY KEY (b, a)) WITHOUT ROWID"},
		{SQL: "CREATE INDEX wi ON w (c, a)"},
		{SQL: "CREATE INDEX wj ON w (d DESC)"},
		{SQL: "CREATE TABLE t (x, y, z)"},
		{SQL: "CREATE INDEX tp ON t (y) WHERE x > 5"},
		{SQL: "BEGIN"},
	}
	rs := s.Seed
	next := func(n int) int {
		rs = rs*6364136223846793005 + 1442695040888963407
		return int((rs >> 33) % uint64(n))
	}
	for i := 0; i < s.Rows; i++ {
		long := ""
		if next(6) == 0 {
			long = string(make([]byte, 0))
			for j := 0; j < s.PageSize+50; j++ {
				long += string(rune('a' + j%26))
			}
		}
		stmts = append(stmts, oracle.Stmt{SQL: "INSERT INTO w VALUES (?, ?, ?, ?)", Params: []val.V{
			val.Text(fmt.Sprintf("k%03d", next(1000))).AsStr(), val.Int(int64(i)), val.Int(int64(next(5))), val.Text(long + fmt.Sprint(next(3))).AsStr()}})
		stmts = append(stmts, oracle.Stmt{SQL: "INSERT INTO t VALUES (?, ?, ?)", Params: []val.V{val.Int(int64(next(12))), val.Int(int64(next(4))), val.Text(long).AsStr()}})
	}
	stmts = append(stmts, oracle.Stmt{SQL: "COMMIT"})
	res, err := env.Create("c12", path, s.PageSize, 0, stmts)
	sqdb.MustOK(r, t, "build", res, err, len(stmts)+2)
	env.O.Close("c12")
	img, err := os.ReadFile(path)
	if err != nil {
		r.Harness(t, "read file: %v", err)
	}
	if int(binary.BigEndian.Uint16(img[16:18])) != s.PageSize {
		r.Harness(t, "page size not applied")
	}
	ops := []op{
		hlOp("Select(w)", false, func(db *sqlittle.DB, emit func(sqlittle.Row)) error { return db.Select("w", emit, "a", "b", "c", "d") }),
		hlOp("IndexedSelect(w,wi)", true, func(db *sqlittle.DB, emit func(sqlittle.Row)) error {
			return db.IndexedSelect("w", "wi", emit, "a", "b", "c", "d")
		}),
		hlOp("IndexedSelect(w,wj)", true, func(db *sqlittle.DB, emit func(sqlittle.Row)) error {
			return db.IndexedSelect("w", "wj", emit, "a", "b", "c", "d")
		}),
		hlOp("IndexedSelectEq(w,wi,{2})", true, func(db *sqlittle.DB, emit func(sqlittle.Row)) error {
			return db.IndexedSelectEq("w", "wi", sqlittle.Key{int64(2)}, emit, "a", "b", "c", "d")
		}),
		hlOp("IndexedSelect(t,tp)", true, func(db *sqlittle.DB, emit func(sqlittle.Row)) error {
			return db.IndexedSelect("t", "tp", emit, "rowid", "x", "y", "z")
		}),
		hlOp("IndexedSelectEq(t,tp,{1})", true, func(db *sqlittle.DB, emit func(sqlittle.Row)) error {
			return db.IndexedSelectEq("t", "tp", sqlittle.Key{int64(1)}, emit, "rowid", "x", "y", "z")
		}),
		hlOp("PKSelect(w,{3})", false, func(db *sqlittle.DB, emit func(sqlittle.Row)) error {
			return db.PKSelect("w", sqlittle.Key{int64(3)}, emit, "a", "b", "c", "d")
		}),
	}
	confirm := func(string) bool { return true } // the file was written by SQLite itself
	faults, nested, ok := enumerate(r, t, s, img, s.PageSize, ops, confirm)
	if !ok {
		return
	}
	r.Case(s, nested > 0, "sqlite-built", fmt.Sprintf("ps=%d", s.PageSize))
	r.Count("faults-injected", faults)
	r.Count("faults-on-operations-with-nested-lookups", nested)
	r.Count("operations", len(ops))
}
