package c12

// "Also failure to acquire the lock": the file is healthy, but the read lock
// cannot be had - another process holds a write lock on SQLite's shared byte
// range (with or without the pending byte), or a SQLite connection holds
// EXCLUSIVE. Every operation must then return an error and deliver nothing,
// whichever of the two steps of taking the lock is the one that fails; once
// the other process lets go, the same handle reads everything.

import (
	"fmt"
	"testing"

	"github.com/alicebob/sqlittle"
	"pgregory.net/rapid"

	"verif/locks"
	"verif/oracle"
	"verif/sqdb"
	"verif/vt"
)

type lockSpec struct {
	PageSize int
	Rows     int
	// Holder: "raw-shared-range" a write lock on the shared range only (the
	// pending byte is free: the first step works, the second fails),
	// "sqlite-exclusive" a SQLite connection inside BEGIN EXCLUSIVE (pending
	// byte and shared range: the first step fails)
	Holder string
	// UsedBefore: the handle has read the database before the lock is taken
	// (its caches are warm: no page read is needed to answer)
	UsedBefore bool
}

var lockPeer *locks.Peer

func TestC12LockFailure(t *testing.T) {
	vt.Exec(t, vt.Check[lockSpec]{
		ID: "C12", Test: "TestC12LockFailure",
		Setup: func(r *vt.Run, t *testing.T) {
			var err error
			if env, err = sqdb.NewEnv(); err != nil {
				r.Harness(t, "env: %v", err)
			}
			if lockPeer, err = locks.StartPeer(); err != nil {
				r.Harness(t, "peer: %v", err)
			}
		},
		Teardown: func() { lockPeer.Stop(); env.Close() },
		Gen: func(t *rapid.T) lockSpec {
			return lockSpec{
				PageSize:   rapid.SampledFrom([]int{512, 1024, 4096}).Draw(t, "ps"),
				Rows:       rapid.SampledFrom([]int{1, 3, 40, 300}).Draw(t, "rows"),
				Holder:     rapid.SampledFrom([]string{"raw-shared-range", "raw-shared-range", "sqlite-exclusive"}).Draw(t, "holder"),
				UsedBefore: rapid.Bool().Draw(t, "usedbefore"),
			}
		},
		Run: runLockFailure,
	})
}

func runLockFailure(r *vt.Run, t vt.TB, s lockSpec) {
	path := env.NewPath()
	defer sqdb.Remove(path)
	init := []oracle.Stmt{
		{SQL: "CREATE TABLE t (a INTEGER PRIMARY KEY, b, c TEXT)"},
		{SQL: "CREATE INDEX tb ON t (b)"},
		{SQL: "CREATE TABLE w (k TEXT PRIMARY KEY, v) WITHOUT ROWID"},
		{SQL: fmt.Sprintf("WITH RECURSIVE c(x) AS (SELECT 1 UNION ALL SELECT x+1 FROM c WHERE x < %d) INSERT INTO t (b, c) SELECT x%%5, 'row'||x FROM c", s.Rows)},
		{SQL: fmt.Sprintf("WITH RECURSIVE c(x) AS (SELECT 1 UNION ALL SELECT x+1 FROM c WHERE x < %d) INSERT INTO w SELECT 'k'||x, x FROM c", s.Rows)},
	}
	res, err := env.Create("lk", path, s.PageSize, 0, init)
	sqdb.MustOK(r, t, "create", res, err, len(init)+2)
	defer env.O.Close("lk")

	db, err := sqlittle.Open(path)
	if err != nil {
		r.Harness(t, "open: %v", err)
	}
	defer db.Close()
	type opT struct {
		name string
		run  func(emit func(sqlittle.Row)) error
	}
	ops := []opT{
		{"Select(t)", func(emit func(sqlittle.Row)) error { return db.Select("t", emit, "a", "b", "c") }},
		{"Select(w)", func(emit func(sqlittle.Row)) error { return db.Select("w", emit, "k", "v") }},
		{"SelectRowid(t,1)", func(emit func(sqlittle.Row)) error {
			row, err := db.SelectRowid("t", 1, "a")
			if row != nil {
				emit(row)
			}
			return err
		}},
		{"PKSelect(t,1)", func(emit func(sqlittle.Row)) error { return db.PKSelect("t", sqlittle.Key{int64(1)}, emit, "a") }},
		{"PKSelect(w,k1)", func(emit func(sqlittle.Row)) error { return db.PKSelect("w", sqlittle.Key{"k1"}, emit, "k") }},
		{"IndexedSelect(t,tb)", func(emit func(sqlittle.Row)) error { return db.IndexedSelect("t", "tb", emit, "a") }},
		{"IndexedSelectEq(t,tb,1)", func(emit func(sqlittle.Row)) error {
			return db.IndexedSelectEq("t", "tb", sqlittle.Key{int64(1)}, emit, "a")
		}},
		{"Columns(t)", func(emit func(sqlittle.Row)) error {
			cols, err := db.Columns("t")
			if len(cols) > 0 {
				emit(sqlittle.Row{int64(len(cols))})
			}
			return err
		}},
	}
	free := map[string]int{}
	if s.UsedBefore {
		for _, o := range ops {
			n := 0
			if err := o.run(func(sqlittle.Row) { n++ }); err != nil {
				r.Harness(t, "%s on the unlocked file: %v", o.name, err)
			}
			free[o.name] = n
		}
	}
	// ---- somebody else takes the lock
	switch s.Holder {
	case "raw-shared-range":
		pr, err := lockPeer.Call("rawlock", path)
		if err != nil || pr.Err != "" || !pr.Held {
			r.Harness(t, "raw lock: %v %s", err, pr.Err)
		}
	case "sqlite-exclusive":
		if err := env.O.Exec("lk", "BEGIN EXCLUSIVE"); err != nil {
			r.Harness(t, "begin exclusive: %v", err)
		}
	}
	release := func() {
		switch s.Holder {
		case "raw-shared-range":
			lockPeer.Call("rawunlock", "")
		case "sqlite-exclusive":
			env.O.Exec("lk", "ROLLBACK")
		}
	}
	r.Case(s, true, "lock-failure:"+s.Holder, fmt.Sprintf("lock-failure:handle-used-before=%v", s.UsedBefore))
	for _, o := range ops {
		n := 0
		err := o.run(func(sqlittle.Row) { n++ })
		if err == nil || n > 0 {
			release()
			r.Violation(t, s, "lock-failure:unreported:"+s.Holder, "%s while another process holds %s: error %v, %d rows delivered; the read lock cannot have been taken, so the operation has to fail and deliver nothing", o.name, s.Holder, err, n)
			return
		}
		r.Count("lock-failure:operations-refused", 1)
	}
	release()
	// ---- and afterwards everything is readable
	for _, o := range ops {
		n := 0
		if err := o.run(func(sqlittle.Row) { n++ }); err != nil {
			r.Violation(t, s, "lock-failure:sticky", "%s after the other process let go of %s: still fails: %v", o.name, s.Holder, err)
			return
		}
		if want, ok := free[o.name]; ok && want != n {
			r.Violation(t, s, "lock-failure:rows-differ-afterwards", "%s after the other process let go of %s: %d rows, before %d", o.name, s.Holder, n, want)
			return
		}
	}
}
