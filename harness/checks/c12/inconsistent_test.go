package c12

// Structural damage instead of read faults: index entries whose table row is
// gone (the table b-tree lost rows, the indexes still have them). An index
// select that meets such an entry has found the file corrupt: it returns an
// error, having delivered the rows of the entries before it - never success
// with the row left out, repeated or replaced by another one.
//
// The image comes from the independent builder (the consistent part is what
// SQLite cross-validates in the other C12 tests); expected rows are the
// builder's own.

import (
	"fmt"
	"sort"
	"testing"

	"github.com/alicebob/sqlittle"
	"pgregory.net/rapid"

	"verif/bt"
	"verif/btgen"
	"verif/refcmp"
	"verif/val"
	"verif/vt"
)

type incSpec struct {
	Img  bt.Image
	Drop []int // per table: which rows (mod count) lose their table row
	Seed uint64
	// Short: the index entries of those rows are cut short as well (no rowid
	// / primary key columns at their end)
	Short bool `json:",omitempty"`
}

func TestC12Inconsistent(t *testing.T) {
	vt.Exec(t, vt.Check[incSpec]{
		ID: "C12", Test: "TestC12Inconsistent",
		Gen: func(t *rapid.T) incSpec {
			return incSpec{
				Img:  btgen.Image(t, btgen.Opts{MaxRows: 25, Indexes: true, WR: true, RowidAlias: true, PageSizes: []int{512, 1024}}),
				Drop: rapid.SliceOfN(rapid.IntRange(0, 1000), 1, 4).Draw(t, "drop"),
				Seed: rapid.Uint64().Draw(t, "seed"),
				Short: rapid.IntRange(0, 2).Draw(t, "short") == 0,
			}
		},
		Run: runInconsistent,
	})
}

func runInconsistent(r *vt.Run, t vt.TB, s incSpec) {
	img := s.Img // (tables are copied below before they are changed)
	img.Tables = append([]bt.Table{}, s.Img.Tables...)
	dropped := 0
	for ti := range img.Tables {
		tb := &img.Tables[ti]
		if len(tb.Indexes) == 0 || len(tb.Rows) == 0 {
			continue
		}
		rows := append([]bt.Row{}, tb.Rows...)
		gone := map[int]bool{}
		for _, d := range s.Drop {
			gone[d%len(rows)] = true
		}
		tb.Rows, tb.Phantom = nil, nil
		tb.PhantomShort = s.Short
		for i, row := range rows {
			if gone[i] {
				tb.Phantom = append(tb.Phantom, row)
				dropped++
			} else {
				tb.Rows = append(tb.Rows, row)
			}
		}
	}
	if dropped == 0 {
		r.Exclude("no-indexed-table-with-rows")
		return
	}
	built, err := bt.Build(&img)
	if err != nil {
		r.Exclude("layout-impossible")
		return
	}
	d, _, err := bt.Open(built.Img)
	if err != nil {
		r.Violation(t, s, "inconsistent:open", "open: %v", err)
		return
	}
	defer d.Close()
	hl := sqlittle.VerifWrap(d)
	rs := s.Seed
	next := func(n int) int {
		rs = rs*6364136223846793005 + 1442695040888963407
		if n <= 0 {
			return 0
		}
		return int((rs >> 33) % uint64(n))
	}
	scans, hits := 0, 0
	for _, name := range []string{"t", "w"} {
		bt0 := built.Tables[name]
		if bt0 == nil {
			continue
		}
		tab := bt0.Spec
		cols := tab.ColNames()
		logical := func(e bt.Entry) []val.V {
			if tab.WithoutRowid {
				return padVals(tab.Rows[e.Row].Values(), tab.NCols)
			}
			return tab.Logical(tab.Rows[e.Row])
		}
		var inames []string
		for n := range bt0.Indexes {
			inames = append(inames, n)
		}
		sort.Strings(inames)
		for _, iname := range inames {
			bi := bt0.Indexes[iname]
			// judge: the rows delivered must be those of the entries before
			// the first entry without a table row; if there is one, an error
			judge := func(what string, entries []bt.Entry, got []string, err error) bool {
				scans++
				var want []string
				broken := false
				for _, e := range entries {
					if e.Row < 0 {
						broken = true
						break
					}
					want = append(want, val.Row(logical(e)).String())
				}
				if broken {
					hits++
				}
				for i := range got {
					if i >= len(want) || got[i] != want[i] {
						r.Violation(t, s, "inconsistent:wrong-row", "%s: row %d delivered is %s; the index entries up to the first one without a table row belong to the rows %v (error returned: %v)", what, i, got[i], want, err)
						return false
					}
				}
				if broken && err == nil {
					r.Violation(t, s, "inconsistent:unreported", "%s: an index entry has no row in the table, the operation reports success with %d rows (%d entries precede the damaged one)", what, len(got), len(want))
					return false
				}
				if !broken && (err != nil || len(got) != len(want)) {
					r.Violation(t, s, "inconsistent:spurious", "%s: no damaged entry in reach, yet %d of %d rows and error %v", what, len(got), len(want), err)
					return false
				}
				return true
			}
			var got []string
			err := hl.IndexedSelect(name, iname, func(row sqlittle.Row) { got = append(got, renderRow(row)) }, cols...)
			if !judge(fmt.Sprintf("IndexedSelect(%s,%s)", name, iname), bi.Entries, got, err) {
				return
			}
			// equality on the first indexed column of a few entries
			for k := 0; k < 3 && len(bi.Entries) > 0; k++ {
				key := bi.Entries[next(len(bi.Entries))].Values[0]
				if key.T == 'n' {
					continue
				}
				coll := refcmp.Binary
				if len(bi.Key) > 0 && bi.Key[0].Collate != "" {
					coll = bi.Key[0].Collate
				}
				var match []bt.Entry
				for _, e := range bi.Entries {
					if e.Values[0].T != 'n' && refcmp.Compare(e.Values[0], key, coll) == 0 {
						match = append(match, e)
					}
				}
				got = nil
				err := hl.IndexedSelectEq(name, iname, sqlittle.Key{key.Go()}, func(row sqlittle.Row) { got = append(got, renderRow(row)) }, cols...)
				if !judge(fmt.Sprintf("IndexedSelectEq(%s,%s,[%s])", name, iname, key), match, got, err) {
					return
				}
			}
		}
	}
	r.Case(s, hits > 0, fmt.Sprintf("inconsistent:rows-missing<=%d", min(dropped, 4)), fmt.Sprintf("inconsistent:entries-cut-short=%v", s.Short))
	r.Count("inconsistent:scans", scans)
	r.Count("inconsistent:scans-meeting-a-missing-row", hits)
}

func padVals(vs []val.V, n int) []val.V {
	out := append([]val.V{}, vs...)
	for len(out) < n {
		out = append(out, val.Null())
	}
	return out
}
