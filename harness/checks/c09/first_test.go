package c09

// The first transaction of a file: a writer creates a database that did not
// exist and is killed inside that transaction. None of its pages existed
// before, so the journal holds no page record - only headers, which say how
// large the file was when the transaction started (nothing). SQLite rolls
// such a file back to an empty database. A reader either refuses the file or
// shows what SQLite shows after its recovery - never the tables of a
// transaction that did not commit.

import (
	"bufio"
	"fmt"
	"os"
	"path/filepath"
	"sort"
	"strings"
	"testing"

	"pgregory.net/rapid"

	"verif/e1"
	"verif/sqdb"
	"verif/vt"
)

func TestC09FirstTransaction(t *testing.T) {
	vt.Exec(t, vt.Check[spec]{
		ID: "C09", Test: "TestC09FirstTransaction",
		Setup: func(r *vt.Run, t *testing.T) {
			var err error
			if env, err = sqdb.NewEnv(); err != nil {
				r.Harness(t, "env: %v", err)
			}
		},
		Teardown: func() { env.Close() },
		Gen: func(t *rapid.T) spec {
			s := spec{
				PageSize:    512, // (the writer's default page size applies to a new file: kept for the record only)
				JournalMode: rapid.SampledFrom([]string{"DELETE", "TRUNCATE", "PERSIST"}).Draw(t, "jm"),
				BigSector:   rapid.IntRange(0, 3).Draw(t, "bigsector") == 0,
				Sync:        rapid.SampledFrom([]string{"", "", "NORMAL", "OFF"}).Draw(t, "sync"),
			}
			n := rapid.SampledFrom([]int{5, 200, 2000}).Draw(t, "rows")
			s.Rows = n
			s.Stmts = []string{
				"CREATE TABLE ghost (a INTEGER PRIMARY KEY, b, c)",
				fmt.Sprintf("WITH RECURSIVE c(x) AS (SELECT 1 UNION ALL SELECT x+1 FROM c WHERE x < %d) INSERT INTO ghost (b, c) SELECT x, 'row'||x FROM c", n),
			}
			if rapid.Bool().Draw(t, "index") {
				s.Stmts = append(s.Stmts, "CREATE INDEX ghost_b ON ghost (b)")
			}
			return s
		},
		Run: runFirst,
	})
}

func runFirst(r *vt.Run, t vt.TB, s spec) {
	dir, err := os.MkdirTemp(env.Dir, "first-")
	if err != nil {
		r.Harness(t, "tempdir: %v", err)
	}
	defer os.RemoveAll(dir)
	work := filepath.Join(dir, "work.sqlite")
	os.Setenv("CRASHWRITER_CREATE", "1")
	defer os.Unsetenv("CRASHWRITER_CREATE")
	// learn the sequence of file operations
	logPath := filepath.Join(dir, "ops.log")
	if rc := runWriter(r, t, dir, work, s, 0, false, logPath); rc != 0 {
		r.Harness(t, "uninterrupted writer: rc %d", rc)
	}
	var ops []fileOp
	if f, err := os.Open(logPath); err == nil {
		sc := bufio.NewScanner(f)
		for sc.Scan() {
			fs := strings.Fields(sc.Text())
			if len(fs) >= 3 {
				var n int
				fmt.Sscan(fs[0], &n)
				ops = append(ops, fileOp{n, fs[1], fs[2]})
			}
		}
		f.Close()
	}
	if len(ops) < 4 {
		r.Harness(t, "the first transaction of a file logs %d operations", len(ops))
	}
	for k := 1; k <= len(ops)+1; k++ {
		if s.K > 0 && k != s.K {
			continue
		}
		sqdb.Remove(work)
		rc := runWriter(r, t, dir, work, s, k, false, "")
		if k <= len(ops) && rc != 99 {
			r.Harness(t, "writer was not killed at operation %d of %d (rc %d)", k, len(ops), rc)
		}
		opName := "after-the-last-operation"
		if k <= len(ops) {
			opName = ops[k-1].Op + ":" + map[bool]string{true: "journal", false: "db"}[strings.HasSuffix(ops[k-1].Path, "-journal")]
		}
		_, jerr := os.Stat(work + "-journal")
		st, derr := os.Stat(work)
		cp := s
		cp.K = k
		r.CaseKey(vt.Hash(cp), jerr == nil && derr == nil && st.Size() > 0, "first-transaction:"+s.JournalMode+":"+opName, func() interface{} { return cp })
		if derr != nil {
			continue // killed before the file existed
		}
		a, b := filepath.Join(dir, "a.sqlite"), filepath.Join(dir, "b.sqlite")
		sqdb.Remove(a)
		sqdb.Remove(b)
		copyFile(work, a)
		copyFile(work, b)
		if jerr == nil {
			copyFile(work+"-journal", a+"-journal")
			copyFile(work+"-journal", b+"-journal")
		}
		// SQLite's view after its own recovery
		if err := env.O.Open("rec", b); err != nil {
			r.Harness(t, "recovery open: %v", err)
		}
		names, err := env.O.Query("rec", "SELECT name FROM sqlite_master WHERE type = 'table' ORDER BY name")
		if err != nil {
			env.O.Close("rec")
			r.Harness(t, "recovery: %v", err)
		}
		want := map[string]int{}
		for _, n := range names {
			cnt, err := env.O.Query("rec", "SELECT count(*) FROM "+e1.QIdent(string(n[0].B)))
			if err != nil {
				env.O.Close("rec")
				r.Harness(t, "recovered count: %v", err)
			}
			want[strings.ToLower(string(n[0].B))] = int(cnt[0][0].I)
		}
		env.O.Close("rec")
		got, gerr := readAllSqlittle(a)
		if gerr != nil {
			r.Count("first-transaction:refused", 1)
			continue // refused: nothing is shown
		}
		var gs, ws []string
		for n, rows := range got {
			gs = append(gs, fmt.Sprintf("%s=%d", n, len(rows)))
		}
		for n, c := range want {
			ws = append(ws, fmt.Sprintf("%s=%d", n, c))
		}
		sort.Strings(gs)
		sort.Strings(ws)
		if strings.Join(gs, ",") != strings.Join(ws, ",") {
			r.Violation(t, cp, "first-transaction:unrecovered-state-read", "journal mode %s, first transaction of a new file %q, writer killed before operation %d of %d (%s); journal left: %v; a fresh handle reads tables [%s] without error, SQLite recovers the file to [%s]", s.JournalMode, s.Stmts, k, len(ops), opName, jerr == nil, strings.Join(gs, ","), strings.Join(ws, ","))
			return
		}
		r.Count("first-transaction:read-as-recovered", 1)
	}
}
