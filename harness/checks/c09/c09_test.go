// C09 — a crashed writer's unfinished transaction is never read as data.
//
// A real SQLite writer process (python3 sqlite3, generated transaction, small
// cache so that dirty pages spill before commit) runs under an LD_PRELOAD shim
// that numbers its file operations; it is killed right before its k-th
// operation for EVERY k (and, for writes, also after half of the write). The
// files left behind are read by sqlittle and, on a copy, by real SQLite which
// performs its own recovery: sqlittle must fail, or agree.
package c09

import (
	"bufio"
	"bytes"
	"encoding/json"
	"fmt"
	sdb "github.com/alicebob/sqlittle/db"
	"io"
	"os"
	"os/exec"
	"path/filepath"
	"strings"
	"syscall"
	"testing"
	"verif/pagers"

	"github.com/alicebob/sqlittle"
	"pgregory.net/rapid"

	"verif/e1"
	"verif/locks"
	"verif/oracle"
	"verif/sqdb"
	"verif/val"
	"verif/vt"
)

var env *sqdb.Env

var genCount int

// another process that can hold a read lock on the shared range
var peer *locks.Peer

type spec struct {
	PageSize    int
	JournalMode string // DELETE, TRUNCATE, PERSIST
	Rows        int
	Stmts       []string
	// K > 0: only this crash point (replay form); 0: every crash point
	K    int
	Torn bool
	// BigSector: the writer opens the file with psow=0, which makes the
	// journal's sector size 4096 (larger than small pages)
	BigSector bool `json:",omitempty"`
	// Sync: the writer's PRAGMA synchronous ("" = FULL). With OFF the journal
	// is never synced: its header is valid from the first write on and its
	// record count field stays 0xFFFFFFFF ("as many as the file holds").
	Sync string `json:",omitempty"`
	// Limit: the writer's PRAGMA journal_size_limit ("" = none). With PERSIST
	// a commit then truncates the zeroed journal to that many bytes, which
	// may be fewer than a journal header has.
	Limit string `json:",omitempty"`
}

var stmtPool = []string{
	"UPDATE t SET c = c || 'y' WHERE a % 3 = 0",
	"UPDATE t SET b = b + 1",
	"DELETE FROM t WHERE a % 4 = 1",
	"INSERT INTO t (b, c) SELECT b, c || 'copy' FROM t WHERE a % 5 = 0",
	"INSERT INTO t (b, c) VALUES (1, 'new row')",
	"UPDATE t SET c = hex(zeroblob(300)) WHERE a % 7 = 2",
	"CREATE TABLE u (x, y)",
	"INSERT INTO w SELECT 'n'||a, b FROM t WHERE a % 6 = 0",
	"DELETE FROM w WHERE v % 2 = 0",
	"CREATE INDEX tc ON t (c)",
	"DROP INDEX tb",
	"UPDATE w SET v = v * 10",
	"DELETE FROM t",
	"ALTER TABLE t ADD COLUMN d DEFAULT 'dd'",
}

func TestC09Crash(t *testing.T) {
	vt.Exec(t, vt.Check[spec]{
		ID: "C09", Test: "TestC09Crash",
		Setup: func(r *vt.Run, t *testing.T) {
			var err error
			if env, err = sqdb.NewEnv(); err != nil {
				r.Harness(t, "env: %v", err)
			}
			if peer, err = locks.StartPeer(); err != nil {
				r.Harness(t, "peer: %v", err)
			}
		},
		Teardown: func() { peer.Stop(); env.Close() },
		Gen: func(t *rapid.T) spec {
			// A case is expensive (every crash point of a transaction), so a
			// quick run has few of them: the writer's configuration is dealt
			// out in turn (by shard and by the number of the case in this
			// process) instead of drawn, so that every run meets every journal
			// mode, sector size and synchronous setting.
			shard, _ := vt.Shard()
			k := genCount
			genCount++
			s := spec{
				PageSize:    rapid.SampledFrom([]int{512, 512, 1024, 4096}).Draw(t, "ps"),
				JournalMode: []string{"DELETE", "TRUNCATE", "PERSIST"}[(k+shard)%3],
				Rows:        rapid.SampledFrom([]int{30, 80, 150}).Draw(t, "rows"),
				BigSector:   (k+2*shard)%3 == 0,
				Sync:        []string{"", "OFF", "NORMAL", "OFF", "", "EXTRA"}[(5*k+shard)%6],
			}
			if s.JournalMode == "PERSIST" {
				s.Limit = []string{"", "10", "", "1", "600", "27", "28", "0"}[(k/3+shard)%8]
			}
			n := rapid.IntRange(1, 4).Draw(t, "nstmts")
			for i := 0; i < n; i++ {
				s.Stmts = append(s.Stmts, rapid.SampledFrom(stmtPool).Draw(t, "stmt"))
			}
			return s
		},
		Run: run,
	})
}

type fileOp struct {
	N    int
	Op   string
	Path string
}

func copyFile(src, dst string) error {
	in, err := os.Open(src)
	if err != nil {
		return err
	}
	defer in.Close()
	out, err := os.Create(dst)
	if err != nil {
		return err
	}
	defer out.Close()
	_, err = io.Copy(out, in)
	return err
}

var journalMagic = []byte{0xd9, 0xd5, 0x05, 0xf9, 0x20, 0xa1, 0x63, 0xd7}

func runWriter(r *vt.Run, t vt.TB, dir, db string, s spec, k int, torn bool, logPath string) int {
	return runWriterM(r, t, dir, db, db, s, k, torn, logPath)
}

// runWriterMatch counts (and crashes at) the operations on every file whose
// path contains match.
func runWriterMatch(r *vt.Run, t vt.TB, dir, db, match string, s spec, k int, logPath string) int {
	return runWriterM(r, t, dir, db, match, s, k, false, logPath)
}

func runWriterM(r *vt.Run, t vt.TB, dir, db, match string, s spec, k int, torn bool, logPath string) int {
	var cmd *exec.Cmd
	if _, err := os.Stat(locks.ToolPath("crashwriter")); err == nil {
		stmtFile := filepath.Join(dir, "writer.sql")
		os.WriteFile(stmtFile, []byte(strings.Join(s.Stmts, "\n")+"\n"), 0o644)
		target := db
		if s.BigSector {
			target = "file:" + db + "?psow=0"
		}
		sync := s.Sync
		if sync == "" {
			sync = "FULL"
		}
		args := []string{target, s.JournalMode, "3", stmtFile, sync}
		if s.Limit != "" {
			args = append(args, s.Limit)
		}
		cmd = exec.Command(locks.ToolPath("crashwriter"), args...)
	} else {
		specFile := filepath.Join(dir, "writer.json")
		target := db
		if s.BigSector {
			target = "file:" + db + "?psow=0"
		}
		b, _ := json.Marshal(map[string]interface{}{"path": target, "journal_mode": s.JournalMode, "cache_size": 3, "stmts": s.Stmts, "synchronous": s.Sync, "journal_size_limit": s.Limit})
		os.WriteFile(specFile, b, 0o644)
		py := os.Getenv("VERIF_PYTHON")
		if py == "" {
			py = "python3"
		}
		cmd = exec.Command(py, filepath.Join(vt.Root(), "tools", "crashwriter.py"), specFile)
	}
	cmd.Env = append(os.Environ(), "LD_PRELOAD="+locks.ToolPath("crashshim.so"), "CRASH_MATCH="+match)
	if logPath != "" {
		cmd.Env = append(cmd.Env, "CRASH_LOG="+logPath)
	}
	if k > 0 {
		cmd.Env = append(cmd.Env, fmt.Sprintf("CRASH_AT=%d", k))
		if torn {
			cmd.Env = append(cmd.Env, "CRASH_TORN=1")
		}
	}
	var stderr bytes.Buffer
	cmd.Stderr = &stderr
	err := cmd.Run()
	if err == nil {
		return 0
	}
	if ee, ok := err.(*exec.ExitError); ok {
		if ee.ExitCode() == 99 {
			return 99
		}
		r.Harness(t, "writer exits with %d: %s", ee.ExitCode(), stderr.String())
	}
	r.Harness(t, "writer: %v", err)
	return -1
}

// overwrite replaces the content of dst in place (same inode, as a writer
// process would) with the content of src.
func overwrite(src, dst string) error {
	b, err := os.ReadFile(src)
	if err != nil {
		return err
	}
	f, err := os.OpenFile(dst, os.O_WRONLY|os.O_TRUNC, 0o644)
	if err != nil {
		return err
	}
	defer f.Close()
	_, err = f.Write(b)
	return err
}

func readAllSqlittle(path string) (map[string][][]interface{}, error) {
	db, err := sqlittle.Open(path)
	if err != nil {
		return nil, err
	}
	defer db.Close()
	return readAllHandle(db)
}

func readAllHandle(db *sqlittle.DB) (map[string][][]interface{}, error) {
	// the low-level API needs an explicit read transaction
	low := sqlittle.VerifLow(db)
	if err := low.RLock(); err != nil {
		return nil, err
	}
	tables, err := low.Tables()
	low.RUnlock()
	if err != nil {
		return nil, err
	}
	out := map[string][][]interface{}{}
	for _, tn := range tables {
		cols, err := db.Columns(tn)
		if err != nil {
			return nil, err
		}
		var rows [][]interface{}
		if err := db.Select(tn, func(row sqlittle.Row) { rows = append(rows, append([]interface{}{}, row...)) }, cols...); err != nil {
			return nil, err
		}
		out[tn] = rows
	}
	return out, nil
}

func run(r *vt.Run, t vt.TB, s spec) {
	dir, err := os.MkdirTemp(env.Dir, "crash-")
	if err != nil {
		r.Harness(t, "tempdir: %v", err)
	}
	defer os.RemoveAll(dir)
	base := filepath.Join(dir, "base.sqlite")
	init := []oracle.Stmt{
		{SQL: "CREATE TABLE t (a INTEGER PRIMARY KEY, b, c)"},
		{SQL: "CREATE INDEX tb ON t (b)"},
		{SQL: "CREATE TABLE w (k TEXT PRIMARY KEY, v) WITHOUT ROWID"},
		{SQL: fmt.Sprintf("WITH RECURSIVE c(x) AS (SELECT 1 UNION ALL SELECT x+1 FROM c WHERE x < %d) INSERT INTO t (b, c) SELECT x%%9, 'row'||x||hex(zeroblob(25)) FROM c", s.Rows)},
		{SQL: fmt.Sprintf("WITH RECURSIVE c(x) AS (SELECT 1 UNION ALL SELECT x+1 FROM c WHERE x < %d) INSERT INTO w SELECT 'k'||x, x FROM c", s.Rows/2)},
	}
	if s.JournalMode == "PERSIST" {
		// a journal left behind by an earlier committed transaction
		init = append(init, oracle.Stmt{SQL: "PRAGMA journal_mode=PERSIST", Fetch: true})
		if s.Limit != "" {
			init = append(init, oracle.Stmt{SQL: "PRAGMA journal_size_limit=" + s.Limit, Fetch: true})
		}
		init = append(init, oracle.Stmt{SQL: "INSERT INTO t (b, c) VALUES (0, 'earlier transaction')"})
	}
	res, err := env.Create("b", base, s.PageSize, 0, init)
	sqdb.MustOK(r, t, "base", res, err, len(init)+2)
	env.O.Close("b")
	_, err = os.Stat(base + "-journal")
	baseJournal := err == nil

	// a database whose name is so long that "<name>-journal" is no possible
	// file name: it has no journal, it reads like any other
	longName := filepath.Join(dir, strings.Repeat("n", 243)+".sqlite") // 250 bytes; + "-journal" = 258 > NAME_MAX
	if err := copyFile(base, longName); err == nil {
		if err := env.O.Open("long", longName); err == nil {
			wantN, qerr := env.O.Query("long", "SELECT count(*) FROM t")
			env.O.Close("long")
			if qerr == nil {
				n := int64(0)
				h, err := sqlittle.Open(longName)
				if err == nil {
					err = h.Select("t", func(sqlittle.Row) { n++ }, "a")
					h.Close()
				}
				if err != nil || n != wantN[0][0].I {
					os.Remove(longName)
					r.Violation(t, s, "error-without-journal:name-too-long-for-a-journal", "a database file with a name of 250 bytes (its journal could not even be named): sqlittle reads %d rows, error %v; SQLite reads %d rows", n, err, wantN[0][0].I)
					return
				}
				r.Count("long-named-database-read", 1)
			}
		}
		os.Remove(longName)
	}
	work := filepath.Join(dir, "work.sqlite")
	prepare := func() {
		sqdb.Remove(work)
		if err := copyFile(base, work); err != nil {
			r.Harness(t, "copy: %v", err)
		}
		if baseJournal {
			copyFile(base+"-journal", work+"-journal")
		}
	}
	// learn the sequence of file operations
	prepare()
	logPath := filepath.Join(dir, "ops.log")
	os.Remove(logPath)
	if rc := runWriter(r, t, dir, work, s, 0, false, logPath); rc != 0 {
		r.Harness(t, "uninterrupted writer: rc %d", rc)
	}
	var ops []fileOp
	if f, err := os.Open(logPath); err == nil {
		sc := bufio.NewScanner(f)
		for sc.Scan() {
			fs := strings.Fields(sc.Text())
			if len(fs) >= 3 {
				var n int
				fmt.Sscan(fs[0], &n)
				ops = append(ops, fileOp{n, fs[1], fs[2]})
			}
		}
		f.Close()
	}
	if len(ops) < 4 {
		r.Exclude("transaction-writes-nothing")
		return
	}
	firstDBWrite, lastJournalOp := -1, -1
	for i, o := range ops {
		if !strings.HasSuffix(o.Path, "-journal") && o.Op == "pwrite" && firstDBWrite < 0 {
			firstDBWrite = i + 1
		}
		if strings.HasSuffix(o.Path, "-journal") {
			lastJournalOp = i + 1
		}
	}
	shard, nshards := vt.Shard()
	_ = shard
	_ = nshards
	points := 0
	for k := 1; k <= len(ops)+1; k++ {
		if s.K > 0 && k != s.K {
			continue
		}
		for _, torn := range []bool{false, true} {
			if s.K > 0 && torn != s.Torn {
				continue
			}
			if torn && (k > len(ops) || (ops[k-1].Op != "pwrite" && ops[k-1].Op != "write")) {
				continue
			}
			prepare()
			rc := runWriter(r, t, dir, work, s, k, torn, "")
			if k <= len(ops) && rc != 99 {
				r.Harness(t, "writer was not killed at operation %d of %d (rc %d)", k, len(ops), rc)
			}
			points++
			opName := "after-the-last-operation"
			if k <= len(ops) {
				opName = ops[k-1].Op + ":" + map[bool]string{true: "journal", false: "db"}[strings.HasSuffix(ops[k-1].Path, "-journal")]
			}
			// the state left behind
			jinfo, jerr := os.Stat(work + "-journal")
			jstate := "absent"
			mustSucceed := true
			if jerr == nil {
				hdr := make([]byte, 28)
				n := 0
				if f, err := os.Open(work + "-journal"); err == nil {
					n, _ = io.ReadFull(f, hdr)
					f.Close()
				}
				switch {
				case jinfo.Size() == 0:
					jstate = "empty"
				case n == 28 && bytes.Equal(hdr, make([]byte, 28)):
					jstate = "zero-header"
				case n < 28 && bytes.Equal(hdr[:n], make([]byte, n)):
					// what a commit leaves with a journal_size_limit below the
					// size of a header; SQLite: first byte zero = not hot
					jstate = "zero-shorter-than-a-header"
				case n >= 8 && bytes.Equal(hdr[:8], journalMagic):
					jstate = "magic"
					mustSucceed = false
				default:
					jstate = "other"
					mustSucceed = false
				}
			}
			nontrivial := firstDBWrite > 0 && k > firstDBWrite && k <= lastJournalOp && jstate == "magic"
			cp := s
			cp.K, cp.Torn = k, torn
			r.CaseKey(vt.Hash(cp), nontrivial, "crash:"+s.JournalMode+":"+opName+map[bool]string{true: ":torn", false: ""}[torn], func() interface{} { return cp })
			r.Count(fmt.Sprintf("sector:%v", map[bool]int{true: 4096, false: 512}[s.BigSector]), 1)
			r.Count("journal-left:"+jstate, 1)
			r.Count("synchronous:"+map[bool]string{true: "FULL", false: s.Sync}[s.Sync == ""], 1)
			if s.Limit != "" {
				r.Count("journal-size-limit-set", 1)
			}

			// two copies: one for sqlittle, one for SQLite's own recovery
			a, b := filepath.Join(dir, "a.sqlite"), filepath.Join(dir, "b.sqlite")
			sqdb.Remove(a)
			sqdb.Remove(b)
			copyFile(work, a)
			copyFile(work, b)
			if jerr == nil {
				copyFile(work+"-journal", a+"-journal")
				copyFile(work+"-journal", b+"-journal")
			}
			// a handle opened before the writer started, still open when it crashed
			c := filepath.Join(dir, "c.sqlite")
			sqdb.Remove(c)
			copyFile(base, c)
			if baseJournal {
				copyFile(base+"-journal", c+"-journal")
			}
			old, oerr := sqlittle.Open(c)
			if oerr != nil {
				r.Violation(t, cp, "error-without-hot-journal", "journal mode %s, journal_size_limit %q: the database as SQLite left it after its last completed commit (journal file present: %v) does not open: %v", s.JournalMode, s.Limit, baseJournal, oerr)
				return
			}
			// it has only looked at the schema so far (had it read everything,
			// a small database would be answered from its page cache)
			if _, err := old.Columns("t"); err != nil {
				old.Close()
				r.Violation(t, cp, "error-without-hot-journal", "journal mode %s, journal_size_limit %q: the database as SQLite left it after its last completed commit (journal file present: %v) cannot be read: %v", s.JournalMode, s.Limit, baseJournal, err)
				return
			}
			// (before the crash it was also refused once - a SQLite connection
			// held EXCLUSIVE at that moment - and then read the schema again)
			if err := env.O.Open("busy", c); err != nil {
				r.Harness(t, "open busy: %v", err)
			}
			if err := env.O.Exec("busy", "BEGIN EXCLUSIVE"); err != nil {
				r.Harness(t, "begin exclusive: %v", err)
			}
			if err := old.Select("t", func(sqlittle.Row) {}, "a"); err != nil {
				r.Count("pre-crash-handle-refused-once", 1)
			}
			if err := env.O.Exec("busy", "ROLLBACK"); err != nil {
				r.Harness(t, "rollback busy: %v", err)
			}
			env.O.Close("busy")
			if _, err := old.Columns("t"); err != nil {
				old.Close()
				r.Violation(t, cp, "error-without-hot-journal", "journal mode %s: the base state cannot be read after another connection's EXCLUSIVE lock is gone: %v", s.JournalMode, err)
				return
			}
			overwrite(work, c)
			os.Remove(c + "-journal")
			if jerr == nil {
				copyFile(work+"-journal", c+"-journal")
			}
			// (its first call after the crash is a plain high-level select)
			var first2 [][]interface{}
			ferr2 := old.Select("t", func(row sqlittle.Row) { first2 = append(first2, append([]interface{}{}, row...)) }, "a", "b", "c")
			got2, gerr2 := readAllHandle(old)
			old.Close()
			// ... and one that was opened before the writer started and has
			// not been used at all yet: its first transaction comes after the crash
			e := filepath.Join(dir, "e.sqlite")
			sqdb.Remove(e)
			copyFile(base, e)
			if baseJournal {
				copyFile(base+"-journal", e+"-journal")
			}
			unused, uerr := sqlittle.Open(e)
			if uerr != nil {
				r.Violation(t, cp, "error-without-hot-journal", "journal mode %s, journal_size_limit %q: the database as SQLite left it after its last completed commit (journal file present: %v) does not open: %v", s.JournalMode, s.Limit, baseJournal, uerr)
				return
			}
			overwrite(work, e)
			os.Remove(e + "-journal")
			if jerr == nil {
				copyFile(work+"-journal", e+"-journal")
			}
			// (its very first call is a select, not a look at the catalogue)
			var first4 [][]interface{}
			ferr4 := unused.Select("t", func(row sqlittle.Row) { first4 = append(first4, append([]interface{}{}, row...)) }, "a", "b", "c")
			got4, gerr4 := readAllHandle(unused)
			unused.Close()
			got, gerr := readAllSqlittle(a)
			// a third reader arrives while another process holds a read lock
			// on the shared range (another reader that is looking at the file
			// at this moment): that is no sign of a living writer
			d := filepath.Join(dir, "d.sqlite")
			sqdb.Remove(d)
			copyFile(work, d)
			if jerr == nil {
				copyFile(work+"-journal", d+"-journal")
			}
			if pr, err := peer.Call("rawshared", d); err != nil || !pr.Held {
				r.Harness(t, "peer rawshared: %v %s", err, pr.Err)
			}
			got3, gerr3 := readAllSqlittle(d)
			peer.Call("rawunlock", "")
			if err := env.O.Open("rec", b); err != nil {
				r.Harness(t, "open recovery copy: %v", err)
			}
			names, err := env.O.Query("rec", "SELECT name FROM sqlite_master WHERE type='table' ORDER BY rowid")
			if err != nil {
				env.O.Close("rec")
				r.Exclude("sqlite-cannot-recover:" + jstate)
				continue
			}
			want := map[string][]val.Row{}
			for _, nr := range names {
				tn := string(nr[0].B)
				ob := "rowid"
				if tn == "w" {
					ob = "k"
				}
				rows, err := env.O.Query("rec", "SELECT * FROM "+e1.QIdent(tn)+" ORDER BY "+ob)
				if err != nil {
					r.Harness(t, "recovered select: %v", err)
				}
				want[strings.ToLower(tn)] = rows
			}
			env.O.Close("rec")
			where0 := fmt.Sprintf("journal mode %s, page size %d, transaction %q, writer killed before operation %d of %d (%s, torn=%v); journal left: %s", s.JournalMode, s.PageSize, s.Stmts, k, len(ops), opName, torn, jstate)
			type observer struct {
				name string
				got  map[string][][]interface{}
				err  error
			}
			for _, fs := range []struct {
				who  string
				rows [][]interface{}
				err  error
			}{{"handle opened before the crash and not used until after it", first4, ferr4}, {"handle opened before the crash (refused once by a busy writer, then used) at its first select after the crash", first2, ferr2}} {
				if fs.err == nil {
					// the table t may have lost or gained rows, and column d; a, b, c are the first three columns
					wrows, ok := want["t"]
					bad := !ok || len(wrows) != len(fs.rows)
					for i := 0; !bad && i < len(wrows); i++ {
						if len(wrows[i]) < 3 || !e1.SameRow(fs.rows[i], wrows[i][:3]) {
							bad = true
						}
					}
					if bad {
						r.Violation(t, cp, "unrecovered-state-read", "%s; %s: Select(t) succeeds with %d rows that are not the state SQLite recovers (%d rows)", where0, fs.who, len(fs.rows), len(wrows))
						return
					}
					if mustSucceed {
						r.Count("sqlittle-read", 1)
					}
				} else if mustSucceed {
					r.Violation(t, cp, "error-without-hot-journal", "%s; %s: Select(t) fails (%v) although no transaction needs recovery", where0, fs.who, fs.err)
					return
				}
			}
			// the same files reached under other names: through a symbolic link
			// to the database file (SQLite keeps the journal next to the real
			// file), and by a relative name with the working directory changed
			// between Open and the read
			f := filepath.Join(dir, "f.sqlite")
			sqdb.Remove(f)
			copyFile(work, f)
			if jerr == nil {
				copyFile(work+"-journal", f+"-journal")
			}
			linkDir := filepath.Join(dir, "links")
			os.MkdirAll(linkDir, 0o755)
			link := filepath.Join(linkDir, "via-link.sqlite")
			os.Remove(link)
			if err := os.Symlink(f, link); err != nil {
				r.Harness(t, "symlink: %v", err)
			}
			got5, gerr5 := readAllSqlittle(link)
			os.Remove(link)
			// ... and through a symbolic link to a directory followed by "..":
			// the kernel resolves the link first, so <dir>/lnk/../g.sqlite is
			// <dir>/nest/g.sqlite (lnk -> nest/deep), not <dir>/g.sqlite
			deep := filepath.Join(dir, "nest", "deep")
			os.MkdirAll(deep, 0o755)
			g := filepath.Join(dir, "nest", "g.sqlite")
			sqdb.Remove(g)
			copyFile(work, g)
			if jerr == nil {
				copyFile(work+"-journal", g+"-journal")
			}
			lnk := filepath.Join(dir, "lnk")
			os.Remove(lnk)
			if err := os.Symlink(deep, lnk); err != nil {
				r.Harness(t, "symlink: %v", err)
			}
			got7, gerr7 := readAllSqlittle(lnk + "/../g.sqlite")
			os.Remove(lnk)
			var got6 map[string][][]interface{}
			var gerr6 error
			func() {
				wd, err := os.Getwd()
				if err != nil {
					r.Harness(t, "getwd: %v", err)
				}
				defer os.Chdir(wd)
				if err := os.Chdir(dir); err != nil {
					r.Harness(t, "chdir: %v", err)
				}
				h, err := sqlittle.Open("f.sqlite")
				if err != nil {
					gerr6 = err
					return
				}
				defer h.Close()
				if err := os.Chdir(linkDir); err != nil {
					r.Harness(t, "chdir: %v", err)
				}
				got6, gerr6 = readAllHandle(h)
			}()
			// ... and a handle opened before the crash that runs out of file
			// descriptors: it cannot open the journal to look at it. Refusing
			// is fine; reading on as if there were no journal is not.
			var got8 map[string][][]interface{}
			var gerr8 error
			if jerr == nil {
				hh := filepath.Join(dir, "h.sqlite")
				sqdb.Remove(hh)
				copyFile(base, hh)
				if baseJournal {
					copyFile(base+"-journal", hh+"-journal")
				}
				if h8, err := sqlittle.Open(hh); err == nil {
					if _, err := h8.Columns("t"); err == nil {
						overwrite(work, hh)
						os.Remove(hh + "-journal")
						copyFile(work+"-journal", hh+"-journal")
						var lim syscall.Rlimit
						if err := syscall.Getrlimit(syscall.RLIMIT_NOFILE, &lim); err != nil {
							r.Harness(t, "getrlimit: %v", err)
						}
						none := lim
						none.Cur = 0
						if err := syscall.Setrlimit(syscall.RLIMIT_NOFILE, &none); err != nil {
							r.Harness(t, "setrlimit: %v", err)
						}
						got8, gerr8 = readAllHandle(h8)
						if err := syscall.Setrlimit(syscall.RLIMIT_NOFILE, &lim); err != nil {
							r.Harness(t, "setrlimit back: %v", err)
						}
						r.Count("reads-without-file-descriptors", 1)
						if gerr8 != nil {
							got8 = nil
						}
					}
					h8.Close()
				}
			}
			// ... and a handle that was opened while a living connection was in
			// the middle of a write transaction which had already spilled pages
			// (its journal valid, EXCLUSIVE held: the handle asked "is the
			// journal's owner alive?" and was told yes); that transaction is
			// rolled back, then comes the crash, and at the handle's next read
			// another process holds a read lock on the shared range
			var got9 map[string][][]interface{}
			var gerr9 error
			i9 := filepath.Join(dir, "i.sqlite")
			sqdb.Remove(i9)
			copyFile(base, i9)
			if baseJournal {
				copyFile(base+"-journal", i9+"-journal")
			}
			if err := env.O.Open("live", i9); err != nil {
				r.Harness(t, "open live: %v", err)
			}
			liveTxn := []oracle.Stmt{{SQL: "PRAGMA synchronous=OFF", Fetch: true}, {SQL: "PRAGMA cache_size=1", Fetch: true}, {SQL: "BEGIN"},
				{SQL: "UPDATE t SET c = c || hex(zeroblob(300))"}, {SQL: "UPDATE t SET b = b + 1000"}}
			lres, lerr := env.O.Script("live", liveTxn, true)
			sqdb.MustOK(r, t, "live transaction", lres, lerr, len(liveTxn))
			h9, oerr9 := sqlittle.Open(i9)
			if err := env.O.Exec("live", "ROLLBACK"); err != nil {
				r.Harness(t, "rollback live: %v", err)
			}
			env.O.Close("live")
			if oerr9 == nil {
				overwrite(work, i9)
				os.Remove(i9 + "-journal")
				if jerr == nil {
					copyFile(work+"-journal", i9+"-journal")
				}
				if pr, err := peer.Call("rawshared", i9); err != nil || !pr.Held {
					r.Harness(t, "peer rawshared: %v %s", err, pr.Err)
				}
				got9, gerr9 = readAllHandle(h9)
				peer.Call("rawunlock", "")
				h9.Close()
				r.Count("handles-opened-under-a-live-spilled-transaction", 1)
			}
			// ... and the files as somebody froze them after the crash: no write
			// permission for anybody (an archive, a read-only mount). Who may
			// write now says nothing about what a writer left behind before.
			j10 := filepath.Join(dir, "j.sqlite")
			sqdb.Remove(j10)
			copyFile(work, j10)
			if jerr == nil {
				copyFile(work+"-journal", j10+"-journal")
			}
			os.Chmod(j10, []os.FileMode{0o444, 0o400}[k%2])
			got10, gerr10 := readAllSqlittle(j10)
			os.Chmod(j10, 0o644)
			// ... and a file system that has no POSIX locks: the probe of the
			// RESERVED byte (is the journal's writer still alive?) fails with
			// ENOLCK. Nobody can tell then; refusing is right, reading is only
			// right if it shows what SQLite recovers.
			k11 := filepath.Join(dir, "k.sqlite")
			sqdb.Remove(k11)
			copyFile(work, k11)
			if jerr == nil {
				copyFile(work+"-journal", k11+"-journal")
			}
			var got11 map[string][][]interface{}
			if fp, err := sdb.VerifFilePager(k11); err == nil {
				flt := &pagers.Fault{P: fp, ReservedErr: syscall.ENOLCK}
				if d11, err := sdb.VerifOpen(flt, k11+"-journal"); err == nil {
					if g, err := readAllHandle(sqlittle.VerifWrap(d11)); err == nil {
						got11 = g
					}
					d11.Close()
				} else {
					fp.Close()
				}
				r.Count("reads-with-a-failing-reserved-probe", 1)
			}
			if got11 != nil {
				bad := len(got11) != len(want)
				for tn, wrows := range want {
					grows, ok := got11[tn]
					if !ok || len(grows) != len(wrows) {
						bad = true
						break
					}
					for i := range wrows {
						if !e1.SameRow(grows[i], wrows[i]) {
							bad = true
						}
					}
				}
				if bad {
					r.Violation(t, cp, "unrecovered-state-read", "%s; fresh handle on a file system without POSIX locks (the probe of the RESERVED byte fails with ENOLCK): the read succeeds with content that is not what SQLite recovers", where0)
					return
				}
			}
			if got8 != nil {
				// (judged like the others below, but only when it delivered data)
				bad := len(got8) != len(want)
				for tn, wrows := range want {
					grows, ok := got8[tn]
					if !ok || len(grows) != len(wrows) {
						bad = true
						break
					}
					for i := range wrows {
						if !e1.SameRow(grows[i], wrows[i]) {
							bad = true
						}
					}
				}
				if bad {
					r.Violation(t, cp, "unrecovered-state-read", "%s; handle opened before the crash, process out of file descriptors at its next read (the journal cannot be opened): the read succeeds with content that is not what SQLite recovers", where0)
					return
				}
			}
			for _, ob := range []observer{{"fresh handle", got, gerr}, {"handle opened before the crash", got2, gerr2}, {"fresh handle while another process holds a read lock", got3, gerr3}, {"handle opened before the crash and not used until after it", got4, gerr4},
				{"fresh handle opened through a symbolic link to the database file", got5, gerr5}, {"handle opened by a relative name, working directory changed before the read", got6, gerr6},
				{"fresh handle opened by a name leading through a symbolic link to a directory and ..", got7, gerr7}, {"handle opened while a living connection had a spilled write transaction open (since rolled back); another process holds a read lock now", got9, gerr9},
				{"fresh handle on the files with every write permission bit of the database file removed", got10, gerr10}} {
				if ob.got == nil && ob.err == nil {
					continue // (that handle could not be opened at the time)
				}
				got, gerr := ob.got, ob.err
				where := where0 + "; " + ob.name
				if gerr != nil {
					if mustSucceed {
						r.Violation(t, cp, "error-without-hot-journal", "%s: sqlittle refuses to read (%v) although no transaction needs recovery", where, gerr)
						return
					}
					r.Count("sqlittle-refused", 1)
					continue
				}
				r.Count("sqlittle-read", 1)
				if len(got) != len(want) {
					r.Violation(t, cp, "unrecovered-state-read", "%s: sqlittle sees %d tables, SQLite after recovery %d", where, len(got), len(want))
					return
				}
				for tn, wrows := range want {
					grows, ok := got[tn]
					if !ok || len(grows) != len(wrows) {
						r.Violation(t, cp, "unrecovered-state-read", "%s: table %s has %d rows for sqlittle, %d for SQLite after recovery", where, tn, len(grows), len(wrows))
						return
					}
					for i := range wrows {
						if !e1.SameRow(grows[i], wrows[i]) {
							r.Violation(t, cp, "unrecovered-state-read", "%s: table %s row %d is %s, SQLite after recovery %s", where, tn, i, e1.ShowGot(grows[i]), wrows[i])
							return
						}
					}
				}
			}
		}
	}
	r.Count("crash-points", points)
	r.Count("transactions", 1)
}
