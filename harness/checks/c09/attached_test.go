package c09

// A transaction over two database files (the second one attached): SQLite
// commits it through a super-journal that names the journals of both files.
// A writer killed anywhere in that transaction leaves journals that are hot
// as long as the super-journal exists. For each file a reader either refuses
// it or shows what SQLite shows after its recovery - never rows of the
// transaction that did not commit.
//
// sqlittle reads first (it changes nothing), then SQLite recovers the very
// same files in place: the journals name the super-journal by its path.

import (
	"bufio"
	"fmt"
	"os"
	"path/filepath"
	"strings"
	"testing"

	"pgregory.net/rapid"

	"verif/e1"
	"verif/oracle"
	"verif/sqdb"
	"verif/vt"
)

func TestC09Attached(t *testing.T) {
	vt.Exec(t, vt.Check[spec]{
		ID: "C09", Test: "TestC09Attached",
		Setup: func(r *vt.Run, t *testing.T) {
			var err error
			if env, err = sqdb.NewEnv(); err != nil {
				r.Harness(t, "env: %v", err)
			}
		},
		Teardown: func() { env.Close() },
		Gen: func(t *rapid.T) spec {
			return spec{
				PageSize:    rapid.SampledFrom([]int{512, 1024}).Draw(t, "ps"),
				JournalMode: rapid.SampledFrom([]string{"DELETE", "TRUNCATE", "PERSIST"}).Draw(t, "jm"),
				Rows:        rapid.SampledFrom([]int{20, 200}).Draw(t, "rows"),
				Sync:        rapid.SampledFrom([]string{"", "", "NORMAL"}).Draw(t, "sync"),
			}
		},
		Run: runAttached,
	})
}

func runAttached(r *vt.Run, t vt.TB, s spec) {
	dir, err := os.MkdirTemp(env.Dir, "attached-")
	if err != nil {
		r.Harness(t, "tempdir: %v", err)
	}
	defer os.RemoveAll(dir)
	base := filepath.Join(dir, "base")
	work := filepath.Join(dir, "work")
	os.MkdirAll(base, 0o755)
	mk := func(name, tag string) {
		p := filepath.Join(base, name)
		init := []oracle.Stmt{
			{SQL: "CREATE TABLE t (a INTEGER PRIMARY KEY, b, c TEXT)"},
			{SQL: fmt.Sprintf("WITH RECURSIVE c(x) AS (SELECT 1 UNION ALL SELECT x+1 FROM c WHERE x < %d) INSERT INTO t (b, c) SELECT x, '%s-old-'||x FROM c", s.Rows, tag)},
		}
		res, err := env.Create("ab", p, s.PageSize, 0, init)
		sqdb.MustOK(r, t, "base "+name, res, err, len(init)+2)
		env.O.Close("ab")
	}
	mk("a.sqlite", "a")
	mk("b.sqlite", "b")
	prepare := func() {
		os.RemoveAll(work)
		os.MkdirAll(work, 0o755)
		for _, n := range []string{"a.sqlite", "b.sqlite"} {
			if err := copyFile(filepath.Join(base, n), filepath.Join(work, n)); err != nil {
				r.Harness(t, "copy: %v", err)
			}
		}
	}
	wa, wb := filepath.Join(work, "a.sqlite"), filepath.Join(work, "b.sqlite")
	ws := s
	ws.Stmts = []string{
		"@ATTACH DATABASE '" + wb + "' AS aux",
		"UPDATE main.t SET c = 'a-new-' || a",
		"UPDATE aux.t SET c = 'b-new-' || a",
		"INSERT INTO aux.t (b, c) VALUES (-1, 'b-new-row')",
	}
	// learn the sequence of file operations on everything in the work directory
	prepare()
	logPath := filepath.Join(dir, "ops.log")
	if rc := runWriterMatch(r, t, dir, wa, work+"/", ws, 0, logPath); rc != 0 {
		r.Harness(t, "uninterrupted writer: rc %d", rc)
	}
	var ops []fileOp
	if f, err := os.Open(logPath); err == nil {
		sc := bufio.NewScanner(f)
		for sc.Scan() {
			fs := strings.Fields(sc.Text())
			if len(fs) >= 3 {
				var n int
				fmt.Sscan(fs[0], &n)
				ops = append(ops, fileOp{n, fs[1], fs[2]})
			}
		}
		f.Close()
	}
	super := false
	for _, o := range ops {
		if strings.Contains(o.Path, "-mj") {
			super = true
		}
	}
	if !super {
		r.Harness(t, "the transaction over two files used no super-journal (%d operations)", len(ops))
	}
	read := func(p string) ([]string, error) {
		got, err := readAllSqlittle(p)
		if err != nil {
			return nil, err
		}
		var out []string
		for _, row := range got["t"] {
			out = append(out, e1.ShowGot(row))
		}
		return out, nil
	}
	for k := 1; k <= len(ops)+1; k++ {
		if s.K > 0 && k != s.K {
			continue
		}
		prepare()
		rc := runWriterMatch(r, t, dir, wa, work+"/", ws, k, "")
		if k <= len(ops) && rc != 99 {
			r.Harness(t, "writer was not killed at operation %d of %d (rc %d)", k, len(ops), rc)
		}
		opName := "after-the-last-operation"
		if k <= len(ops) {
			opName = ops[k-1].Op + ":" + filepath.Base(ops[k-1].Path)
			if i := strings.Index(opName, "-mj"); i >= 0 {
				opName = opName[:i] + "-mj"
			}
		}
		ents, _ := os.ReadDir(work)
		var left []string
		for _, e := range ents {
			if !strings.HasSuffix(e.Name(), ".sqlite") {
				n := e.Name()
				if i := strings.Index(n, "-mj"); i >= 0 {
					n = n[:i] + "-mj*"
				}
				left = append(left, n)
			}
		}
		cp := s
		cp.K = k
		r.CaseKey(vt.Hash(cp), len(left) > 0, "attached:"+s.JournalMode+":"+opName, func() interface{} { return cp })
		// sqlittle first: it changes nothing
		gotA, errA := read(wa)
		gotB, errB := read(wb)
		// then SQLite, in place
		want := map[string][]string{}
		for name, p := range map[string]string{"a": wa, "b": wb} {
			if err := env.O.Open("rec", p); err != nil {
				r.Harness(t, "recovery open: %v", err)
			}
			rows, err := env.O.Query("rec", "SELECT a, b, c FROM t ORDER BY a")
			env.O.Close("rec")
			if err != nil {
				r.Harness(t, "recovered select: %v", err)
			}
			for _, row := range rows {
				want[name] = append(want[name], row.String())
			}
		}
		for _, x := range []struct {
			name string
			got  []string
			err  error
		}{{"a", gotA, errA}, {"b", gotB, errB}} {
			if x.err != nil {
				r.Count("attached:refused", 1)
				continue
			}
			if strings.Join(x.got, "\n") != strings.Join(want[x.name], "\n") {
				first := ""
				for i := range x.got {
					if i >= len(want[x.name]) || x.got[i] != want[x.name][i] {
						first = x.got[i]
						break
					}
				}
				r.Violation(t, cp, "attached:unrecovered-state-read", "journal mode %s, transaction over two attached files, writer killed before operation %d of %d (%s); left next to the files: %v; a fresh handle reads file %s without error: %d rows (first that differs: %s), SQLite recovers it to %d rows (first: %s)", s.JournalMode, k, len(ops), opName, left, x.name, len(x.got), first, len(want[x.name]), want[x.name][0])
				return
			}
			r.Count("attached:read-as-recovered", 1)
		}
	}
}
