package c02

// C03 on images from the independent builder: file shapes SQLite itself does
// not write any more but still reads (schema formats 2 and 3, in which DESC
// in index definitions is ignored), trees of chosen shape, secondary indexes
// on WITHOUT ROWID tables. The expected rows come from the builder's own
// content (filtered with the reference comparator under the index column's
// collation); SQLite cross-validates the image whenever sqlittle disagrees
// and for a sample of the cases that agree.

import (
	"fmt"
	"sort"
	"strings"
	"testing"

	"github.com/alicebob/sqlittle"
	"pgregory.net/rapid"

	"verif/bt"
	"verif/btgen"
	"verif/refcmp"
	"verif/val"
	"verif/vt"
)

type builderSpec struct {
	Img  bt.Image
	Seed uint64
}

func TestC03Builder(t *testing.T) {
	vt.Exec(t, vt.Check[builderSpec]{
		ID: "C03", Test: "TestC03Builder",
		Setup: setup, Teardown: func() { env.Close() },
		Gen: func(t *rapid.T) builderSpec {
			return builderSpec{
				Img:  btgen.Image(t, btgen.Opts{MaxRows: 40, Indexes: true, WR: true, LongValues: true, RowidAlias: true}),
				Seed: rapid.Uint64().Draw(t, "seed"),
			}
		},
		Run: runBuilder,
	})
}

func renderVals(vs []val.V) string { return val.Row(vs).String() }

func runBuilder(r *vt.Run, t vt.TB, s builderSpec) {
	built, err := bt.Build(&s.Img)
	if err != nil {
		r.Exclude("layout-impossible")
		return
	}
	validated := false
	validate := func(problem string) {
		if validated {
			return
		}
		validated = true
		diff, err := bt.SQLiteAgrees(env.O, env.Dir, built)
		if err != nil {
			r.Harness(t, "cross validation failed to run: %v (%s)", err, problem)
		}
		if diff != "" {
			r.Harness(t, "builder and SQLite disagree about the image (%s); %s", diff, problem)
		}
		r.Count("builder:sqlite-validated", 1)
	}
	fail := func(sig, format string, args ...interface{}) {
		problem := fmt.Sprintf(format, args...)
		validate("sqlittle: " + problem)
		r.Violation(t, s, sig, "schema format %d: %s", s.Img.Header.SchemaFormat, problem)
	}
	d, _, err := bt.Open(built.Img)
	if err != nil {
		fail("builder:open", "open: %v", err)
		return
	}
	defer d.Close()
	hl := sqlittle.VerifWrap(d)
	rs := s.Seed
	next := func(n int) int {
		rs = rs*6364136223846793005 + 1442695040888963407
		if n <= 0 {
			return 0
		}
		return int((rs >> 33) % uint64(n))
	}
	searches, descIdx := 0, 0
	format := s.Img.Header.SchemaFormat
	if format == 0 {
		format = 4
	}
	for _, name := range []string{"t", "w"} {
		bt0 := built.Tables[name]
		if bt0 == nil {
			continue
		}
		tab := bt0.Spec
		cols := tab.ColNames()
		// all rows in logical form
		var rows [][]val.V
		if tab.WithoutRowid {
			for _, e := range bt0.Entries {
				rows = append(rows, append([]val.V{}, padVals(e.Values, tab.NCols)...))
			}
		} else {
			for _, row := range bt0.Rows {
				rows = append(rows, tab.Logical(row))
			}
		}
		multiset := func(rr [][]val.V) string {
			var ss []string
			for _, x := range rr {
				ss = append(ss, renderVals(x))
			}
			sort.Strings(ss)
			return strings.Join(ss, "\n")
		}
		search := func(what string, column int, coll string, key val.V, f func(cb sqlittle.RowCB) error) bool {
			searches++
			var got [][]val.V
			bad := false
			err := f(func(row sqlittle.Row) {
				vs, ok := rowVals(row)
				if !ok {
					bad = true
				}
				got = append(got, vs)
			})
			if err != nil || bad {
				fail("builder:search-error", "%s: error %v (unsupported value: %v)", what, err, bad)
				return false
			}
			var want [][]val.V
			if key.T != 'n' { // `= NULL` matches nothing in SQL; sqlittle's Eq with a nil key is not compared here
				c := coll
				if c == "" {
					c = refcmp.Binary
				}
				for _, row := range rows {
					if row[column].T != 'n' && refcmp.Compare(row[column], key, c) == 0 {
						want = append(want, row)
					}
				}
			} else {
				return true
			}
			if multiset(got) != multiset(want) {
				fail("builder:search-rows", "%s: %d rows %.300s; the table holds %d matching rows %.300s", what, len(got), multiset(got), len(want), multiset(want))
				return false
			}
			return true
		}
		// secondary indexes: equality on the first indexed column
		var inames []string
		for n := range bt0.Indexes {
			inames = append(inames, n)
		}
		sort.Strings(inames)
		for _, iname := range inames {
			bi := bt0.Indexes[iname]
			if len(bi.Spec.Desc) > 0 && bi.Spec.Desc[0] {
				descIdx++
			}
			if len(bi.Entries) == 0 {
				continue
			}
			col := bi.Spec.Cols[0]
			coll := ""
			if len(bi.Spec.Coll) > 0 {
				coll = bi.Spec.Coll[0]
			}
			for k := 0; k < 4; k++ {
				key := bi.Entries[next(len(bi.Entries))].Values[0]
				if !search(fmt.Sprintf("IndexedSelectEq(%s, %s, [%s]) (first indexed column %s, collation %q, declared DESC %v)", name, iname, key, cols[col], coll, len(bi.Spec.Desc) > 0 && bi.Spec.Desc[0]),
					col, coll, key, func(cb sqlittle.RowCB) error {
						return hl.IndexedSelectEq(name, iname, sqlittle.Key{key.Go()}, cb, cols...)
					}) {
					return
				}
			}
		}
		// primary key
		if tab.WithoutRowid && len(bt0.Entries) > 0 {
			for k := 0; k < 4; k++ {
				key := bt0.Entries[next(len(bt0.Entries))].Values[0]
				coll := ""
				if len(tab.PKColl) > 0 {
					coll = tab.PKColl[0]
				}
				if !search(fmt.Sprintf("PKSelect(%s, [%s]) (first key column, collation %q, declared DESC %v)", name, key, coll, len(tab.PKDesc) > 0 && tab.PKDesc[0]),
					0, coll, key, func(cb sqlittle.RowCB) error {
						return hl.PKSelect(name, sqlittle.Key{key.Go()}, cb, cols...)
					}) {
					return
				}
			}
		}
		if !tab.WithoutRowid && tab.RowidAlias && len(bt0.Rows) > 0 {
			for k := 0; k < 3; k++ {
				rid := bt0.Rows[next(len(bt0.Rows))].Rowid
				if !search(fmt.Sprintf("PKSelect(%s, [%d]) (rowid alias)", name, rid), 0, "", val.Int(rid), func(cb sqlittle.RowCB) error {
					return hl.PKSelect(name, sqlittle.Key{rid}, cb, cols...)
				}) {
					return
				}
			}
		}
	}
	r.Case(s, searches > 0, fmt.Sprintf("builder:schema-format=%d", format), fmt.Sprintf("builder:desc-declared=%v", descIdx > 0))
	r.Count("builder:searches", searches)
	if format < 4 && descIdx > 0 {
		r.Count("builder:legacy-format-with-desc-index", 1)
	}
	// a sample of agreeing cases is cross-validated too (the builder must
	// not drift from what SQLite reads)
	if next(12) == 0 || (format < 4 && next(3) == 0) {
		validate("(sampled)")
	}
}

func padVals(vs []val.V, n int) []val.V {
	out := append([]val.V{}, vs...)
	for len(out) < n {
		out = append(out, val.Null())
	}
	return out
}

func rowVals(row sqlittle.Row) ([]val.V, bool) {
	out := make([]val.V, len(row))
	for i, x := range row {
		v, ok := val.FromGo(x)
		if !ok {
			return nil, false
		}
		out[i] = v
	}
	return out, true
}
