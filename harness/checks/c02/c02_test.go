// C02 — index-ordered select visits exactly the indexed rows in index order.
// C03 — index and primary-key equality search returns exactly the matching
// rows. Both differential against real SQLite on files SQLite wrote (the
// tests of C03 live here too because they share the whole set-up).
package c02

import (
	"fmt"
	"strings"
	"testing"
	"verif/fold"

	"github.com/alicebob/sqlittle"
	sdb "github.com/alicebob/sqlittle/db"
	"pgregory.net/rapid"

	"verif/e1"
	"verif/gen"
	"verif/sqdb"
	"verif/sqlgen"
	"verif/val"
	"verif/vt"
)

var env *sqdb.Env

func setup(r *vt.Run, t *testing.T) {
	var err error
	if env, err = sqdb.NewEnv(); err != nil {
		r.Harness(t, "env: %v", err)
	}
}

type spec struct {
	DB   e1.Spec
	Keys []keyPick // C03 only
}

// keyPick derives one search key from stored data.
type keyPick struct {
	Row    int   // which stored entry (mod count)
	Prefix int   // how many key columns (mod n+1)
	Mutate int   // 0 none, 1 last column replaced by a neighbour, 2 by an arbitrary value
	Other  val.V // the arbitrary value
	Near   int   // selects the neighbour
	// GoType selects the Go type in which the key values are handed over
	// (Key accepts int, int32, uint, uint32, bool, float32 besides the five
	// SQLite classes); 0: the canonical int64 / float64
	GoType int `json:",omitempty"`
}

// goValue gives v as one of the Go types sqlittle.Key accepts, without
// changing its value. A REAL that is an integer at or above 2^63 can also be
// given as a uint (SQLite reads such an integer literal as that REAL).
func goValue(v val.V, variant int) interface{} {
	switch v.T {
	case 'i':
		switch variant % 6 {
		case 1:
			return int(v.I)
		case 2:
			if v.I >= -1<<31 && v.I < 1<<31 {
				return int32(v.I)
			}
		case 3:
			if v.I >= 0 {
				return uint(v.I)
			}
		case 4:
			if v.I >= 0 && v.I < 1<<32 {
				return uint32(v.I)
			}
		case 5:
			if v.I == 0 || v.I == 1 {
				return v.I == 1
			}
		}
	case 'r':
		f := v.Go().(float64)
		switch variant % 3 {
		case 1:
			if float64(float32(f)) == f {
				return float32(f)
			}
		case 2:
			if f >= 9223372036854775808.0 && f < 18446744073709551616.0 && f == float64(uint64(f)) {
				return uint(f)
			}
		}
	}
	return v.Go()
}

// indexOrder builds the ORDER BY list and the key expressions of an index
// from SQLite's own description (index_xinfo), using the spec for the text
// of expression columns. ok=false if an expression cannot be identified.
func indexOrder(ii e1.IndexInfo, def *sqlgen.Index, cat *e1.Catalog) (orderBy []string, keyExprs []string, keyColl []string, ok bool) {
	k := 0
	for _, x := range ii.Cols {
		var e string
		switch {
		case x.Cid >= 0:
			e = e1.QIdent(x.Name)
		case x.Cid == -1:
			e = cat.RowidName()
			if e == "" {
				return nil, nil, nil, false
			}
		default:
			if def == nil || k >= len(def.Exprs) {
				return nil, nil, nil, false
			}
			e = "(" + def.Exprs[k] + ")"
		}
		p := e + " COLLATE " + x.Coll
		if x.Desc {
			p += " DESC"
		}
		orderBy = append(orderBy, p)
		if x.Key {
			keyExprs = append(keyExprs, e)
			keyColl = append(keyColl, x.Coll)
			k++
		}
	}
	return orderBy, keyExprs, keyColl, true
}

type tableCtx struct {
	ts   e1.TableSpec
	cat  *e1.Catalog
	sch  *sdb.Schema
	cols []string // all visible columns
	sel  string   // select list for the oracle
}

// prepare builds the file and gives, per table sqlittle accepts, the context.
func prepare(r *vt.Run, t vt.TB, s e1.Spec, path string) (*sqlittle.DB, []tableCtx, bool) {
	created, _ := e1.Build(r, t, env, s, path)
	any := false
	for _, c := range created {
		any = any || c
	}
	if !any {
		r.Exclude("sqlite-rejects-every-create-table")
		return nil, nil, false
	}
	if err := env.O.Open("q", path); err != nil {
		r.Harness(t, "open for queries: %v", err)
	}
	db, err := sqlittle.Open(path)
	if err != nil {
		r.Violation(t, s, "open-error", "a database written by SQLite does not open: %v", err)
		return nil, nil, false
	}
	low := sqlittle.VerifLow(db)
	var out []tableCtx
	for ti, ts := range s.Tables {
		if !created[ti] {
			continue
		}
		name := ts.Def.Ident.Name
		sch, err := low.Schema(name)
		if err != nil {
			r.Count("table-definition-rejected", 1)
			continue
		}
		cat := e1.ReadCatalog(r, t, env.O, "q", name)
		tc := tableCtx{ts: ts, cat: cat, sch: sch}
		var sel []string
		for _, c := range cat.Columns {
			if c.Hidden == 0 {
				tc.cols = append(tc.cols, c.Name)
				sel = append(sel, e1.QIdent(c.Name))
			}
		}
		tc.sel = strings.Join(sel, ", ")
		out = append(out, tc)
	}
	return db, out, true
}

func findIndex(cat *e1.Catalog, name string) *e1.IndexInfo {
	for i := range cat.Indexes {
		if fold.Equal(cat.Indexes[i].Name, name) {
			return &cat.Indexes[i]
		}
	}
	return nil
}

func findDef(ts e1.TableSpec, name string) *sqlgen.Index {
	for i := range ts.Indexes {
		if fold.Equal(ts.Indexes[i].Ident.Name, name) {
			return &ts.Indexes[i]
		}
	}
	return nil
}

func TestC02IndexedSelect(t *testing.T) {
	vt.Exec(t, vt.Check[spec]{
		ID: "C02", Test: "TestC02IndexedSelect",
		Setup: setup, Teardown: func() { env.Close() },
		Gen: func(t *rapid.T) spec {
			return spec{DB: e1.Gen(t, e1.Opts{MaxTables: 2, Indexes: true, History: true, BigRows: vt.Pick(1200, 5000)})}
		},
		Run: runC02,
	})
}

func runC02(r *vt.Run, t vt.TB, s spec) {
	path := env.NewPath()
	defer sqdb.Remove(path)
	db, tables, ok := prepare(r, t, s.DB, path)
	defer env.O.Close("q")
	if !ok {
		return
	}
	defer db.Close()
	classes := []string{fmt.Sprintf("ps=%d", s.DB.PageSize)}
	nontrivial := false
	compared := 0
	for _, tc := range tables {
		name := tc.ts.Def.Ident.Name
		if e1.IntegerArgsPK(tc.ts.Def) {
			r.Count("shape:integer-with-type-arguments-as-primary-key", 1)
		}
		for _, six := range tc.sch.Indexes {
			ii := findIndex(tc.cat, six.Index)
			if ii == nil {
				// an index SQLite does not have: C10's subject; nothing to order by here
				r.Count("index-unknown-to-sqlite", 1)
				continue
			}
			def := findDef(tc.ts, six.Index)
			orderBy, _, _, ok := indexOrder(*ii, def, tc.cat)
			if !ok {
				r.Exclude("index-order-not-expressible")
				continue
			}
			where := ""
			if ii.Partial {
				if def == nil || def.Where == "" {
					r.Exclude("partial-index-without-known-where")
					continue
				}
				where = " WHERE " + def.Where
			}
			want, err := env.O.Query("q", "SELECT "+tc.sel+" FROM "+e1.QIdent(name)+where+" ORDER BY "+strings.Join(orderBy, ", "))
			if err != nil {
				r.Harness(t, "reference query for index %q: %v", six.Index, err)
			}
			var got [][]interface{}
			err = db.IndexedSelect(name, six.Index, func(row sqlittle.Row) { got = append(got, append([]interface{}{}, row...)) }, tc.cols...)
			kind := "rowid"
			if tc.cat.WithoutRowid {
				kind = "without-rowid"
			}
			cls := "index:" + kind + ":" + map[string]string{"c": "explicit", "u": "auto-unique", "pk": "auto-pk"}[ii.Origin]
			if ii.Partial {
				cls += ":partial"
			}
			classes = append(classes, cls, fmt.Sprintf("index-rows<=%d", bucket(len(want))))
			compared++
			ties := false
			for i := 1; i < len(want) && !ties; i++ {
				// crude tie detector on the first key column
				ties = false
			}
			if len(want) > 0 && (ii.Partial || tc.cat.WithoutRowid || len(want) > 40) {
				nontrivial = true
			}
			fail := func(sig, format string, args ...interface{}) {
				r.Violation(t, s, sig, "table %q (%s) index %q (%v): %s", name, tc.ts.Def.SQL(), six.Index, orderBy, fmt.Sprintf(format, args...))
			}
			if err != nil {
				fail("indexed-select-error:"+kind, "IndexedSelect fails: %v (SQLite: %d rows)", err, len(want))
				return
			}
			if len(got) != len(want) {
				fail("row-count:"+kind, "IndexedSelect delivers %d rows, SQLite %d", len(got), len(want))
				return
			}
			for i := range want {
				if !e1.SameRow(got[i], want[i]) {
					sig := "row-differs:" + kind
					if e1.RawDefault(tc.cat, tc.cols, got[i], want[i]) {
						sig = e1.KnownRawDefault
					}
					fail(sig, "row %d is %s, SQLite returns %s", i, e1.ShowGot(got[i]), want[i])
					return
				}
			}
		}
	}
	if compared == 0 {
		r.Exclude("no-index-to-compare")
		return
	}
	r.Case(s, nontrivial, classes...)
}

func bucket(n int) int {
	for _, b := range []int{0, 10, 100, 1000, 10000} {
		if n <= b {
			return b
		}
	}
	return 100000
}

// ---------------------------------------------------------------- C03

func TestC03EqualitySearch(t *testing.T) {
	vt.Exec(t, vt.Check[spec]{
		ID: "C03", Test: "TestC03EqualitySearch",
		Setup: setup, Teardown: func() { env.Close() },
		Gen: func(t *rapid.T) spec {
			s := spec{DB: e1.Gen(t, e1.Opts{MaxTables: 2, Indexes: true, History: rapid.Bool().Draw(t, "hist"), BigRows: vt.Pick(600, 3000)})}
			n := rapid.IntRange(3, 12).Draw(t, "nkeys")
			for i := 0; i < n; i++ {
				s.Keys = append(s.Keys, keyPick{
					Row: rapid.IntRange(0, 5000).Draw(t, "krow"), Prefix: rapid.IntRange(0, 6).Draw(t, "kprefix"),
					Mutate: rapid.SampledFrom([]int{0, 0, 1, 1, 2}).Draw(t, "kmut"), Other: gen.Value().Draw(t, "kother"), Near: rapid.IntRange(0, 1000).Draw(t, "knear"),
					GoType: rapid.IntRange(0, 11).Draw(t, "kgotype"),
				})
			}
			return s
		},
		Run: runC03,
	})
}

// neighbours of a value, deterministic from the pick
func neighbour(v val.V, pick int) val.V {
	var c []val.V
	switch v.T {
	case 'i':
		c = []val.V{val.Real(float64(v.I)), val.Int(v.I + 1), val.Int(v.I - 1), val.Real(float64(v.I) + 0.5), val.Text(fmt.Sprint(v.I)), val.Null()}
	case 'r':
		f := v.Float()
		c = []val.V{val.Real(f + 1), val.Null(), val.Text(fmt.Sprint(f))}
		if f > -9e18 && f < 9e18 {
			c = append(c, val.Int(int64(f)), val.Int(int64(f)+1))
		}
	case 't':
		s := string(v.B)
		c = []val.V{val.Text(strings.ToUpper(s)), val.Text(strings.ToLower(s)), val.Text(s + " "), val.Text(s + "\t"), val.Text(strings.TrimRight(s, " ")), val.Blob(v.B), val.Text(s + "a"), val.Null()}
		if len(s) > 0 {
			c = append(c, val.Text(s[:len(s)-1]))
		}
	case 'b':
		c = []val.V{val.Text(string(v.B)), val.Blob(append(append([]byte{}, v.B...), 0)), val.Null()}
	default:
		c = []val.V{val.Int(0), val.Text(""), val.Blob(nil)}
	}
	return c[pick%len(c)]
}

func runC03(r *vt.Run, t vt.TB, s spec) {
	path := env.NewPath()
	defer sqdb.Remove(path)
	db, tables, ok := prepare(r, t, s.DB, path)
	defer env.O.Close("q")
	if !ok {
		return
	}
	defer db.Close()
	classes := []string{fmt.Sprintf("ps=%d", s.DB.PageSize)}
	nontrivial := false
	searches := 0
	for _, tc := range tables {
		name := tc.ts.Def.Ident.Name
		if e1.IntegerArgsPK(tc.ts.Def) {
			r.Count("shape:integer-with-type-arguments-as-primary-key", 1)
		}
		kind := "rowid"
		if tc.cat.WithoutRowid {
			kind = "without-rowid"
		}
		type target struct {
			label   string
			ii      *e1.IndexInfo
			def     *sqlgen.Index
			run     func(key sqlittle.Key, cb sqlittle.RowCB) error
			partial string
		}
		var targets []target
		for _, six := range tc.sch.Indexes {
			six := six
			ii := findIndex(tc.cat, six.Index)
			if ii == nil {
				continue
			}
			def := findDef(tc.ts, six.Index)
			where := ""
			if ii.Partial {
				if def == nil || def.Where == "" {
					continue
				}
				where = def.Where
			}
			targets = append(targets, target{"IndexedSelectEq(" + six.Index + ")", ii, def, func(key sqlittle.Key, cb sqlittle.RowCB) error {
				return db.IndexedSelectEq(name, six.Index, key, cb, tc.cols...)
			}, where})
		}
		// the primary key, when it is not a rowid alias
		if tc.cat.WithoutRowid && tc.cat.PKIndex != nil {
			targets = append(targets, target{"PKSelect(without rowid)", tc.cat.PKIndex, nil, func(key sqlittle.Key, cb sqlittle.RowCB) error {
				return db.PKSelect(name, key, cb, tc.cols...)
			}, ""})
		} else if !tc.sch.RowidPK && tc.sch.PrimaryKey != "" {
			if ii := findIndex(tc.cat, tc.sch.PrimaryKey); ii != nil && ii.Origin == "pk" {
				targets = append(targets, target{"PKSelect(autoindex)", ii, nil, func(key sqlittle.Key, cb sqlittle.RowCB) error {
					return db.PKSelect(name, key, cb, tc.cols...)
				}, ""})
			}
		}
		for _, tg := range targets {
			orderBy, keyExprs, keyColl, ok := indexOrder(*tg.ii, tg.def, tc.cat)
			if !ok {
				r.Exclude("index-order-not-expressible")
				continue
			}
			where := ""
			if tg.partial != "" {
				where = " WHERE " + tg.partial
			}
			// the stored key values, as SQLite evaluates them
			stored, err := env.O.Query("q", "SELECT "+strings.Join(keyExprs, ", ")+" FROM "+e1.QIdent(name)+where+" ORDER BY "+strings.Join(orderBy, ", "))
			if err != nil {
				r.Harness(t, "stored keys of %s: %v", tg.label, err)
			}
			total := len(stored)
			for _, kp := range s.Keys {
				var key []val.V
				if total > 0 {
					key = append(key, stored[kp.Row%total]...)
				} else {
					for range keyExprs {
						key = append(key, kp.Other)
					}
				}
				p := kp.Prefix % (len(keyExprs) + 1)
				key = key[:p]
				if p > 0 {
					switch kp.Mutate {
					case 1:
						key[p-1] = neighbour(key[p-1], kp.Near)
					case 2:
						key[p-1] = kp.Other
					}
				}
				// reference: raw storage-class comparison, no affinity, the column's collation
				conds := []string{}
				if tg.partial != "" {
					conds = append(conds, "("+tg.partial+")")
				}
				var params []val.V
				for i, v := range key {
					ph := "?"
					if v.T == 't' {
						ph = "+CAST(? AS TEXT)"
					}
					conds = append(conds, fmt.Sprintf("+(%s) COLLATE %s IS %s", keyExprs[i], keyColl[i], ph))
					params = append(params, v)
				}
				w := ""
				if len(conds) > 0 {
					w = " WHERE " + strings.Join(conds, " AND ")
				}
				want, err := env.O.Query("q", "SELECT "+tc.sel+" FROM "+e1.QIdent(name)+w+" ORDER BY "+strings.Join(orderBy, ", "), params...)
				if err != nil {
					r.Harness(t, "reference query for %s key %v: %v", tg.label, val.Row(key), err)
				}
				var gk sqlittle.Key
				for _, v := range key {
					gk = append(gk, goValue(v, kp.GoType))
				}
				var got [][]interface{}
				err = tg.run(gk, func(row sqlittle.Row) { got = append(got, append([]interface{}{}, row...)) })
				searches++
				collMatters := false
				for i := range key {
					if !fold.Equal(keyColl[i], "BINARY") && key[i].T == 't' {
						collMatters = true
					}
				}
				if (len(want) > 0 && len(want) < total) || collMatters || kp.Mutate == 1 {
					nontrivial = true
				}
				cls := "search:" + kind + ":" + strings.SplitN(tg.label, "(", 2)[0]
				if tg.partial != "" {
					cls += ":partial"
				}
				classes = append(classes, cls, fmt.Sprintf("search:prefix=%d", p), fmt.Sprintf("search:hits<=%d", bucket(len(want))))
				fail := func(sig, format string, args ...interface{}) {
					r.Violation(t, s, sig, "table %q (%s) %s key %v (columns %v, collations %v): %s", name, tc.ts.Def.SQL(), tg.label, val.Row(key), keyExprs[:p], keyColl[:p], fmt.Sprintf(format, args...))
				}
				if err != nil {
					fail("search-error:"+kind, "fails: %v (SQLite: %d rows)", err, len(want))
					return
				}
				if len(got) != len(want) {
					fail("search-row-count:"+kind, "%d rows, SQLite %d of %d indexed", len(got), len(want), total)
					return
				}
				for i := range want {
					if !e1.SameRow(got[i], want[i]) {
						sig := "search-row-differs:" + kind
						if e1.RawDefault(tc.cat, tc.cols, got[i], want[i]) {
							sig = e1.KnownRawDefault
						}
						fail(sig, "row %d is %s, SQLite returns %s", i, e1.ShowGot(got[i]), want[i])
						return
					}
				}
			}
		}
	}
	if searches == 0 {
		r.Exclude("no-index-to-search")
		return
	}
	r.Count("searches", searches)
	r.Case(s, nontrivial, classes...)
}
