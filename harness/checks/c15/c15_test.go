// C15 — unsupported or invalid database headers are refused, valid ones
// accepted. Exhaustive single-byte mutations of the 100-byte header on top of
// valid base images of every page size, judged by a three-valued reference
// validator written from the property statement and the file-format
// description; plus real SQLite-written WAL / UTF-16 databases and the
// header re-read on a long-lived handle.
package c15

import (
	"encoding/binary"
	"fmt"
	"math/bits"
	"os"
	"strings"
	"testing"

	"github.com/alicebob/sqlittle"
	sdb "github.com/alicebob/sqlittle/db"

	"verif/bt"
	"verif/fmtb"
	"verif/oracle"
	"verif/pagers"
	"verif/sqdb"
	"verif/val"
	"verif/vt"
)

const (
	mustReject = "must-reject"
	mustAccept = "must-accept"
	either     = "either"
	excluded   = "excluded"
)

// classify says what the statement demands for a header (given the true page
// size of the image).
func classify(h []byte, truePS int) (string, string) {
	if string(h[0:16]) != "SQLite format 3\x00" {
		return mustReject, "magic"
	}
	ps := uint(binary.BigEndian.Uint16(h[16:18]))
	if ps == 1 {
		ps = 65536
	}
	if ps < 512 || ps > 65536 || bits.OnesCount(ps) != 1 {
		return mustReject, "page-size-invalid"
	}
	if int(ps) != truePS {
		// a legal page size that is not the file's: the file is then simply
		// corrupt, C05 applies (no crash), nothing about the rows
		return excluded, "page-size-other-legal"
	}
	switch h[19] {
	case 1:
	case 2:
		return mustReject, "read-version-wal"
	default:
		return mustReject, "read-version-unknown"
	}
	if h[20] != 0 {
		return mustReject, "reserved-space"
	}
	sf := binary.BigEndian.Uint32(h[44:48])
	if sf > 4 {
		return mustReject, "schema-format-unknown"
	}
	enc := binary.BigEndian.Uint32(h[56:60])
	if enc == 2 || enc == 3 {
		return mustReject, "utf16"
	}
	// from here on: fields whose odd values SQLite itself treats as corrupt
	// or that a reader may refuse; if the file is accepted the rows must be
	// right
	if h[18] != 1 && h[18] != 2 {
		return either, "write-version"
	}
	if h[18] == 2 {
		return either, "write-version-2"
	}
	if h[21] != 64 || h[22] != 32 || h[23] != 32 {
		return either, "payload-fractions"
	}
	if sf == 0 || sf == 1 {
		return either, "schema-format-0-1"
	}
	if enc != 1 {
		return either, "encoding-other"
	}
	for _, b := range h[72:92] {
		if b != 0 {
			return either, "reserved-for-expansion"
		}
	}
	if binary.BigEndian.Uint32(h[52:56]) != 0 || binary.BigEndian.Uint32(h[64:68]) != 0 {
		return either, "vacuum-fields"
	}
	return mustAccept, "harmless-field"
}

func fieldName(off int) string {
	switch {
	case off < 16:
		return "magic"
	case off < 18:
		return "page-size"
	case off == 18:
		return "write-version"
	case off == 19:
		return "read-version"
	case off == 20:
		return "reserved-space"
	case off < 24:
		return "fractions"
	case off < 28:
		return "change-counter"
	case off < 32:
		return "size-in-pages"
	case off < 40:
		return "freelist"
	case off < 44:
		return "schema-cookie"
	case off < 48:
		return "schema-format"
	case off < 52:
		return "cache-size"
	case off < 56:
		return "largest-root"
	case off < 60:
		return "text-encoding"
	case off < 64:
		return "user-version"
	case off < 68:
		return "incremental-vacuum"
	case off < 72:
		return "application-id"
	case off < 92:
		return "reserved-expansion"
	case off < 96:
		return "version-valid-for"
	}
	return "sqlite-version"
}

func baseImage(ps int) (*bt.Built, error) {
	img := &bt.Image{PageSize: ps, Header: fmtb.Header{ChangeCounter: 7, SchemaCookie: 3, UserVersion: 0, AppID: 0}}
	t := bt.Table{Name: "t", NCols: 3, Tree: fmtb.TreeOpts{LeafCells: 3}}
	for i := 0; i < 8; i++ {
		t.Rows = append(t.Rows, bt.Row{Rowid: int64(i*3 + 1), Fields: fmtb.Values(val.Int(int64(i)), val.Text(fmt.Sprintf("row %d", i)), val.Real(float64(i)+0.5))})
	}
	w := bt.Table{Name: "w", NCols: 2, WithoutRowid: true, PKCols: 1, Tree: fmtb.TreeOpts{LeafCells: 2}}
	for i := 0; i < 6; i++ {
		w.Rows = append(w.Rows, bt.Row{Fields: fmtb.Values(val.Text(fmt.Sprintf("k%d", i)), val.Int(int64(i)))})
	}
	// a table and an index that never got a row: their root pages are empty
	// (on a 65536-byte page the cell content then starts at 65536, stored as 0)
	e := bt.Table{Name: "e", NCols: 2, Indexes: []bt.Index{{Name: "ei", Cols: []int{1}}}}
	img.Tables = []bt.Table{t, w, e}
	return bt.Build(img)
}

// readAll runs the read operations and renders what came out.
func readAll(d *sdb.Database) (rows []string, err error) {
	hl := sqlittle.VerifWrap(d)
	var firstErr error
	note := func(e error) {
		if e != nil && firstErr == nil {
			firstErr = e
		}
	}
	_, e := d.Tables()
	note(e)
	note(hl.Select("t", func(r sqlittle.Row) { rows = append(rows, "t:"+fmt.Sprint([]interface{}(r))) }, "rowid", "c0", "c1", "c2"))
	note(hl.Select("w", func(r sqlittle.Row) { rows = append(rows, "w:"+fmt.Sprint([]interface{}(r))) }, "c0", "c1"))
	r, e := hl.SelectRowid("t", 4, "c1")
	note(e)
	if r != nil {
		rows = append(rows, "rowid4:"+fmt.Sprint([]interface{}(r)))
	}
	note(hl.PKSelect("w", sqlittle.Key{"k2"}, func(r sqlittle.Row) { rows = append(rows, "pk:"+fmt.Sprint([]interface{}(r))) }, "c1"))
	note(hl.Select("e", func(r sqlittle.Row) { rows = append(rows, "e:"+fmt.Sprint([]interface{}(r))) }, "c0", "c1"))
	note(hl.IndexedSelect("e", "ei", func(r sqlittle.Row) { rows = append(rows, "ei:"+fmt.Sprint([]interface{}(r))) }, "c0", "c1"))
	// low level with explicit lock: several reads inside ONE transaction (a
	// header that is refused must stay refused for all of them)
	if e := d.RLock(); e == nil {
		_, e := d.Tables()
		note(e)
		if ix, e := d.NonRowidTable("w"); e != nil {
			note(e)
		} else {
			note(ix.Scan(func(rec sdb.Record) bool {
				rows = append(rows, fmt.Sprintf("loww:%v", rec))
				return false
			}))
		}
		if tab, e := d.Table("t"); e != nil {
			note(e)
		} else {
			note(tab.Scan(func(rowid int64, rec sdb.Record) bool {
				rows = append(rows, fmt.Sprintf("low:%d:%v", rowid, rec))
				return false
			}))
		}
		d.RUnlock()
	} else {
		note(e)
	}
	return rows, firstErr
}

type mutSpec struct {
	PageSize int
	Offset   int
	Value    int
}

func equalStrings(a, b []string) bool {
	if len(a) != len(b) {
		return false
	}
	for i := range a {
		if a[i] != b[i] {
			return false
		}
	}
	return true
}

var bases = map[int]*bt.Built{}
var baseRows = map[int][]string{}
var env *sqdb.Env

func prepare(r *vt.Run, t vt.TB, ps int) {
	if bases[ps] != nil {
		return
	}
	b, err := baseImage(ps)
	if err != nil {
		r.Harness(t, "base image %d: %v", ps, err)
	}
	diff, err := bt.SQLiteAgrees(env.O, env.Dir, b)
	if err != nil || diff != "" {
		r.Harness(t, "base image %d rejected by SQLite: %v %s", ps, err, diff)
	}
	d, _, err := bt.Open(b.Img)
	if err != nil {
		r.Harness(t, "base image %d does not open in sqlittle: %v", ps, err)
	}
	rows, err := readAll(d)
	if err != nil || len(rows) < 20 {
		r.Harness(t, "base image %d: read gives %d rows, %v", ps, len(rows), err)
	}
	bases[ps], baseRows[ps] = b, rows
}

func checkMutation(r *vt.Run, t vt.TB, s mutSpec) {
	prepare(r, t, s.PageSize)
	base := bases[s.PageSize]
	img := append([]byte{}, base.Img...)
	if int(img[s.Offset]) == s.Value {
		return
	}
	img[s.Offset] = byte(s.Value)
	class, why := classify(img[:100], s.PageSize)
	key := uint64(s.PageSize)<<20 | uint64(s.Offset)<<8 | uint64(s.Value)
	r.CaseKey(key, class != excluded, class+":"+fieldName(s.Offset), func() interface{} { return s })
	if class == excluded {
		r.Exclude(why)
	}
	var rows []string
	var err error
	var pan interface{}
	func() {
		defer func() { pan = recover() }()
		var d *sdb.Database
		d, err = sdb.VerifOpen(pagers.NewMem(img), "")
		if err != nil {
			return
		}
		defer d.Close()
		rows, err = readAll(d)
	}()
	if pan != nil {
		r.Violation(t, s, "header:panic", "header byte %d (%s) = %d on a %d-byte-page image: panic %v", s.Offset, fieldName(s.Offset), s.Value, s.PageSize, pan)
		return
	}
	switch class {
	case mustReject:
		if err == nil {
			r.Violation(t, s, "header:accepted:"+why, "header byte %d (%s) = %d (%s): the file is read without error (%d rows)", s.Offset, fieldName(s.Offset), s.Value, why, len(rows))
			return
		}
		if len(rows) > 0 {
			r.Violation(t, s, "header:rows:"+why, "header byte %d (%s) = %d (%s): error %v, but %d rows were delivered", s.Offset, fieldName(s.Offset), s.Value, why, err, len(rows))
		}
	case mustAccept:
		if err != nil {
			r.Violation(t, s, "header:rejected:"+fieldName(s.Offset), "header byte %d (%s) = %d must not matter, but reading fails: %v", s.Offset, fieldName(s.Offset), s.Value, err)
			return
		}
		if !equalStrings(rows, baseRows[s.PageSize]) {
			r.Violation(t, s, "header:rows-differ:"+fieldName(s.Offset), "header byte %d (%s) = %d changes what is read", s.Offset, fieldName(s.Offset), s.Value)
		}
	case either:
		if err == nil && !equalStrings(rows, baseRows[s.PageSize]) {
			r.Violation(t, s, "header:rows-differ:"+fieldName(s.Offset), "header byte %d (%s) = %d: accepted, but the rows differ from the base", s.Offset, fieldName(s.Offset), s.Value)
		}
	}
}

// TestC15Mutation is the replay/regression form of one mutation.
func TestC15Mutation(t *testing.T) {
	vt.Exec(t, vt.Check[mutSpec]{
		ID: "C15", Test: "TestC15Mutation",
		Setup:    func(r *vt.Run, t *testing.T) { setupEnv(r, t) },
		Teardown: func() { env.Close() },
		Run:      checkMutation,
	})
}

func setupEnv(r *vt.Run, t *testing.T) {
	var err error
	if env, err = sqdb.NewEnv(); err != nil {
		r.Harness(t, "env: %v", err)
	}
}

// TestC15HeaderEnum: every header byte x every value on every page size.
func TestC15HeaderEnum(t *testing.T) {
	r := vt.Begin("C15", "TestC15Mutation")
	defer r.End()
	if vt.Replaying() {
		t.Skip()
	}
	setupEnv(r, t)
	defer env.Close()
	shard, nshards := vt.Shard()
	n := 0
	for _, ps := range fmtb.PageSizes {
		for off := 0; off < 100; off++ {
			n++
			if n%nshards != shard {
				continue
			}
			for v := 0; v < 256; v++ {
				checkMutation(r, t, mutSpec{ps, off, v})
			}
		}
	}
	r.SetExhaustive(true)
}

// ---- the header is validated again at every transaction

type rereadSpec struct {
	PageSize int
	Offset   int
	Value    int
}

func checkReread(r *vt.Run, t vt.TB, s rereadSpec) {
	prepare(r, t, s.PageSize)
	img := append([]byte{}, bases[s.PageSize].Img...)
	mem := pagers.NewMem(img)
	d, err := sdb.VerifOpen(mem, "")
	if err != nil {
		r.Harness(t, "good image does not open: %v", err)
	}
	defer d.Close()
	rows, err := readAll(d)
	if err != nil || !equalStrings(rows, baseRows[s.PageSize]) {
		r.Harness(t, "good image reads differently: %v", err)
	}
	if int(img[s.Offset]) == s.Value {
		return
	}
	// table and index objects obtained in one transaction and used again in
	// the next (their pages are in the handle's cache by then)
	var keptT *sdb.Table
	var keptW *sdb.Index
	var keptBase []string
	keptRead := func() (rows []string, err error) {
		if err := d.RLock(); err != nil {
			return nil, err
		}
		defer d.RUnlock()
		err = keptT.Scan(func(rowid int64, rec sdb.Record) bool {
			rows = append(rows, fmt.Sprintf("low:%d:%v", rowid, rec))
			return false
		})
		if e := keptW.Scan(func(rec sdb.Record) bool {
			rows = append(rows, fmt.Sprintf("loww:%v", rec))
			return false
		}); err == nil {
			err = e
		}
		return rows, err
	}
	if e := d.RLock(); e == nil {
		keptT, _ = d.Table("t")
		keptW, _ = d.NonRowidTable("w")
		d.RUnlock()
	}
	if keptT == nil || keptW == nil {
		r.Harness(t, "good image: table objects not available")
	}
	if keptBase, err = keptRead(); err != nil {
		r.Harness(t, "good image: reading through kept table objects: %v", err)
	}
	// another connection rewrites the header between two transactions
	mem.Img[s.Offset] = byte(s.Value)
	class, why := classify(mem.Img[:100], s.PageSize)
	key := uint64(1)<<40 | uint64(s.PageSize)<<20 | uint64(s.Offset)<<8 | uint64(s.Value)
	r.CaseKey(key, class == mustReject, "reread:"+class+":"+fieldName(s.Offset), func() interface{} { return s })
	var pan interface{}
	var krows []string
	var kerr error
	func() {
		defer func() { pan = recover() }()
		krows, kerr = keptRead()
		rows, err = readAll(d)
	}()
	if pan != nil {
		r.Violation(t, s, "reread:panic", "header byte %d changed to %d under an open handle: panic %v", s.Offset, s.Value, pan)
		return
	}
	switch {
	case class == mustReject && kerr == nil:
		r.Violation(t, s, "reread:kept-objects:accepted:"+why, "header byte %d (%s) changed to %d (%s) under an open handle: the next transaction, through Table/Index objects obtained in the previous one, reads %d rows without error", s.Offset, fieldName(s.Offset), s.Value, why, len(krows))
		return
	case class == mustReject && len(krows) > 0:
		r.Violation(t, s, "reread:kept-objects:rows:"+why, "header byte %d (%s) changed to %d (%s) under an open handle: kept Table/Index objects give error %v but %d rows", s.Offset, fieldName(s.Offset), s.Value, why, kerr, len(krows))
		return
	case class == mustAccept && (kerr != nil || !equalStrings(krows, keptBase)):
		r.Violation(t, s, "reread:kept-objects:rejected:"+fieldName(s.Offset), "header byte %d (%s) changed to %d under an open handle: kept Table/Index objects: err %v, rows equal %v", s.Offset, fieldName(s.Offset), s.Value, kerr, equalStrings(krows, keptBase))
		return
	case class == either && kerr == nil && !equalStrings(krows, keptBase):
		r.Violation(t, s, "reread:kept-objects:rows-differ:"+fieldName(s.Offset), "header byte %d (%s) changed to %d under an open handle: kept Table/Index objects read other rows", s.Offset, fieldName(s.Offset), s.Value)
		return
	}
	switch class {
	case mustReject:
		if err == nil {
			r.Violation(t, s, "reread:accepted:"+why, "header byte %d (%s) changed to %d (%s) under an open handle: the next transactions read %d rows without error", s.Offset, fieldName(s.Offset), s.Value, why, len(rows))
		} else if len(rows) > 0 {
			r.Violation(t, s, "reread:rows:"+why, "header byte %d (%s) changed to %d (%s) under an open handle: error %v but %d rows delivered", s.Offset, fieldName(s.Offset), s.Value, why, err, len(rows))
		}
	case mustAccept:
		if err != nil || !equalStrings(rows, baseRows[s.PageSize]) {
			r.Violation(t, s, "reread:rejected:"+fieldName(s.Offset), "header byte %d (%s) changed to %d under an open handle: err %v, rows equal %v", s.Offset, fieldName(s.Offset), s.Value, err, equalStrings(rows, baseRows[s.PageSize]))
		}
	case either:
		if err == nil && !equalStrings(rows, baseRows[s.PageSize]) {
			r.Violation(t, s, "reread:rows-differ:"+fieldName(s.Offset), "header byte %d (%s) changed to %d under an open handle: accepted, rows differ", s.Offset, fieldName(s.Offset), s.Value)
		}
	}
}

func TestC15Reread(t *testing.T) {
	vt.Exec(t, vt.Check[rereadSpec]{
		ID: "C15", Test: "TestC15Reread",
		Setup:    func(r *vt.Run, t *testing.T) { setupEnv(r, t) },
		Teardown: func() { env.Close() },
		Run:      checkReread,
	})
}

func TestC15RereadEnum(t *testing.T) {
	r := vt.Begin("C15", "TestC15Reread")
	defer r.End()
	if vt.Replaying() {
		t.Skip()
	}
	setupEnv(r, t)
	defer env.Close()
	shard, nshards := vt.Shard()
	n := 0
	sizes := []int{512, 4096, 65536}
	if vt.Thorough() {
		sizes = fmtb.PageSizes
	}
	for _, ps := range sizes {
		for off := 0; off < 100; off++ {
			n++
			if n%nshards != shard {
				continue
			}
			for v := 0; v < 256; v++ {
				checkReread(r, t, rereadSpec{ps, off, v})
			}
		}
	}
	r.SetExhaustive(true)
}

// ---- real files written by SQLite

type realSpec struct {
	Kind     string // wal-open, wal-closed, utf16le, utf16be, utf8, switch-to-wal
	PageSize int
}

func checkReal(r *vt.Run, t vt.TB, s realSpec) {
	path := env.NewPath()
	defer sqdb.Remove(path)
	pre := []oracle.Stmt{}
	switch s.Kind {
	case "utf16le":
		pre = append(pre, oracle.Stmt{SQL: "PRAGMA encoding='UTF-16le'"})
	case "utf16be":
		pre = append(pre, oracle.Stmt{SQL: "PRAGMA encoding='UTF-16be'"})
	case "wal-before-first-table":
		// WAL mode switched on before anything was created: the main file's
		// header has no schema format and no text encoding yet (both 0), and
		// says WAL; every table and row is in the -wal file
		pre = append(pre, oracle.Stmt{SQL: "PRAGMA journal_mode=WAL", Fetch: true})
	}
	stmts := append(pre, []oracle.Stmt{
		{SQL: "CREATE TABLE empty1 (a, b)"},
		{SQL: "CREATE INDEX empty1b ON empty1 (b)"},
		{SQL: "CREATE TABLE t (a, b)"},
		{SQL: "INSERT INTO t VALUES (1, 'one'), (2, 'two'), (3, 'three')"},
	}...)
	if s.Kind == "wal-open" || s.Kind == "wal-closed" {
		stmts = append(stmts, oracle.Stmt{SQL: "PRAGMA journal_mode=WAL", Fetch: true}, oracle.Stmt{SQL: "INSERT INTO t VALUES (4, 'only in the WAL')"})
	}
	res, err := env.Create("c15", path, s.PageSize, 0, stmts)
	sqdb.MustOK(r, t, "build "+s.Kind, res, err, len(stmts)+2)
	if s.Kind != "wal-open" && s.Kind != "wal-before-first-table" && !strings.HasPrefix(s.Kind, "switch-to-wal") {
		env.O.Close("c15")
	}
	defer env.O.Close("c15")
	wantReject := s.Kind != "utf8" && !strings.HasPrefix(s.Kind, "switch-to-wal")
	r.Case(s, wantReject || strings.HasPrefix(s.Kind, "switch-to-wal"), "real:"+s.Kind)
	read := func(db *sqlittle.DB) (rows []string, err error) {
		err = db.Select("t", func(row sqlittle.Row) { rows = append(rows, fmt.Sprint([]interface{}(row))) }, "a", "b")
		// (tables and indexes without any row: empty root pages)
		if e := db.Select("empty1", func(row sqlittle.Row) { rows = append(rows, "row in the empty table") }, "a", "b"); err == nil {
			err = e
		}
		if e := db.IndexedSelect("empty1", "empty1b", func(row sqlittle.Row) { rows = append(rows, "row in the empty index") }, "a", "b"); err == nil {
			err = e
		}
		return
	}
	db, err := sqlittle.Open(path)
	if err != nil {
		if !wantReject {
			r.Violation(t, s, "real:rejected:"+s.Kind, "a plain UTF-8 rollback-journal database written by SQLite is refused: %v", err)
		}
		return
	}
	defer db.Close()
	if wantReject {
		// "at open": a handle on such a file is not handed out at all
		var names []string
		low := sqlittle.VerifLow(db)
		if lerr := low.RLock(); lerr == nil {
			names, _ = low.Tables()
			low.RUnlock()
		}
		r.Violation(t, s, "real:opened:"+s.Kind, "%s database written by SQLite: Open succeeds (tables seen through the handle: %v)", s.Kind, names)
		return
	}
	rows, err := read(db)
	if wantReject {
		if err == nil {
			r.Violation(t, s, "real:accepted:"+s.Kind, "%s database written by SQLite is read without error: %v", s.Kind, rows)
		} else if len(rows) > 0 {
			r.Violation(t, s, "real:rows:"+s.Kind, "%s database: error %v but rows %v", s.Kind, err, rows)
		}
		return
	}
	if err != nil || len(rows) != 3 {
		r.Violation(t, s, "real:rejected:"+s.Kind, "plain database: %d rows, err %v", len(rows), err)
		return
	}
	if s.Kind == "switch-to-wal-two-handles" {
		// two long-lived handles of this process whose read transactions
		// overlapped (the second ran inside a row callback of the first, so it
		// was not the last of the process to unlock); then SQLite switches the
		// file to WAL: both have to see the new header at their next read
		db2, err := sqlittle.Open(path)
		if err != nil {
			r.Harness(t, "second open: %v", err)
		}
		defer db2.Close()
		var inner []string
		var ierr error
		nested := false
		oerr := db.Select("t", func(sqlittle.Row) {
			if !nested {
				nested = true
				inner, ierr = read(db2)
			}
		}, "a")
		if oerr != nil || ierr != nil || len(inner) != 3 {
			r.Violation(t, s, "real:rejected:"+s.Kind, "plain database, a read on a second handle from inside a row callback of the first: %d rows, err %v / %v", len(inner), ierr, oerr)
			return
		}
		res, err := env.O.Script("c15", []oracle.Stmt{{SQL: "PRAGMA journal_mode=WAL", Fetch: true}, {SQL: "INSERT INTO t VALUES (4, 'only in the WAL')"}}, true)
		sqdb.MustOK(r, t, "switch to wal", res, err, 2)
		if len(res[0].Rows) != 1 || string(res[0].Rows[0][0].B) != "wal" {
			r.Harness(t, "journal_mode=WAL not taken: %v", res[0].Rows)
		}
		for i, h := range []*sqlittle.DB{db2, db} {
			rows, err := read(h)
			which := []string{"the handle that read inside the other's row callback", "the handle whose row callback it was"}[i]
			if err == nil {
				r.Violation(t, s, "real:accepted:"+s.Kind, "file switched to WAL under two open handles of this process; the next read on %s returns %v without error", which, rows)
				return
			} else if len(rows) > 0 {
				r.Violation(t, s, "real:rows:"+s.Kind, "file switched to WAL under two open handles; %s: error %v but rows %v", which, err, rows)
				return
			}
		}
	}
	if s.Kind == "switch-to-wal" {
		// SQLite switches the file to WAL while our handle stays open
		res, err := env.O.Script("c15", []oracle.Stmt{{SQL: "PRAGMA journal_mode=WAL", Fetch: true}, {SQL: "INSERT INTO t VALUES (4, 'only in the WAL')"}}, true)
		sqdb.MustOK(r, t, "switch to wal", res, err, 2)
		if len(res[0].Rows) != 1 || string(res[0].Rows[0][0].B) != "wal" {
			r.Harness(t, "journal_mode=WAL not taken: %v", res[0].Rows)
		}
		rows, err := read(db)
		if err == nil {
			r.Violation(t, s, "real:accepted:switch-to-wal", "file switched to WAL under an open handle, the next read returns %v without error", rows)
		} else if len(rows) > 0 {
			r.Violation(t, s, "real:rows:switch-to-wal", "file switched to WAL under an open handle: error %v but rows %v", err, rows)
		}
	}
}

func TestC15Real(t *testing.T) {
	vt.Exec(t, vt.Check[realSpec]{
		ID: "C15", Test: "TestC15Real",
		Setup:    func(r *vt.Run, t *testing.T) { setupEnv(r, t) },
		Teardown: func() { env.Close() },
		Run:      checkReal,
	})
}

func TestC15RealEnum(t *testing.T) {
	r := vt.Begin("C15", "TestC15Real")
	defer r.End()
	if vt.Replaying() {
		t.Skip()
	}
	setupEnv(r, t)
	defer env.Close()
	shard, _ := vt.Shard()
	if shard != 0 {
		return
	}
	for _, ps := range []int{512, 1024, 4096, 65536} {
		for _, k := range []string{"utf8", "wal-open", "wal-closed", "utf16le", "utf16be", "switch-to-wal", "switch-to-wal-two-handles", "wal-before-first-table"} {
			checkReal(r, t, realSpec{k, ps})
		}
	}
}

var _ = os.Remove
