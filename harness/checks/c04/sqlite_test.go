package c04

import (
	"fmt"
	"math"
	"sort"
	"strings"
	"testing"

	"github.com/alicebob/sqlittle"
	"pgregory.net/rapid"

	"verif/e1"
	"verif/sqdb"
	"verif/val"
	"verif/vt"
)

// Rowid lookups on tables SQLite built and then deleted from / updated /
// vacuumed (underfull pages, free blocks, rebalanced interior pages).

type sqSpec struct {
	DB e1.Spec
}

func TestC04SQLite(t *testing.T) {
	vt.Exec(t, vt.Check[sqSpec]{
		ID: "C04", Test: "TestC04SQLite",
		Setup: func(r *vt.Run, t *testing.T) {
			var err error
			if env, err = sqdb.NewEnv(); err != nil {
				r.Harness(t, "env: %v", err)
			}
		},
		Teardown: func() { env.Close() },
		Gen: func(t *rapid.T) sqSpec {
			s := e1.Gen(t, e1.Opts{MaxTables: 2, Conservative: true, OnlyRowid: true, History: true, BigRows: vt.Pick(800, 4000), PageSizes: []int{512, 512, 1024, 4096}})
			// more deletes than the generic history has
			tn := s.Tables[len(s.Tables)-1].Def.Ident.SQL // (the last table: a trigger may carry its name)
			n := rapid.IntRange(1, 4).Draw(t, "ndel")
			for i := 0; i < n; i++ {
				s.History = append(s.History, fmt.Sprintf("DELETE FROM %s WHERE rowid %% %d = %d", tn, rapid.IntRange(2, 7).Draw(t, "mod"), rapid.IntRange(0, 6).Draw(t, "rem")))
			}
			return sqSpec{DB: s}
		},
		Run: runSQLite,
	})
}

func runSQLite(r *vt.Run, t vt.TB, s sqSpec) {
	path := env.NewPath()
	defer sqdb.Remove(path)
	created, _ := e1.Build(r, t, env, s.DB, path)
	last := len(s.DB.Tables) - 1
	if !created[last] {
		r.Exclude("sqlite-rejects-create-table")
		return
	}
	if err := env.O.Open("q", path); err != nil {
		r.Harness(t, "open: %v", err)
	}
	defer env.O.Close("q")
	name := s.DB.Tables[last].Def.Ident.Name
	db, err := sqlittle.Open(path)
	if err != nil {
		r.Violation(t, s, "open-error", "a database written by SQLite does not open: %v", err)
		return
	}
	defer db.Close()
	sch, err := sqlittle.VerifLow(db).Schema(name)
	if err != nil {
		r.Exclude("table-definition-rejected")
		return
	}
	cat := e1.ReadCatalog(r, t, env.O, "q", name)
	rid := cat.RowidName()
	if rid == "" {
		r.Exclude("rowid-not-addressable")
		return
	}
	var cols, sel []string
	for _, c := range cat.Columns {
		if c.Hidden == 0 {
			cols = append(cols, c.Name)
			sel = append(sel, e1.QIdent(c.Name))
		}
	}
	rows, err := env.O.Query("q", "SELECT "+rid+", "+strings.Join(sel, ", ")+" FROM "+e1.QIdent(name)+" ORDER BY "+rid)
	if err != nil {
		r.Harness(t, "reference select: %v", err)
	}
	want := map[int64]val.Row{}
	set := map[int64]bool{0: true, 1: true, -1: true, math.MaxInt64: true, math.MinInt64: true}
	for _, row := range rows {
		id := row[0].I
		want[id] = row[1:]
		set[id] = true
		if id < math.MaxInt64 {
			set[id+1] = true
		}
		if id > math.MinInt64 {
			set[id-1] = true
		}
	}
	probes := make([]int64, 0, len(set))
	for p := range set {
		probes = append(probes, p)
	}
	sort.Slice(probes, func(i, j int) bool { return probes[i] < probes[j] })
	pages, _ := env.O.Query("q", "PRAGMA page_count")
	r.Case(s, len(rows) > 20 && len(s.DB.History) > 0, fmt.Sprintf("sqlite:rows<=%d", bucket(len(rows))), fmt.Sprintf("sqlite:ps=%d", s.DB.PageSize), fmt.Sprintf("sqlite:pages<=%d", bucket(int(pages[0][0].I))))
	r.Count("probes", len(probes))
	for _, p := range probes {
		got, err := db.SelectRowid(name, p, cols...)
		w, present := want[p]
		if err != nil {
			r.Violation(t, s, "sqlite:error", "table %s: SelectRowid(%d): %v (present=%v)", name, p, err, present)
			return
		}
		if !present {
			if none, err := db.SelectRowid(name, p); err != nil || none != nil {
				r.Violation(t, s, "sqlite:no-columns-phantom", "table %s: SelectRowid(%d) without columns = %#v, %v; SQLite has no such row", name, p, none, err)
				return
			}
			if got != nil {
				r.Violation(t, s, "sqlite:phantom", "table %s: SelectRowid(%d) returns %s, SQLite has no such row", name, p, e1.ShowGot(got))
				return
			}
			continue
		}
		if got == nil || !e1.SameRow(got, w) {
			r.Violation(t, s, "sqlite:missing-or-wrong", "table %s (history %v): SelectRowid(%d) = %v, SQLite %s", name, s.DB.History, p, got, w)
			return
		}
		// existence check: no columns asked for
		if none, err := db.SelectRowid(name, p); err != nil || none == nil || len(none) != 0 {
			r.Violation(t, s, "sqlite:no-columns", "table %s: SelectRowid(%d) without columns = %#v, %v; the row exists (a nil row means not found)", name, p, none, err)
			return
		}
		if sch.RowidPK {
			calls := 0
			if err := db.PKSelect(name, sqlittle.Key{p}, func(sqlittle.Row) { calls++ }); err != nil || calls != 1 {
				r.Violation(t, s, "sqlite:pk-no-columns", "table %s: PKSelect(%d) without columns: %d callbacks, %v; the row exists", name, p, calls, err)
				return
			}
		}
		if sch.RowidPK {
			n := 0
			var first sqlittle.Row
			err := db.PKSelect(name, sqlittle.Key{p}, func(row sqlittle.Row) {
				if n == 0 {
					first = row
				}
				n++
			}, cols...)
			if err != nil || n != 1 || !e1.SameRow(first, w) {
				r.Violation(t, s, "sqlite:pk-missing-or-wrong", "table %s: PKSelect(%d) gives %d rows, err %v", name, p, n, err)
				return
			}
		}
	}
}

func bucket(n int) int {
	for _, b := range []int{0, 10, 100, 1000, 10000} {
		if n <= b {
			return b
		}
	}
	return 100000
}
