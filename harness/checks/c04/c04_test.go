// C04 — rowid lookup finds a row iff it exists.
//
// Tables of chosen shape come from the independent builder; the probe set is
// enumerated completely per table; the oracle is the map rowid -> row the
// builder was given.
package c04

import (
	"fmt"
	"math"
	"sort"
	"testing"

	"github.com/alicebob/sqlittle"
	sdb "github.com/alicebob/sqlittle/db"
	"pgregory.net/rapid"

	"verif/bt"
	"verif/btgen"
	"verif/sqdb"
	"verif/val"
	"verif/vt"
)

var env *sqdb.Env

type spec struct {
	Img bt.Image
}

func probes(tb *bt.BuiltTable) []int64 {
	set := map[int64]bool{0: true, 1: true, -1: true, math.MaxInt64: true, math.MinInt64: true, math.MaxInt64 - 1: true, math.MinInt64 + 1: true}
	add := func(r int64) {
		set[r] = true
		if r < math.MaxInt64 {
			set[r+1] = true
		}
		if r > math.MinInt64 {
			set[r-1] = true
		}
	}
	for _, r := range tb.Rows {
		add(r.Rowid)
	}
	for _, s := range tb.Shape.Separators {
		add(s)
	}
	for _, l := range tb.Shape.Leaves {
		if l.N > 0 {
			add(l.First)
			add(l.Last)
		}
	}
	out := make([]int64, 0, len(set))
	for r := range set {
		out = append(out, r)
	}
	sort.Slice(out, func(i, j int) bool { return out[i] < out[j] })
	return out
}

func TestC04Builder(t *testing.T) {
	vt.Exec(t, vt.Check[spec]{
		ID: "C04", Test: "TestC04Builder",
		Setup: func(r *vt.Run, t *testing.T) {
			var err error
			if env, err = sqdb.NewEnv(); err != nil {
				r.Harness(t, "env: %v", err)
			}
		},
		Teardown: func() { env.Close() },
		Gen: func(t *rapid.T) spec {
			return spec{Img: btgen.Image(t, btgen.Opts{MaxRows: 80, LongValues: true, RowidAlias: true, PageSizes: []int{512, 512, 512, 512, 1024, 1024, 4096, 4096, 65536, 32768}})}
		},
		Run: run,
	})
}

func run(r *vt.Run, t vt.TB, s spec) {
	built, err := bt.Build(&s.Img)
	if err != nil {
		r.Exclude("layout-impossible")
		return
	}
	tb := built.Tables["t"]
	want := map[int64]bt.Row{}
	for _, row := range tb.Rows {
		want[row.Rowid] = row
	}
	ps := probes(tb)
	r.Case(s, tb.Shape.Depth >= 2, fmt.Sprintf("depth=%d", tb.Shape.Depth), fmt.Sprintf("alias=%v", tb.Spec.RowidAlias), fmt.Sprintf("ps=%d", s.Img.PageSize))
	r.Count("probes", len(ps))
	r.Count(fmt.Sprintf("probes:depth=%d", tb.Shape.Depth), len(ps))

	fail := func(sig, format string, args ...interface{}) {
		problem := fmt.Sprintf(format, args...)
		diff, err := bt.SQLiteAgrees(env.O, env.Dir, built)
		if err != nil {
			r.Harness(t, "cross validation failed to run: %v (sqlittle: %s)", err, problem)
		}
		if diff != "" {
			r.Harness(t, "builder and SQLite disagree about the image (%s); sqlittle: %s", diff, problem)
		}
		r.Violation(t, s, sig, "%s", problem)
	}

	d, _, err := bt.Open(built.Img)
	if err != nil {
		fail("open", "open: %v", err)
		return
	}
	defer d.Close()
	tab, err := d.Table("t")
	if err != nil {
		fail("open", "Table: %v", err)
		return
	}
	hl := sqlittle.VerifWrap(d)
	cols := append([]string{"rowid"}, tb.Spec.ColNames()...)
	// the same probes three times on the one handle: ascending, descending
	// (r, then r-1) and in a scrambled order (a lookup must not depend on
	// the lookups before it)
	desc := append([]int64{}, ps...)
	sort.Slice(desc, func(i, j int) bool { return desc[i] > desc[j] })
	mixed := append([]int64{}, ps...)
	seed := vt.Hash(s)
	for i := len(mixed) - 1; i > 0; i-- {
		seed = seed*6364136223846793005 + 1442695040888963407
		j := int((seed >> 33) % uint64(i+1))
		mixed[i], mixed[j] = mixed[j], mixed[i]
	}
	order := append(append(append([]int64{}, ps...), desc...), mixed...)
	subsets := map[bool]int{}
	keyForm := map[string]int{}
	for _, p := range order {
		row, present := want[p]
		// low level
		rec, err := tab.Rowid(p)
		if err != nil {
			fail("low:error", "Table.Rowid(%d): error %v (present=%v)", p, err, present)
			return
		}
		if !present {
			if rec != nil {
				fail("low:phantom", "Table.Rowid(%d) returns %v but no such row exists", p, rec)
				return
			}
		} else {
			got, ok := bt.RecordVals(rec)
			if rec == nil || !ok || !bt.ValsEqual(got, row.Values()) {
				fail("low:missing-or-wrong", "Table.Rowid(%d) = %v, stored %v", p, rec, val.Row(row.Values()))
				return
			}
		}
		// high level
		hrow, err := hl.SelectRowid("t", p, cols...)
		if err != nil {
			fail("high:error", "SelectRowid(%d): error %v (present=%v)", p, err, present)
			return
		}
		if !present {
			if hrow != nil {
				fail("high:phantom", "SelectRowid(%d) returns %v but no such row exists", p, hrow)
				return
			}
		} else {
			got, ok := bt.RecordVals(sdb.Record(hrow))
			exp := append([]val.V{val.Int(p)}, tb.Spec.Logical(row)...)
			if hrow == nil || !ok || !bt.ValsEqual(got, exp) {
				fail("high:missing-or-wrong", "SelectRowid(%d) = %v, want %v", p, hrow, val.Row(exp))
				return
			}
		}
		// the same lookup asking for a subset of the columns, in another
		// order, or for none at all (an existence check: SelectRowid is
		// documented to return a nil row only when the rowid isn't found)
		seed = seed*6364136223846793005 + 1442695040888963407
		var sub []string
		var subIdx []int
		if (seed>>40)%3 != 0 {
			m := seed >> 20
			for i := len(cols) - 1; i >= 0; i-- {
				if m&(1<<uint(i%16)) != 0 {
					sub = append(sub, cols[i])
					subIdx = append(subIdx, i)
				}
			}
		}
		subsets[len(sub) == 0]++
		srow, err := hl.SelectRowid("t", p, sub...)
		if err != nil {
			fail("high:subset-error", "SelectRowid(%d, columns %v): error %v (present=%v)", p, sub, err, present)
			return
		}
		if !present && srow != nil {
			fail("high:subset-phantom", "SelectRowid(%d, columns %v) returns %#v but no such row exists", p, sub, srow)
			return
		}
		if present {
			full := append([]val.V{val.Int(p)}, tb.Spec.Logical(row)...)
			var exp []val.V
			for _, i := range subIdx {
				exp = append(exp, full[i])
			}
			got, ok := bt.RecordVals(sdb.Record(srow))
			if srow == nil || len(srow) != len(sub) || !ok || !bt.ValsEqual(got, exp) {
				fail("high:subset-missing-or-wrong", "SelectRowid(%d, columns %v) = %#v, want the existing row's %v", p, sub, srow, val.Row(exp))
				return
			}
		}
		if tb.Spec.RowidAlias {
			calls := 0
			var last sqlittle.Row
			// the rowid given as any of the Go types a Key is documented to
			// accept and convert ("most Go datatypes")
			kvs := keyForms(p)
			kv := kvs[int(seed>>13)%len(kvs)]
			keyForm[fmt.Sprintf("%T", kv)]++
			err := hl.PKSelect("t", sqlittle.Key{kv}, func(row sqlittle.Row) { calls++; last = row }, sub...)
			wantCalls := 0
			if present {
				wantCalls = 1
			}
			if err != nil || calls != wantCalls || (present && len(last) != len(sub)) {
				fail(fmt.Sprintf("pk:subset:%T", kv), "PKSelect(Key{%T(%v)}, columns %v): %d callbacks (last row %#v), error %v; present=%v", kv, kv, sub, calls, last, err, present)
				return
			}
		}
		if tb.Spec.RowidAlias && ((seed>>7)%8 == 0 || p == math.MaxInt64 || p == math.MinInt64) {
			// numbers no rowid equals: between two integers, beyond int64
			var nk interface{} = uint(1<<63) + uint(p&0xffff)
			if p > -(1<<51) && p < 1<<51 {
				nk = float64(p) + 0.5
			}
			if p == math.MaxInt64 {
				nk = 9223372036854775808.0 // 2^63: the first float64 above every rowid
			}
			if p == math.MinInt64 {
				nk = math.Nextafter(-9223372036854775808.0, math.Inf(-1)) // the first float64 below every rowid
			}
			calls := 0
			if err := hl.PKSelect("t", sqlittle.Key{nk}, func(sqlittle.Row) { calls++ }, "rowid"); err != nil || calls != 0 {
				fail("pk:non-rowid-number", "PKSelect(Key{%T(%v)}): %d callbacks, error %v; no rowid equals that number", nk, nk, calls, err)
				return
			}
			keyForm["non-rowid-number"]++
		}
		// primary key select on an INTEGER PRIMARY KEY table
		if tb.Spec.RowidAlias {
			var rows []sqlittle.Row
			err := hl.PKSelect("t", sqlittle.Key{p}, func(row sqlittle.Row) { rows = append(rows, row) }, tb.Spec.ColNames()...)
			if err != nil {
				fail("pk:error", "PKSelect(%d): error %v (present=%v)", p, err, present)
				return
			}
			if !present && len(rows) != 0 {
				fail("pk:phantom", "PKSelect(%d) yields %v but no such row exists", p, rows)
				return
			}
			if present {
				exp := tb.Spec.Logical(row)
				if len(rows) != 1 {
					fail("pk:missing-or-wrong", "PKSelect(%d) yields %d rows, want 1", p, len(rows))
					return
				}
				got, ok := bt.RecordVals(sdb.Record(rows[0]))
				if !ok || !bt.ValsEqual(got, exp) {
					fail("pk:missing-or-wrong", "PKSelect(%d) = %v, want %v", p, rows[0], val.Row(exp))
					return
				}
			}
		}
	}
	r.Count("lookups-with-column-subset", subsets[false])
	r.Count("lookups-with-no-columns", subsets[true])
	for k, n := range keyForm {
		r.Count("pk-lookups-with-key-of-type-"+k, n)
	}
	if vt.Sampled(s, 10) {
		diff, err := bt.SQLiteAgrees(env.O, env.Dir, built)
		if err != nil {
			r.Harness(t, "cross validation: %v", err)
		}
		if diff != "" {
			r.Harness(t, "builder and SQLite disagree: %s", diff)
		}
		r.Count("sqlite-validated", 1)
	}
}

// keyForms gives the Go values that denote the integer p and that a Key
// converts (key.go: int, uint, int32, uint32, float32, float64 and bool next
// to int64).
func keyForms(p int64) []interface{} {
	out := []interface{}{p, p}
	if int64(int(p)) == p {
		out = append(out, int(p))
	}
	if int64(int32(p)) == p {
		out = append(out, int32(p))
	}
	if p >= 0 {
		out = append(out, uint(p))
		if int64(uint32(p)) == p {
			out = append(out, uint32(p))
		}
	}
	if f := float64(p); f >= -9223372036854775808.0 && f < 9223372036854775808.0 && int64(f) == p {
		// (every integer a float64 holds exactly: also -2^63 and the large
		// multiples of a power of two)
		out = append(out, f)
	}
	if p > -(1<<24) && p < 1<<24 {
		out = append(out, float32(p))
	}
	if p == 0 {
		out = append(out, false)
	}
	if p == 1 {
		out = append(out, true)
	}
	return out
}
