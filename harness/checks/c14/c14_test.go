// C14 — records, varints and spilled payloads decode exactly per the format.
//
// Round trip: an independent encoder/page builder (fmtb) writes the values,
// sqlittle reads them through the memory pager, values must be bit-identical.
// The builder is cross-validated by real SQLite (integrity_check + SELECT).
package c14

import (
	"fmt"
	"os"
	"strings"
	"testing"
	"unicode/utf8"

	"github.com/alicebob/sqlittle"
	sdb "github.com/alicebob/sqlittle/db"
	"pgregory.net/rapid"

	"verif/bt"
	"verif/fmtb"
	"verif/gen"
	"verif/sqdb"
	"verif/val"
	"verif/vt"
)

var env *sqdb.Env

func setup(r *vt.Run, t *testing.T) {
	var err error
	if env, err = sqdb.NewEnv(); err != nil {
		r.Harness(t, "env: %v", err)
	}
}

func teardown() { env.Close() }

// readAll reads table t (rowid) and w (WITHOUT ROWID) of an image with
// sqlittle and compares with what the builder encoded.
// Returns a description of the first difference.
func compare(built *bt.Built) (string, string) {
	d, _, err := bt.Open(built.Img)
	if err != nil {
		return fmt.Sprintf("open: %v", err), "decode:open"
	}
	defer d.Close()
	if p, sig := compareOn(d, built, true, true); p != "" {
		return p, sig
	}
	// the same image as a real file, through the file pager, and every read
	// twice on the one handle (the second time from its page cache: reading
	// must not have damaged what is cached)
	path := env.NewPath()
	defer sqdb.Remove(path)
	if err := os.WriteFile(path, built.Img, 0o644); err != nil {
		return "", ""
	}
	f, err := sdb.OpenFile(path)
	if err != nil {
		return fmt.Sprintf("open as a file: %v", err), "decode:open"
	}
	defer f.Close()
	for pass := 1; pass <= 2; pass++ {
		if err := f.RLock(); err != nil {
			return fmt.Sprintf("lock: %v", err), "decode:open"
		}
		p, sig := compareOn(f, built, true, false) // low-level API: inside our read transaction
		f.RUnlock()
		if p == "" {
			p, sig = compareOn(f, built, false, true) // high-level API: takes the lock itself
		}
		if p != "" {
			return fmt.Sprintf("as a file, pass %d on the same handle: %s", pass, p), sig
		}
	}
	return "", ""
}

func compareOn(d *sdb.Database, built *bt.Built, low, high bool) (string, string) {
	for name, tb := range built.Tables {
		if tb.Spec.WithoutRowid {
			if !low {
				continue
			}
			ix, err := d.NonRowidTable(name)
			if err != nil {
				return fmt.Sprintf("NonRowidTable(%s): %v", name, err), "decode:open-table"
			}
			i := 0
			var problem string
			err = ix.Scan(func(rec sdb.Record) bool {
				if i >= len(tb.Entries) {
					problem = fmt.Sprintf("%s: extra entry %v", name, rec)
					return true
				}
				got, ok := bt.RecordVals(rec)
				if !ok || !bt.ValsEqual(got, tb.Entries[i].Values) {
					problem = fmt.Sprintf("%s entry %d: decoded %v, encoded %v", name, i, val.Row(got), val.Row(tb.Entries[i].Values))
					return true
				}
				i++
				return false
			})
			if problem != "" {
				return problem, "decode:index-cell"
			}
			if err != nil {
				return fmt.Sprintf("%s: scan error %v after %d entries", name, err, i), "decode:index-error"
			}
			if i != len(tb.Entries) {
				return fmt.Sprintf("%s: %d entries read, %d encoded", name, i, len(tb.Entries)), "decode:index-count"
			}
			continue
		}
		if low {
			if p, sig := func() (string, string) {
				tab, err := d.Table(name)
				if err != nil {
					return fmt.Sprintf("Table(%s): %v", name, err), "decode:open-table"
				}
				i := 0
				var problem string
				err = tab.Scan(func(rowid int64, rec sdb.Record) bool {
					if i >= len(tb.Rows) {
						problem = fmt.Sprintf("%s: extra row %d %v", name, rowid, rec)
						return true
					}
					got, ok := bt.RecordVals(rec)
					if rowid != tb.Rows[i].Rowid {
						problem = fmt.Sprintf("%s row %d: rowid decoded %d, encoded %d", name, i, rowid, tb.Rows[i].Rowid)
						return true
					}
					if !ok || !bt.ValsEqual(got, tb.Rows[i].Values()) {
						problem = fmt.Sprintf("%s row %d (rowid %d): decoded %v, encoded %v", name, i, rowid, val.Row(got), val.Row(tb.Rows[i].Values()))
						return true
					}
					i++
					return false
				})
				if problem != "" {
					return problem, "decode:table-cell"
				}
				if err != nil {
					return fmt.Sprintf("%s: scan error %v after %d rows", name, err, i), "decode:table-error"
				}
				if i != len(tb.Rows) {
					return fmt.Sprintf("%s: %d rows read, %d encoded", name, i, len(tb.Rows)), "decode:table-count"
				}
				// ... the secondary indexes of the table: their entries hold the
				// indexed columns and the rowid
				for iname, bi := range tb.Indexes {
					ix, err := d.Index(iname)
					if err != nil {
						return fmt.Sprintf("Index(%s): %v", iname, err), "decode:open-index"
					}
					k := 0
					var problem string
					err = ix.Scan(func(rec sdb.Record) bool {
						if k >= len(bi.Entries) {
							problem = fmt.Sprintf("%s: extra entry %v", iname, rec)
							return true
						}
						got, ok := bt.RecordVals(rec)
						if !ok || !bt.ValsEqual(got, bi.Entries[k].Values) {
							problem = fmt.Sprintf("%s entry %d (%d fields): decoded %.300v, encoded %.300v", iname, k, len(rec), val.Row(got), val.Row(bi.Entries[k].Values))
							return true
						}
						k++
						return false
					})
					if problem != "" {
						return problem, "decode:secondary-index-cell"
					}
					if err != nil || k != len(bi.Entries) {
						return fmt.Sprintf("%s: %d of %d entries (%d fields each), error %v", iname, k, len(bi.Entries), len(bi.Spec.Cols)+1, err), "decode:secondary-index-error"
					}
				}
				// ... and every record fetched on its own by its rowid (rowids of
				// every varint length, negative ones among them)
				for _, row := range tb.Rows {
					rec, err := tab.Rowid(row.Rowid)
					if err != nil {
						return fmt.Sprintf("%s: Rowid(%d): %v", name, row.Rowid, err), "decode:rowid-error"
					}
					got, ok := bt.RecordVals(rec)
					if rec == nil || !ok || !bt.ValsEqual(got, row.Values()) {
						return fmt.Sprintf("%s: Rowid(%d) decoded %v, encoded %v", name, row.Rowid, rec, val.Row(row.Values())), "decode:rowid-cell"
					}
				}
				return "", ""
			}(); p != "" {
				return p, sig
			}
		}
		if !high {
			continue
		}
		var problem string
		i := 0
		// the same through the high-level API
		hl := sqlittle.VerifWrap(d)
		var cols []string
		for c := 0; c < tb.Spec.NCols; c++ {
			cols = append(cols, fmt.Sprintf("c%d", c))
		}
		i = 0
		err := hl.Select(name, func(row sqlittle.Row) {
			if problem != "" || i >= len(tb.Rows) {
				i++
				return
			}
			got, ok := bt.RecordVals(sdb.Record(row))
			want := tb.Rows[i].Values()
			for len(want) < tb.Spec.NCols {
				want = append(want, val.Null())
			}
			if !ok || !bt.ValsEqual(got, want) {
				problem = fmt.Sprintf("Select(%s) row %d: %v, encoded %v", name, i, val.Row(got), val.Row(want))
			}
			i++
		}, cols...)
		if problem != "" {
			return problem, "decode:select"
		}
		if err != nil || i != len(tb.Rows) {
			return fmt.Sprintf("Select(%s): %d rows, err %v; encoded %d", name, i, err, len(tb.Rows)), "decode:select-count"
		}
	}
	return "", ""
}

// report decides between violation and harness problem: SQLite must agree
// with the builder about the image before a difference is blamed on sqlittle.
func report(r *vt.Run, t vt.TB, spec interface{}, built *bt.Built, problem, sig string) {
	diff, err := bt.SQLiteAgrees(env.O, env.Dir, built)
	if err != nil {
		r.Harness(t, "cross validation failed to run: %v (sqlittle: %s)", err, problem)
	}
	if diff != "" {
		r.Harness(t, "builder and SQLite disagree about the image (%s); sqlittle: %s", diff, problem)
	}
	r.Violation(t, spec, sig, "%s", problem)
}

func genField(t *rapid.T, u int) fmtb.Field {
	var f fmtb.Field
	switch rapid.IntRange(0, 10).Draw(t, "fk") {
	case 10:
		// TEXT whose bytes are not well-formed UTF-8 (SQLite stores and
		// returns any bytes: Latin-1 leftovers, cut-off sequences, surrogate
		// halves); short, or long enough to spill
		s := rapid.SampledFrom([]string{"\xe9", "caf\xe9", "\xff\xfe", "\xed\xa0\x80", "a\xc3", "\xf0\x9f\x98", "ok\x80ok", "\xc0\xaf", "\xfe", "z\xe9\xe8\xe7"}).Draw(t, "badutf8")
		if rapid.IntRange(0, 3).Draw(t, "badlong") == 0 {
			s = strings.Repeat(s, 1+u/len(s))
		}
		f.V = val.Text(s)
	case 0:
		// long value sized relative to the page
		// ... or, on small pages, a chain longer than the stretch between two
		// pointer map pages of an auto-vacuum file
		far := 3*u + 7
		if u <= 2048 {
			far = (u/5 + 10) * u
		}
		n := rapid.SampledFrom([]int{u - 40, u - 36, u - 35, u - 34, u, 2 * u, u/4 - 30, u / 4, 3*u + 7, far}).Draw(t, "ln") + rapid.IntRange(-3, 3).Draw(t, "ld")
		if n < 0 {
			n = 0
		}
		b := make([]byte, n)
		for i := range b {
			b[i] = byte('A' + i%53)
		}
		if rapid.Bool().Draw(t, "ltext") {
			f.V = val.Text(string(b))
		} else {
			f.V = val.Blob(b)
		}
	default:
		f.V = gen.Value().Draw(t, "v")
	}
	if f.V.T == 'i' {
		f.IntWidth = rapid.SampledFrom(fmtb.IntWidths(f.V.I)).Draw(t, "w")
		if rapid.IntRange(0, 2).Draw(t, "wmin") > 0 {
			f.IntWidth = 0
		}
	}
	return f
}

type recSpec struct {
	Img bt.Image
}

func genLayout(t *rapid.T) fmtb.Layout {
	return fmtb.Layout{
		Seed:         rapid.Uint64().Draw(t, "lseed"),
		ScatterBlock: rapid.SampledFrom([]int{1, 1, 4, 16}).Draw(t, "scatter"),
		FillerEvery:  rapid.SampledFrom([]int{0, 0, 3, 7}).Draw(t, "filler"),
		ShuffleCells: rapid.Bool().Draw(t, "shuffle"),
		Gaps:         rapid.IntRange(0, 3).Draw(t, "gaps") == 0,
		AutoVacuum:   rapid.SampledFrom([]int{0, 0, 0, 1, 2}).Draw(t, "autovacuum"),
	}
}

func TestC14Records(t *testing.T) {
	vt.Exec(t, vt.Check[recSpec]{
		ID: "C14", Test: "TestC14Records",
		Setup: setup, Teardown: teardown,
		Gen: func(t *rapid.T) recSpec {
			u := rapid.SampledFrom([]int{512, 512, 1024, 1024, 2048, 4096, 4096, 8192, 16384, 32768, 65536}).Draw(t, "ps")
			padded := rapid.IntRange(0, 3).Draw(t, "padded") == 0
			nrows := rapid.IntRange(1, 12).Draw(t, "nrows")
			ncols := rapid.IntRange(1, 6).Draw(t, "ncols")
			wide := rapid.IntRange(0, 9).Draw(t, "wide") == 0
			if wide {
				ncols = rapid.IntRange(120, 200).Draw(t, "widecols") // record header longer than 127 bytes
			}
			// as many columns as a table can have, and an index on all of
			// them: its entries have one field more (the rowid)
			widest := u >= 4096 && rapid.IntRange(0, 40).Draw(t, "widest") == 7
			if widest {
				wide, ncols = true, 2000
				if nrows > 3 {
					nrows = 3
				}
			}
			tab := bt.Table{Name: "t", NCols: ncols}
			wr := bt.Table{Name: "w", NCols: ncols + 1, WithoutRowid: true, PKCols: 1}
			if widest {
				wr.NCols = ncols
				all := make([]int, ncols)
				for i := range all {
					all[i] = i
				}
				tab.Indexes = []bt.Index{{Name: "t_all", Cols: all}}
			}
			used := map[int64]bool{}
			for i := 0; i < nrows; i++ {
				var row bt.Row
				for {
					row.Rowid = gen.Int64().Draw(t, "rowid")
					if !used[row.Rowid] {
						used[row.Rowid] = true
						break
					}
				}
				nf := ncols
				if rapid.IntRange(0, 5).Draw(t, "short") == 0 {
					nf = rapid.IntRange(1, ncols).Draw(t, "nf") // a short row (as after ALTER TABLE ADD COLUMN)
				}
				for c := 0; c < nf; c++ {
					if wide && c > 3 {
						row.Fields = append(row.Fields, fmtb.F(val.Int(int64(c%3))))
						continue
					}
					f := genField(t, u)
					if padded && rapid.IntRange(0, 2).Draw(t, "tpad") == 0 {
						f.TypeLen = rapid.IntRange(5, 9).Draw(t, "tlen")
					}
					row.Fields = append(row.Fields, f)
				}
				if padded {
					if rapid.Bool().Draw(t, "spad") {
						row.SizeLen = rapid.IntRange(5, 8).Draw(t, "slen") // SQLite reads at most 8 continuation bytes here
					}
					if rapid.Bool().Draw(t, "rpad") && row.Rowid >= 0 {
						row.RowidLen = rapid.IntRange(fmtb.VarintLen(uint64(row.Rowid)), 9).Draw(t, "rlen")
					}
					if rapid.Bool().Draw(t, "hpad") {
						row.HdrLen = rapid.IntRange(3, 9).Draw(t, "hlen")
					}
				}
				tab.Rows = append(tab.Rows, row)
				wrow := bt.Row{Fields: append([]fmtb.Field{fmtb.F(val.Int(row.Rowid))}, row.Fields...), HdrLen: row.HdrLen}
				if len(wrow.Fields) > wr.NCols {
					wrow.Fields = wrow.Fields[:wr.NCols]
				}
				wr.Rows = append(wr.Rows, wrow)
			}
			lc := rapid.SampledFrom([]int{0, 0, 1, 2, 3}).Draw(t, "leafcells")
			tab.Tree = fmtb.TreeOpts{LeafCells: lc, Fanout: rapid.SampledFrom([]int{0, 2, 3}).Draw(t, "fanout")}
			wr.Tree = tab.Tree
			img := bt.Image{PageSize: u, Layout: genLayout(t), Tables: []bt.Table{tab, wr}}
			// page 1 as an interior page without a key (see fmtb.TreeOpts)
			img.Master.KeylessRoot = rapid.IntRange(0, 5).Draw(t, "keylessroot") == 0
			if rapid.IntRange(0, 4).Draw(t, "stalesize") == 0 {
				// the in-header size is out of date and marked so (a writer older
				// than SQLite 3.7.0 appended to the file): spilled payloads lie
				// beyond the page count the header gives
				img.Header.StaleSize = rapid.IntRange(1, 999).Draw(t, "stalesizepm")
			}
			return recSpec{Img: img}
		},
		Run: func(r *vt.Run, t vt.TB, s recSpec) {
			built, err := bt.Build(&s.Img)
			if err != nil {
				r.Exclude("layout-impossible")
				return
			}
			overflow, highbit, multivar, widehdr, padded, badText := false, false, false, false, false, false
			for _, row := range s.Img.Tables[0].Rows {
				plen := len(fmtb.EncodeRecord(row.Fields, row.HdrLen))
				if plen > fmtb.TableX(s.Img.PageSize) {
					overflow = true
				}
				if plen > fmtb.IndexX(s.Img.PageSize) {
					overflow = true
				}
				if row.Rowid > 127 || row.Rowid < 0 {
					multivar = true
				}
				if len(row.Fields) > 126 {
					widehdr = true
				}
				if row.SizeLen+row.RowidLen+row.HdrLen > 0 {
					padded = true
				}
				for _, f := range row.Fields {
					if f.V.T == 'i' && f.V.I < 0 {
						highbit = true
					}
					if f.TypeLen > 0 {
						padded = true
					}
					if (f.V.T == 't' || f.V.T == 'b') && len(f.V.B) > 57 {
						multivar = true
					}
					if f.V.T == 't' && !utf8.Valid(f.V.B) {
						badText = true
					}
				}
			}
			r.Case(s, overflow || highbit || multivar,
				fmt.Sprintf("rec:ps=%d", s.Img.PageSize), fmt.Sprintf("rec:overflow=%v", overflow), fmt.Sprintf("rec:widehdr=%v", widehdr),
				fmt.Sprintf("rec:padded-varints=%v", padded), fmt.Sprintf("rec:depth=%d", built.Tables["t"].Shape.Depth), fmt.Sprintf("rec:idxdepth=%d", built.Tables["w"].IShape.Depth),
				fmt.Sprintf("rec:in-header-size-stale=%v", s.Img.Header.StaleSize > 0), fmt.Sprintf("rec:text-not-utf8=%v", badText),
				fmt.Sprintf("rec:autovacuum=%d", s.Img.Layout.AutoVacuum), fmt.Sprintf("rec:page1-interior-without-key=%v", s.Img.Master.KeylessRoot), fmt.Sprintf("rec:index-entries-of-2001-fields=%v", len(s.Img.Tables[0].Indexes) > 0 && s.Img.Tables[0].NCols == 2000), fmt.Sprintf("rec:autovacuum-beyond-second-map-page=%v", s.Img.Layout.AutoVacuum > 0 && built.Pages > s.Img.PageSize/5+3))
			if problem, sig := compare(built); problem != "" {
				report(r, t, s, built, problem, sig)
				return
			}
			// sampled cross validation of the builder itself
			if vt.Sampled(s, 8) || ((s.Img.Header.StaleSize > 0 || s.Img.Layout.AutoVacuum > 0 || s.Img.Master.KeylessRoot) && vt.Sampled(s, 2) || len(s.Img.Tables[0].Indexes) > 0) {
				diff, err := bt.SQLiteAgrees(env.O, env.Dir, built)
				if err != nil {
					r.Harness(t, "cross validation: %v", err)
				}
				if diff != "" {
					r.Harness(t, "builder and SQLite disagree: %s", diff)
				}
				r.Count("rec:sqlite-validated", 1)
			}
		},
	})
}
