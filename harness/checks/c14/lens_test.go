package c14

import (
	"fmt"
	"sort"
	"testing"

	"verif/bt"
	"verif/fmtb"
	"verif/val"
	"verif/vt"
)

// Exhaustive / boundary enumeration of payload lengths relative to the
// local-payload thresholds, in table-leaf, index-leaf and index-interior cells.

type lensSpec struct {
	PageSize int
	Lens     []int
}

// fieldsFor finds a record whose encoded length is exactly l: k NULLs and one
// blob. The blob starts with the big-endian length so that entries are
// distinct and ordered by l.
func fieldsFor(l int) []fmtb.Field {
	for k := 0; k <= 3; k++ {
		for _, tl := range []int{1, 2, 3} {
			hdr := 1 + k + tl
			if hdr > 127 {
				continue
			}
			n := l - hdr
			if n < 0 {
				continue
			}
			if fmtb.VarintLen(uint64(2*n+12)) != tl {
				continue
			}
			b := make([]byte, n)
			pat := []byte{byte(l >> 24), byte(l >> 16), byte(l >> 8), byte(l)}
			for i := range b {
				if i < 4 {
					b[i] = pat[i]
				} else {
					b[i] = byte('a' + (i+l)%26)
				}
			}
			var fs []fmtb.Field
			fs = append(fs, fmtb.F(val.Blob(b)))
			for i := 0; i < k; i++ {
				fs = append(fs, fmtb.F(val.Null()))
			}
			if len(fmtb.EncodeRecord(fs, 0)) != l {
				panic("fieldsFor: wrong length")
			}
			return fs
		}
	}
	return nil
}

func lensImage(s lensSpec) *bt.Image {
	img := &bt.Image{PageSize: s.PageSize, Layout: fmtb.Layout{Seed: uint64(s.PageSize + s.Lens[0]), ScatterBlock: 4, FillerEvery: 5}}
	t := bt.Table{Name: "t", NCols: 4}
	w1 := bt.Table{Name: "w1", NCols: 4, WithoutRowid: true, PKCols: 1, Tree: fmtb.TreeOpts{LeafCells: 1, Fanout: 3}}
	w2 := bt.Table{Name: "w2", NCols: 4, WithoutRowid: true, PKCols: 1, Tree: fmtb.TreeOpts{LeafCells: 1, Fanout: 3}}
	// w2 gets one small entry in front so that leaf/interior positions alternate the other way
	// (an integer: it sorts before every blob and equals none of them - the
	// 2-byte payload of the enumeration is the empty blob)
	w2.Rows = append(w2.Rows, bt.Row{Fields: fmtb.Values(val.Int(-5))})
	for _, l := range s.Lens {
		fs := fieldsFor(l)
		if fs == nil {
			continue
		}
		t.Rows = append(t.Rows, bt.Row{Rowid: int64(l), Fields: fs})
		w1.Rows = append(w1.Rows, bt.Row{Fields: fs})
		w2.Rows = append(w2.Rows, bt.Row{Fields: fs})
	}
	// a trailing entry in both, so that the last real entry can be a divider too
	last := bt.Row{Fields: fmtb.Values(val.Blob([]byte{0xff, 0xff, 0xff, 0xff, 0xff}))}
	w1.Rows = append(w1.Rows, last)
	w2.Rows = append(w2.Rows, last)
	img.Tables = []bt.Table{t, w1, w2}
	return img
}

// lengths to explore for a page size: everything up to 3U for the small
// ones, otherwise the neighbourhoods of X (table and index), M and of every
// point where K crosses a threshold, for chains of 1..3 overflow pages.
func lensFor(u int, full bool) []int {
	set := map[int]bool{}
	if full {
		for l := 2; l <= 3*u+8; l++ {
			set[l] = true
		}
	} else {
		m := fmtb.MinLocal(u)
		for _, x := range []int{fmtb.TableX(u), fmtb.IndexX(u)} {
			for d := -3; d <= 3; d++ {
				set[x+d] = true
				set[m+d] = true
				for j := 1; j <= 3; j++ {
					set[m+j*(u-4)+d] = true // K == M
					set[x+j*(u-4)+d] = true // K == X
					set[x+j*(u-4)-(u-4)+d+1] = true
					set[j*(u-4)+d] = true
					set[j*u+d] = true
				}
			}
		}
		for l := 2; l < 40; l++ {
			set[l] = true
		}
	}
	var out []int
	for l := range set {
		if l >= 2 && fieldsFor(l) != nil {
			out = append(out, l)
		}
	}
	sort.Ints(out)
	return out
}

func TestC14PayloadLens(t *testing.T) {
	vt.Exec(t, vt.Check[lensSpec]{
		ID: "C14", Test: "TestC14PayloadLens",
		Setup: setup, Teardown: teardown,
		Run: runLens,
	})
}

func runLens(r *vt.Run, t vt.TB, s lensSpec) {
	if len(s.Lens) > 0 && s.Lens[0] >= 0 {
		// replay / regression form: one explicit batch
		lensBatch(r, t, s)
		return
	}
}

func lensBatch(r *vt.Run, t vt.TB, s lensSpec) {
	img := lensImage(s)
	built, err := bt.Build(img)
	if err != nil {
		r.Harness(t, "lens image for %d %v: %v", s.PageSize, s.Lens, err)
	}
	interior := map[int]bool{}
	for _, name := range []string{"w1", "w2"} {
		bw := built.Tables[name]
		for _, pos := range bw.IShape.InteriorEntry {
			e := bw.Entries[pos]
			interior[len(fmtb.EncodeRecord(bw.Spec.Rows[e.Row].Fields, 0))] = true
		}
	}
	for _, l := range s.Lens {
		if fieldsFor(l) == nil {
			continue
		}
		u := s.PageSize
		r.CaseKey(uint64(u)<<32|uint64(l)<<2|0, l > fmtb.TableX(u), fmt.Sprintf("lens:ps=%d:table-leaf", u), func() interface{} { return lensSpec{u, []int{l}} })
		r.CaseKey(uint64(u)<<32|uint64(l)<<2|1, l > fmtb.IndexX(u), fmt.Sprintf("lens:ps=%d:index-leaf", u), nil)
		if interior[l] {
			r.CaseKey(uint64(u)<<32|uint64(l)<<2|2, l > fmtb.IndexX(u), fmt.Sprintf("lens:ps=%d:index-interior", u), nil)
		}
	}
	if problem, sig := compare(built); problem != "" {
		report(r, t, s, built, problem, sig)
		return
	}
	if vt.Sampled(s, 6) || s.Lens[0] <= 8 {
		// (the batch with the shortest payloads always: its image once held a
		// duplicate key nobody saw because this step was only sampled)
		diff, err := bt.SQLiteAgrees(env.O, env.Dir, built)
		if err != nil {
			r.Harness(t, "cross validation: %v", err)
		}
		if diff != "" {
			r.Harness(t, "builder and SQLite disagree (ps %d, lens %v..): %s", s.PageSize, s.Lens[0], diff)
		}
		r.Count("lens:sqlite-validated-batches", 1)
	}
}

// TestC14PayloadLensEnum drives the enumeration (sharded by batch).
func TestC14PayloadLensEnum(t *testing.T) {
	r := vt.Begin("C14", "TestC14PayloadLens")
	defer r.End()
	if vt.Replaying() {
		t.Skip("replay goes through TestC14PayloadLens")
	}
	setup(r, t)
	defer teardown()
	shard, nshards := vt.Shard()
	fullSizes := map[int]bool{512: true}
	if vt.Thorough() {
		fullSizes[1024] = true
		fullSizes[2048] = true
	}
	batch := 0
	for _, u := range fmtb.PageSizes {
		lens := lensFor(u, fullSizes[u])
		per := 48
		if u >= 16384 {
			per = 12
		}
		for i := 0; i < len(lens); i += per {
			j := i + per
			if j > len(lens) {
				j = len(lens)
			}
			batch++
			if batch%nshards != shard {
				continue
			}
			lensBatch(r, t, lensSpec{PageSize: u, Lens: lens[i:j]})
		}
	}
	r.SetExhaustive(true)
	r.Extra("exhaustive_page_sizes", fmt.Sprint(fullSizes))
}
