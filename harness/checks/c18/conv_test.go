// C18 — Row.Scan conversions are total, documented, and yield independent
// copies. This file: the conversion table (pure, in-process).
package c18

import (
	"bytes"
	"fmt"
	"math"
	"reflect"
	"regexp"
	"strconv"
	"strings"
	"testing"
	"time"

	"github.com/alicebob/sqlittle"
	"pgregory.net/rapid"

	"verif/gen"
	"verif/val"
	"verif/vt"
)

var numericTexts = []string{
	"0", "1", "-1", "+5", "007", "010", "0123", "-0755", "00010", "08", "0777", "0b101", "0o17", "42", "-0", "9223372036854775807", "9223372036854775808", "-9223372036854775808", "-9223372036854775809",
	"1.5", "-2.5e3", "1e3", ".5", "5.", "1e400", "-1e400", "1e-400", "0.0", "3.999", "-3.999", "1E2", "1e+2", "2147483648", "4294967296", "123456789012",
	"abc", "12abc", "1 ", "", " ", " 1", "1\n", "0x10", "0X1F", "1_000", "inf", "Inf", "NaN", "+Inf", "-infinity", "true", "false", "1,5", "1.2.3", "--1", "+-1", "e5", "1e", "0x1p-2",
	"١٢٣", "1\x00", "\x001",
	"2006-01-02 15:04:05", "2006-01-02 15:04:05.123", "2019-12-31 23:59:59", "2020-02-29 00:00:00.000", "2006-01-02T15:04:05Z", "2006-01-02", "2006-13-02 15:04:05",
	"2006-01-02 15:04:05.1", "2006-01-02 15:04:05.12345", " 2006-01-02 15:04:05", "2006-01-02 25:04:05", "2021-02-30 10:00:00", "0000-01-01 00:00:00", "9999-12-31 23:59:59.999",
}

// genNumericText draws text that looks like a decimal number: optional sign,
// optional leading zeros, digits, optional fraction and exponent.
func genNumericText(t *rapid.T) string {
	s := rapid.SampledFrom([]string{"", "", "-", "+"}).Draw(t, "sign")
	s += rapid.SampledFrom([]string{"", "", "0", "00", "000"}).Draw(t, "zeros")
	s += fmt.Sprint(rapid.IntRange(0, 99999).Draw(t, "digits"))
	switch rapid.IntRange(0, 5).Draw(t, "tail") {
	case 0:
		s += "." + fmt.Sprint(rapid.IntRange(0, 999).Draw(t, "frac"))
	case 1:
		s += "e" + fmt.Sprint(rapid.IntRange(0, 12).Draw(t, "exp"))
	}
	return s
}

func genStored(t *rapid.T) val.V {
	switch rapid.IntRange(0, 4).Draw(t, "sk") {
	case 4:
		if rapid.Bool().Draw(t, "asblob") {
			return val.Blob([]byte(genNumericText(t)))
		}
		return val.Text(genNumericText(t))
	case 0:
		return val.Text(rapid.SampledFrom(numericTexts).Draw(t, "nt"))
	case 1:
		return val.Blob([]byte(rapid.SampledFrom(numericTexts).Draw(t, "nb")))
	default:
		return gen.Value().Draw(t, "v")
	}
}

var destKinds = []string{"string", "bytes", "int64", "int32", "int", "bool", "float64", "time", "nil", "unsupported-uint", "unsupported-value", "unsupported-ptrptr", "unsupported-int8", "unsupported-nil-string", "unsupported-nil-int64", "unsupported-nil-bytes", "unsupported-nil-time"}

type convSpec struct {
	Row   []val.V
	Dests []string
}

var (
	reInt   = regexp.MustCompile(`^[+-]?[0-9]+$`)
	reFloat = regexp.MustCompile(`^[+-]?([0-9]+\.?[0-9]*|\.[0-9]+)([eE][+-]?[0-9]+)?$`)
	reGrey  = regexp.MustCompile(`(?i)^[+-]?(inf|infinity|nan|0x[0-9a-f_.p+-]*|[0-9][0-9_]*(\.[0-9_]*)?([e][+-]?[0-9_]+)?)$`)
)

// expectation for a numeric destination
type numExp struct {
	kind string // "exact", "error", "grey"
	i    int64
	f    float64
}

func textToInt(s string) numExp {
	if reInt.MatchString(s) {
		if n, err := strconv.ParseInt(s, 10, 64); err == nil {
			return numExp{kind: "exact", i: n}
		}
		return numExp{kind: "grey"} // integer syntax beyond int64: goes through float, out of range
	}
	if reFloat.MatchString(s) {
		f, err := strconv.ParseFloat(s, 64)
		if err != nil {
			return numExp{kind: "grey"} // range error
		}
		if f > -9.2e18 && f < 9.2e18 {
			return numExp{kind: "exact", i: int64(f)}
		}
		return numExp{kind: "grey"}
	}
	if reGrey.MatchString(s) {
		return numExp{kind: "grey"}
	}
	return numExp{kind: "error"}
}

func textToFloat(s string) numExp {
	if reInt.MatchString(s) || reFloat.MatchString(s) {
		f, err := strconv.ParseFloat(s, 64)
		if err != nil {
			return numExp{kind: "grey"}
		}
		return numExp{kind: "exact", f: f}
	}
	if reGrey.MatchString(s) {
		return numExp{kind: "grey"}
	}
	return numExp{kind: "error"}
}

func expInt(v val.V, present bool) numExp {
	if !present {
		return numExp{kind: "exact", i: 0}
	}
	switch v.T {
	case 'n':
		return numExp{kind: "exact", i: 0}
	case 'i':
		return numExp{kind: "exact", i: v.I}
	case 'r':
		f := v.Float()
		if f > -9.2e18 && f < 9.2e18 {
			return numExp{kind: "exact", i: int64(f)}
		}
		return numExp{kind: "grey"}
	default:
		return textToInt(string(v.B))
	}
}

func expFloat(v val.V, present bool) numExp {
	if !present {
		return numExp{kind: "exact", f: 0}
	}
	switch v.T {
	case 'n':
		return numExp{kind: "exact", f: 0}
	case 'i':
		return numExp{kind: "exact", f: float64(v.I)}
	case 'r':
		return numExp{kind: "exact", f: v.Float()}
	default:
		return textToFloat(string(v.B))
	}
}

func sameFloat(a, b float64) bool {
	return a == b && math.Signbit(a) == math.Signbit(b) || (math.IsNaN(a) && math.IsNaN(b))
}

func newDest(k string) interface{} {
	switch k {
	case "string":
		x := "sentinel"
		return &x
	case "bytes":
		x := []byte("sentinel")
		return &x
	case "int64":
		x := int64(-77)
		return &x
	case "int32":
		x := int32(-77)
		return &x
	case "int":
		x := int(-77)
		return &x
	case "bool":
		x := true
		return &x
	case "float64":
		x := float64(-77.5)
		return &x
	case "time":
		x := time.Unix(77, 0)
		return &x
	case "nil":
		return nil
	case "unsupported-uint":
		x := uint(7)
		return &x
	case "unsupported-value":
		return "not a pointer"
	case "unsupported-ptrptr":
		x := new(string)
		return &x
	case "unsupported-int8":
		x := int8(7)
		return &x
	// a pointer of a supported type that points nowhere: there is nothing to
	// store the value in
	case "unsupported-nil-string":
		return (*string)(nil)
	case "unsupported-nil-int64":
		return (*int64)(nil)
	case "unsupported-nil-bytes":
		return (*[]byte)(nil)
	case "unsupported-nil-time":
		return (*time.Time)(nil)
	}
	panic("unknown dest kind " + k)
}

func safeScan(row sqlittle.Row, dests []interface{}) (err error, pan interface{}) {
	defer func() { pan = recover() }()
	return row.Scan(dests...), nil
}

// checkOne scans column i alone (earlier destinations nil = skipped) into a
// destination of kind k and compares with the model. outcome: "ok", "error"
// (model demands an error and got one) or "grey".
func checkOne(s convSpec, row sqlittle.Row, i int, k string) (outcome string, dest interface{}, problem, sig string) {
	present := i < len(s.Row)
	v := val.Null()
	if present {
		v = s.Row[i]
	}
	where := fmt.Sprintf("dest %d (%s) from %s", i, k, v)
	if !present {
		where = fmt.Sprintf("dest %d (%s) from a missing column", i, k)
	}
	d := newDest(k)
	dests := append(make([]interface{}, i), d)
	err, pan := safeScan(row, dests)
	if pan != nil {
		return "", d, where + fmt.Sprintf(": Scan panics: %v", pan), "conv:panic"
	}
	mustErr := func() (string, interface{}, string, string) {
		if err == nil {
			return "", d, where + ": expected an error, Scan returned nil", "conv:no-error:" + k
		}
		return "error", d, "", ""
	}
	mustOK := func() (string, string) {
		if err != nil {
			return where + fmt.Sprintf(": unexpected error %v", err), "conv:error:" + k
		}
		return "", ""
	}
	bad := func(format string, args ...interface{}) (string, interface{}, string, string) {
		return "", d, where + ": " + fmt.Sprintf(format, args...), "conv:" + k
	}
	switch k {
	case "nil":
		if p, sg := mustOK(); p != "" {
			return "", d, p, sg
		}
	case "unsupported-uint", "unsupported-value", "unsupported-ptrptr", "unsupported-int8", "unsupported-nil-string", "unsupported-nil-int64", "unsupported-nil-bytes", "unsupported-nil-time":
		return mustErr()
	case "string", "bytes":
		if p, sg := mustOK(); p != "" {
			return "", d, p, sg
		}
		var got []byte
		if k == "string" {
			got = []byte(*(d.(*string)))
		} else {
			got = *(d.(*[]byte))
		}
		switch v.T {
		case 'n':
			if len(got) != 0 {
				return bad("got %q want empty", got)
			}
		case 'i':
			if string(got) != strconv.FormatInt(v.I, 10) {
				return bad("got %q", got)
			}
		case 'r':
			f, perr := strconv.ParseFloat(string(got), 64)
			if perr != nil || !sameFloat(f, v.Float()) {
				return bad("got %q which does not read back as the same number", got)
			}
		default:
			if !bytes.Equal(got, v.B) {
				return bad("got %q", got)
			}
		}
	case "int64", "int32", "int", "bool":
		e := expInt(v, present)
		if e.kind == "grey" {
			return "grey", d, "", ""
		}
		if e.kind == "error" {
			return mustErr()
		}
		if p, sg := mustOK(); p != "" {
			return "", d, p, sg
		}
		switch k {
		case "int64":
			if got := *(d.(*int64)); got != e.i {
				return bad("got %d want %d", got, e.i)
			}
		case "int32":
			if got := *(d.(*int32)); got != int32(e.i) {
				return bad("got %d want %d", got, int32(e.i))
			}
		case "int":
			if got := *(d.(*int)); got != int(e.i) {
				return bad("got %d want %d", got, e.i)
			}
		case "bool":
			// non-integral numbers: either reading of "non-zero" is accepted
			if v.T == 'r' && v.Float() != math.Trunc(v.Float()) {
				return "grey", d, "", ""
			}
			if (v.T == 't' || v.T == 'b') && !reInt.MatchString(string(v.B)) {
				return "grey", d, "", ""
			}
			if got := *(d.(*bool)); got != (e.i != 0) {
				return bad("got %v want %v", got, e.i != 0)
			}
		}
	case "float64":
		e := expFloat(v, present)
		if e.kind == "grey" {
			return "grey", d, "", ""
		}
		if e.kind == "error" {
			return mustErr()
		}
		if p, sg := mustOK(); p != "" {
			return "", d, p, sg
		}
		if got := *(d.(*float64)); !sameFloat(got, e.f) {
			return bad("got %v want %v", got, e.f)
		}
	case "time":
		got := d.(*time.Time)
		switch {
		case !present || v.T == 'n':
			if p, sg := mustOK(); p != "" {
				return "", d, p, sg
			}
			if !got.IsZero() {
				return bad("got %v want the zero time", *got)
			}
		case v.T == 'i':
			if p, sg := mustOK(); p != "" {
				return "", d, p, sg
			}
			if !got.Equal(time.Unix(v.I, 0)) {
				return bad("got %v want %v", *got, time.Unix(v.I, 0))
			}
		case v.T == 't':
			var want time.Time
			ok := false
			for _, layout := range []string{"2006-01-02 15:04:05", "2006-01-02 15:04:05.000"} {
				if tm, perr := time.Parse(layout, string(v.B)); perr == nil {
					want, ok = tm, true
					break
				}
			}
			if !ok {
				return mustErr()
			}
			if p, sg := mustOK(); p != "" {
				return "", d, p, sg
			}
			if !got.Equal(want) {
				return bad("got %v want %v", *got, want)
			}
		default:
			// REAL (julian day) and BLOB timestamps: not documented; only
			// totality is required. The current code returns an error.
			return "grey", d, "", ""
		}
	}
	return "ok", d, "", ""
}

// checkConv: every destination alone against the model, then the whole
// argument list against the single results: Scan must fail iff one of the
// destinations fails alone, and the destinations before the first failing one
// hold their single-scan values. The row must stay unchanged.
func checkConv(s convSpec) (problem, sig string) {
	row := make(sqlittle.Row, len(s.Row))
	orig := make(sqlittle.Row, len(s.Row))
	for i, v := range s.Row {
		row[i], orig[i] = v.Go(), v.Go()
	}
	outcomes := make([]string, len(s.Dests))
	singles := make([]interface{}, len(s.Dests))
	for i, k := range s.Dests {
		o, d, p, sg := checkOne(s, row, i, k)
		if p != "" {
			return p, sg
		}
		outcomes[i], singles[i] = o, d
		if !reflect.DeepEqual(row, orig) {
			return fmt.Sprintf("Scan changed the row: %v -> %v", orig, row), "conv:row-changed"
		}
	}
	dests := make([]interface{}, len(s.Dests))
	for i, k := range s.Dests {
		dests[i] = newDest(k)
	}
	err, pan := safeScan(row, dests)
	if pan != nil {
		return fmt.Sprintf("Scan panics: %v", pan), "conv:panic"
	}
	if !reflect.DeepEqual(row, orig) {
		return fmt.Sprintf("Scan changed the row: %v -> %v", orig, row), "conv:row-changed"
	}
	for i, o := range outcomes {
		if o == "grey" {
			return "", "" // either outcome is allowed from here on
		}
		if o == "error" {
			if err == nil {
				return fmt.Sprintf("dest %d (%s) fails alone but Scan of all destinations returned nil", i, s.Dests[i]), "conv:no-error:combined"
			}
			return "", ""
		}
		if s.Dests[i] != "nil" && !reflect.DeepEqual(dests[i], singles[i]) {
			return fmt.Sprintf("dest %d (%s): value differs between scanning alone and with the other destinations", i, s.Dests[i]), "conv:combined"
		}
	}
	if err != nil {
		return fmt.Sprintf("Scan returned %v although every destination converts alone", err), "conv:error:spurious"
	}
	return "", ""
}

func TestC18Conv(t *testing.T) {
	vt.Exec(t, vt.Check[convSpec]{
		ID: "C18", Test: "TestC18Conv",
		Gen: func(t *rapid.T) convSpec {
			var s convSpec
			n := rapid.IntRange(0, 4).Draw(t, "ncols")
			for i := 0; i < n; i++ {
				s.Row = append(s.Row, genStored(t))
			}
			m := rapid.IntRange(0, n+2).Draw(t, "ndest")
			for i := 0; i < m; i++ {
				s.Dests = append(s.Dests, rapid.SampledFrom(destKinds).Draw(t, "dk"))
			}
			return s
		},
		Run: func(r *vt.Run, t vt.TB, s convSpec) {
			cls := []string{}
			for i, k := range s.Dests {
				src := "missing"
				if i < len(s.Row) {
					src = string(s.Row[i].T)
				}
				cls = append(cls, "conv:"+src+"->"+strings.SplitN(k, "-", 2)[0])
			}
			argc := "conv:args=equal"
			if len(s.Dests) < len(s.Row) {
				argc = "conv:args=fewer"
			} else if len(s.Dests) > len(s.Row) {
				argc = "conv:args=more"
			}
			r.Case(s, len(s.Dests) > 0 && len(s.Row) > 0, append(cls, argc)...)
			if problem, sig := checkConv(s); problem != "" {
				r.Violation(t, s, sig, "row %v: %s", val.Row(s.Row), problem)
			}
		},
	})
}

// the shortcut methods agree with Scan
func TestC18Shortcuts(t *testing.T) {
	vt.Exec(t, vt.Check[convSpec]{
		ID: "C18", Test: "TestC18Shortcuts",
		Gen: func(t *rapid.T) convSpec {
			var s convSpec
			n := rapid.IntRange(0, 4).Draw(t, "ncols")
			for i := 0; i < n; i++ {
				s.Row = append(s.Row, genStored(t))
			}
			return s
		},
		Run: func(r *vt.Run, t vt.TB, s convSpec) {
			r.Case(s, len(s.Row) > 0, fmt.Sprintf("shortcuts:cols=%d", len(s.Row)))
			row := make(sqlittle.Row, len(s.Row))
			for i, v := range s.Row {
				row[i] = v.Go()
			}
			var pan interface{}
			var ss []string
			var s1, s2a, s2b string
			func() {
				defer func() { pan = recover() }()
				ss = row.ScanStrings()
				s1, _ = row.ScanString()
				s2a, s2b, _ = row.ScanStringString()
			}()
			if pan != nil {
				r.Violation(t, s, "conv:panic", "shortcut panics on %v: %v", val.Row(s.Row), pan)
				return
			}
			if len(ss) != len(s.Row) {
				r.Violation(t, s, "conv:scanstrings", "ScanStrings gave %d strings for %d columns", len(ss), len(s.Row))
				return
			}
			want := make([]string, 2)
			for i := range s.Row {
				var x string
				row.Scan(append(make([]interface{}, i), &x)...)
				if ss[i] != x {
					r.Violation(t, s, "conv:scanstrings", "ScanStrings[%d] = %q, Scan gives %q", i, ss[i], x)
					return
				}
				if i < 2 {
					want[i] = x
				}
			}
			if s1 != want[0] || s2a != want[0] || s2b != want[1] {
				r.Violation(t, s, "conv:scanstring", "ScanString/ScanStringString = %q / %q,%q; Scan gives %q,%q", s1, s2a, s2b, want[0], want[1])
			}
		},
	})
}
