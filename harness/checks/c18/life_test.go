package c18

import (
	"bytes"
	"fmt"
	"os"
	"testing"

	"github.com/alicebob/sqlittle"
	"pgregory.net/rapid"

	"verif/oracle"
	"verif/sqdb"
	"verif/val"
	"verif/vt"
)

// Lifetime: values obtained from Row.Scan are independent copies.

type lifeAction struct {
	Kind string // mutate-overwrite, mutate-append, reread, rowid, close, overwrite-file, remove-file
	Row  int
}

type lifeSpec struct {
	PageSize int
	Sizes    [][2]int // per row: blob length, text length
	Shared   bool     // the first select scans every row into the same variables and keeps the results
	Actions  []lifeAction
}

func content(row, col, n int) []byte {
	b := make([]byte, n)
	for i := range b {
		b[i] = byte('a' + (row*7+col*3+i)%26)
	}
	return b
}

var lifeEnv *sqdb.Env

func TestC18Lifetime(t *testing.T) {
	vt.Exec(t, vt.Check[lifeSpec]{
		ID: "C18", Test: "TestC18Lifetime",
		Setup: func(r *vt.Run, t *testing.T) {
			var err error
			if lifeEnv, err = sqdb.NewEnv(); err != nil {
				r.Harness(t, "env: %v", err)
			}
		},
		Teardown: func() { lifeEnv.Close() },
		Gen: func(t *rapid.T) lifeSpec {
			s := lifeSpec{PageSize: rapid.SampledFrom([]int{512, 1024, 4096}).Draw(t, "ps")}
			n := rapid.IntRange(1, 8).Draw(t, "nrows")
			sizes := []int{0, 1, 5, 30, 100, 400, 480, 1000, 5000}
			for i := 0; i < n; i++ {
				s.Sizes = append(s.Sizes, [2]int{rapid.SampledFrom(sizes).Draw(t, "bl"), rapid.SampledFrom(sizes).Draw(t, "tl")})
			}
			s.Shared = rapid.Bool().Draw(t, "shared")
			k := rapid.IntRange(1, 8).Draw(t, "nact")
			closed := false
			for i := 0; i < k; i++ {
				var kinds []string
				if !closed {
					kinds = []string{"mutate-overwrite", "mutate-append", "reread", "reread", "rowid", "close"}
				} else {
					kinds = []string{"mutate-overwrite", "mutate-append", "overwrite-file", "remove-file"}
				}
				a := lifeAction{Kind: rapid.SampledFrom(kinds).Draw(t, "ak"), Row: rapid.IntRange(0, n-1).Draw(t, "ar")}
				if a.Kind == "close" {
					closed = true
				}
				s.Actions = append(s.Actions, a)
			}
			return s
		},
		Run: runLife,
	})
}

func runLife(r *vt.Run, t vt.TB, s lifeSpec) {
	path := lifeEnv.NewPath()
	defer sqdb.Remove(path)
	stmts := []oracle.Stmt{{SQL: "CREATE TABLE t (id INTEGER PRIMARY KEY, b BLOB, s TEXT)"}, {SQL: "BEGIN"}}
	for i, sz := range s.Sizes {
		stmts = append(stmts, oracle.Stmt{SQL: "INSERT INTO t VALUES (?, ?, CAST(? AS TEXT))",
			Params: []val.V{val.Int(int64(i + 1)), val.Blob(content(i, 0, sz[0])), val.Blob(content(i, 1, sz[1]))}})
	}
	stmts = append(stmts, oracle.Stmt{SQL: "COMMIT"})
	res, err := lifeEnv.Create("w", path, s.PageSize, 0, stmts)
	sqdb.MustOK(r, t, "build", res, err, len(stmts)+2)
	lifeEnv.O.Close("w")

	mutated, reread := false, false
	for _, a := range s.Actions {
		if a.Kind == "mutate-overwrite" || a.Kind == "mutate-append" {
			mutated = true
		}
		if mutated && (a.Kind == "reread" || a.Kind == "rowid") {
			reread = true
		}
	}
	overflow := false
	for _, sz := range s.Sizes {
		if sz[0]+sz[1] > s.PageSize-35 {
			overflow = true
		}
	}
	shrinking := false
	for i := 1; i < len(s.Sizes); i++ {
		if s.Sizes[i][0] > 0 && s.Sizes[i][0] <= s.Sizes[i-1][0] {
			shrinking = true
		}
	}
	r.Case(s, reread || (s.Shared && shrinking), fmt.Sprintf("life:ps=%d", s.PageSize), fmt.Sprintf("life:overflow=%v", overflow), fmt.Sprintf("life:mutate-then-read=%v", reread),
		fmt.Sprintf("life:shared-dest=%v", s.Shared), fmt.Sprintf("life:shared-dest-not-growing=%v", s.Shared && shrinking))

	db, err := sqlittle.Open(path)
	if err != nil {
		r.Harness(t, "open: %v", err)
	}
	closed := false
	defer func() {
		if !closed {
			db.Close()
		}
	}()
	type scanned struct {
		b       []byte
		s       string
		touched bool
	}
	var got []scanned
	var shared scanned // destination that outlives the callback, as in `var cur T; Select(.., func(r Row){ r.Scan(&cur.b); keep(cur) })`
	err = db.Select("t", func(row sqlittle.Row) {
		var id int64
		var fresh scanned
		sc := &fresh
		if s.Shared {
			sc = &shared
		}
		if err := row.Scan(&id, &sc.b, &sc.s); err != nil {
			panic(err)
		}
		got = append(got, *sc)
	}, "id", "b", "s")
	if err != nil || len(got) != len(s.Sizes) {
		r.Harness(t, "initial select: %v (%d rows, want %d)", err, len(got), len(s.Sizes))
	}
	verifyScanned := func(when string) bool {
		for i, sc := range got {
			if sc.s != string(content(i, 1, s.Sizes[i][1])) {
				r.Violation(t, s, "life:string-changed", "%s: string scanned from row %d changed", when, i)
				return false
			}
			if !sc.touched && !bytes.Equal(sc.b, content(i, 0, s.Sizes[i][0])) {
				r.Violation(t, s, "life:bytes-changed", "%s: []byte scanned from row %d changed though the caller never touched it", when, i)
				return false
			}
		}
		return true
	}
	if !verifyScanned("after the first select") {
		return
	}
	checkRow := func(when string, i int, row sqlittle.Row) bool {
		var id int64
		var b []byte
		var str string
		if err := row.Scan(&id, &b, &str); err != nil {
			r.Violation(t, s, "life:reread-error", "%s: %v", when, err)
			return false
		}
		if id != int64(i+1) || !bytes.Equal(b, content(i, 0, s.Sizes[i][0])) || str != string(content(i, 1, s.Sizes[i][1])) {
			r.Violation(t, s, "life:reread-differs", "%s: row %d reads back as id=%d b=%.40q.. s=%.40q.., stored b=%.40q.. s=%.40q..", when, i, id, b, str, content(i, 0, s.Sizes[i][0]), content(i, 1, s.Sizes[i][1]))
			return false
		}
		return true
	}
	for step, a := range s.Actions {
		when := fmt.Sprintf("step %d (%s row %d)", step, a.Kind, a.Row)
		switch a.Kind {
		case "mutate-overwrite":
			for j := range got[a.Row].b {
				got[a.Row].b[j] = 0xEE
			}
			got[a.Row].touched = true
		case "mutate-append":
			// writes into spare capacity if the slice has any
			b := got[a.Row].b
			b = append(b, bytes.Repeat([]byte{0xDD}, 64)...)
			got[a.Row].b = b
			got[a.Row].touched = true
		case "reread":
			i := 0
			ok := true
			err := db.Select("t", func(row sqlittle.Row) {
				if ok && i < len(s.Sizes) {
					ok = checkRow(when, i, row)
				}
				i++
			}, "id", "b", "s")
			if !ok {
				return
			}
			if err != nil || i != len(s.Sizes) {
				r.Violation(t, s, "life:reread-error", "%s: select gives %d rows, err %v; want %d rows", when, i, err, len(s.Sizes))
				return
			}
		case "rowid":
			row, err := db.SelectRowid("t", int64(a.Row+1), "id", "b", "s")
			if err != nil || row == nil {
				r.Violation(t, s, "life:reread-error", "%s: SelectRowid gives %v, %v", when, row, err)
				return
			}
			if !checkRow(when, a.Row, row) {
				return
			}
		case "close":
			db.Close()
			closed = true
		case "overwrite-file":
			st, err := os.Stat(path)
			if err == nil {
				os.WriteFile(path, bytes.Repeat([]byte{0xFF}, int(st.Size())), 0o644)
			}
		case "remove-file":
			os.Remove(path)
		}
		if !verifyScanned("after " + when) {
			return
		}
	}
}
