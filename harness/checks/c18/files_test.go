package c18

// Rows as the library itself hands them out: read from files written by
// SQLite, among them rows written before an ALTER TABLE ADD COLUMN, which the
// library completes from the column's DEFAULT (declared type x default
// matrix). Every value of every such row goes through the conversion model of
// TestC18Conv; the stored value the model starts from is what SQLite reports
// for that row and column.

import (
	"fmt"
	"strings"
	"testing"

	"github.com/alicebob/sqlittle"
	"pgregory.net/rapid"

	"verif/e1"
	"verif/gen"
	"verif/oracle"
	"verif/sqdb"
	"verif/val"
	"verif/vt"
)

type fileSpec struct {
	PageSize int
	Rows     [][]val.V // values of the three original columns
	Adds     []string  // "<type> <default>" of the columns added afterwards
	Late     int       // rows inserted after the columns were added
	Dests    []string  // destination kind per column (cycled)
}

var fileEnv *sqdb.Env

func TestC18Files(t *testing.T) {
	vt.Exec(t, vt.Check[fileSpec]{
		ID: "C18", Test: "TestC18Files",
		Setup: func(r *vt.Run, t *testing.T) {
			var err error
			if fileEnv, err = sqdb.NewEnv(); err != nil {
				r.Harness(t, "env: %v", err)
			}
		},
		Teardown: func() { fileEnv.Close() },
		Gen: func(t *rapid.T) fileSpec {
			s := fileSpec{PageSize: rapid.SampledFrom([]int{512, 4096}).Draw(t, "ps"), Late: rapid.IntRange(0, 2).Draw(t, "late")}
			n := rapid.IntRange(1, 4).Draw(t, "nrows")
			for i := 0; i < n; i++ {
				s.Rows = append(s.Rows, []val.V{genStored(t), genStored(t), gen.Value().Draw(t, "v")})
			}
			k := rapid.IntRange(1, 5).Draw(t, "nadds")
			for i := 0; i < k; i++ {
				s.Adds = append(s.Adds, strings.TrimSpace(rapid.SampledFrom(e1.AddTypes).Draw(t, "type")+" "+rapid.SampledFrom(e1.AddDefaults).Draw(t, "dflt")))
			}
			s.Dests = rapid.SliceOfN(rapid.SampledFrom(destKinds), 1, 8).Draw(t, "dests")
			return s
		},
		Run: runFiles,
	})
}

func runFiles(r *vt.Run, t vt.TB, s fileSpec) {
	path := fileEnv.NewPath()
	defer sqdb.Remove(path)
	stmts := []oracle.Stmt{{SQL: "CREATE TABLE t (c0, c1 TEXT, c2 NUMERIC)"}}
	for _, row := range s.Rows {
		stmts = append(stmts, oracle.Stmt{SQL: fmt.Sprintf("INSERT INTO t VALUES (%s, %s, %s)", sqdb.TextParam(row[0]), sqdb.TextParam(row[1]), sqdb.TextParam(row[2])), Params: row})
	}
	res, err := fileEnv.Create("f", path, s.PageSize, 0, stmts)
	sqdb.MustOK(r, t, "build", res, err, len(stmts)+2)
	defer fileEnv.O.Close("f")
	cols := []string{"c0", "c1", "c2"}
	added := 0
	for i, a := range s.Adds {
		if err := fileEnv.O.Exec("f", fmt.Sprintf("ALTER TABLE t ADD COLUMN x%d %s", i, a)); err != nil {
			if _, ok := err.(*oracle.SQLError); ok {
				continue // SQLite refuses this combination (e.g. NOT NULL without default)
			}
			r.Harness(t, "alter: %v", err)
		}
		cols = append(cols, fmt.Sprintf("x%d", i))
		added++
	}
	for i := 0; i < s.Late; i++ {
		if err := fileEnv.O.Exec("f", "INSERT INTO t (c0) VALUES (?)", val.Int(int64(1000+i))); err != nil {
			r.Harness(t, "late insert: %v", err)
		}
	}
	if added > 0 && s.Late > 0 {
		// ... and rows that store NULL in the added columns, whatever their
		// defaults are: a stored NULL is a NULL (only a column the row does
		// not have at all reads as its default)
		nulls := strings.Repeat(", NULL", added)
		if err := fileEnv.O.Exec("f", "INSERT INTO t ("+strings.Join(append([]string{"c0"}, cols[3:]...), ", ")+") VALUES (?"+nulls+")", val.Int(2000)); err != nil {
			if _, ok := err.(*oracle.SQLError); !ok {
				r.Harness(t, "insert of stored NULLs: %v", err)
			}
		} else {
			r.Count("files:rows-with-stored-nulls-in-columns-with-defaults", 1)
		}
	}
	want, err := fileEnv.O.Query("f", "SELECT "+strings.Join(cols, ", ")+" FROM t ORDER BY rowid")
	if err != nil {
		r.Harness(t, "select: %v", err)
	}
	r.Case(s, added > 0 && len(s.Rows) > 0, fmt.Sprintf("files:added-columns=%d", added))
	db, err := sqlittle.Open(path)
	if err != nil {
		r.Harness(t, "open: %v", err)
	}
	defer db.Close()
	var got []sqlittle.Row
	if err := db.Select("t", func(row sqlittle.Row) { got = append(got, append(sqlittle.Row{}, row...)) }, cols...); err != nil {
		r.Exclude("definition-not-interpreted: " + err.Error())
		return
	}
	if len(got) != len(want) {
		r.Violation(t, s, "files:row-count", "Select gives %d rows, SQLite %d", len(got), len(want))
		return
	}
	scans := 0
	for ri := range got {
		cs := convSpec{Row: want[ri]}
		for ci := range cols {
			k := s.Dests[(ri*7+ci)%len(s.Dests)]
			scans++
			if _, _, problem, sig := checkOne(cs, got[ri], ci, k); problem != "" {
				r.Violation(t, s, "files:"+sig, "table with added columns %q, row %d (rowid order), column %s: %s (SQLite's value for it: %s; the library's row holds %#v)", s.Adds, ri, cols[ci], problem, want[ri][ci], got[ri][ci])
				return
			}
		}
	}
	r.Count("files:scans", scans)
	// a leading part of the columns, in their order: the rows are as wide as
	// the list asked for (what Scan and the shortcuts take their number of
	// values from) and hold the values the full select gave
	for p := 1; p < len(cols); p++ {
		if (len(s.Rows)+p)%2 == 1 && p != 1 {
			continue
		}
		ri := 0
		var problem string
		err := db.Select("t", func(row sqlittle.Row) {
			if problem == "" && ri < len(got) {
				if len(row) != p {
					problem = fmt.Sprintf("row %d has %d values (%#v)", ri, len(row), row)
				} else if fmt.Sprintf("%#v", []interface{}(row)) != fmt.Sprintf("%#v", []interface{}(got[ri][:p])) {
					problem = fmt.Sprintf("row %d is %#v; the same columns of the full select are %#v", ri, row, got[ri][:p])
				} else if strs := row.ScanStrings(); len(strs) != p {
					problem = fmt.Sprintf("ScanStrings gives %d strings for row %d", len(strs), ri)
				}
			}
			ri++
		}, cols[:p]...)
		if err != nil || ri != len(got) {
			r.Violation(t, s, "files:prefix-select", "Select of the first %d columns %v: %d rows, error %v; the full select gave %d rows", p, cols[:p], ri, err, len(got))
			return
		}
		if problem != "" {
			r.Violation(t, s, "files:prefix-width", "Select of the first %d columns %v: %s", p, cols[:p], problem)
			return
		}
		r.Count("files:leading-column-selects", 1)
	}
}
