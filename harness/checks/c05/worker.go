// C05 — corrupt or hostile files never crash or hang the reader.
// This file: the worker that runs every public operation on an image, and the
// harness' own shape analysis that bounds the work an honest reader may do.
package c05

import (
	"encoding/binary"
	"fmt"
	"math"
	"runtime/debug"
	"strings"
	"time"

	"github.com/alicebob/sqlittle"
	sdb "github.com/alicebob/sqlittle/db"

	"verif/pagers"
)

const sat = 1 << 40

func addSat(a, b int64) int64 {
	if a+b > sat {
		return sat
	}
	return a + b
}

// shape predicts, for the image as a reader would interpret it, an upper
// bound of the page visits and cell visits of a traversal that starts at any
// page and follows child pointers to the recursion limit of 31 levels.
func shape(img []byte) (pages int, visits, cells int64, ok bool) {
	if len(img) < 100 {
		return 0, 1, 1, false
	}
	u := int(binary.BigEndian.Uint16(img[16:18]))
	if u == 1 {
		u = 65536
	}
	if u < 512 || u&(u-1) != 0 {
		return 0, 1, 1, false
	}
	n := (len(img) + u - 1) / u
	type node struct {
		kids   []int
		ncells int64
	}
	nodes := make([]node, n+1)
	for p := 1; p <= n; p++ {
		base := (p - 1) * u
		end := base + u
		if end > len(img) {
			continue // short page: the pager reports EOF
		}
		ho := base
		if p == 1 {
			ho += 100
		}
		typ := img[ho]
		nc := int(binary.BigEndian.Uint16(img[ho+3 : ho+5]))
		hl := 8
		if typ == 2 || typ == 5 {
			hl = 12
		}
		if typ != 2 && typ != 5 && typ != 10 && typ != 13 {
			continue
		}
		if ho+hl+2*nc > end {
			nc = (end - ho - hl) / 2
			if nc < 0 {
				nc = 0
			}
		}
		nodes[p].ncells = int64(nc)
		if hl == 12 {
			for i := 0; i < nc; i++ {
				off := int(binary.BigEndian.Uint16(img[ho+hl+2*i:]))
				if base+off+4 <= end {
					nodes[p].kids = append(nodes[p].kids, int(binary.BigEndian.Uint32(img[base+off:])))
				}
			}
			nodes[p].kids = append(nodes[p].kids, int(binary.BigEndian.Uint32(img[ho+8:])))
		}
	}
	// DP over depth
	v := make([]int64, n+1)
	c := make([]int64, n+1)
	for p := 1; p <= n; p++ {
		v[p], c[p] = 1, nodes[p].ncells
	}
	for depth := 1; depth <= 31; depth++ {
		nv := make([]int64, n+1)
		ncs := make([]int64, n+1)
		for p := 1; p <= n; p++ {
			nv[p], ncs[p] = 1, nodes[p].ncells
			for _, k := range nodes[p].kids {
				if k >= 1 && k <= n {
					nv[p] = addSat(nv[p], v[k])
					ncs[p] = addSat(ncs[p], c[k])
				} else {
					nv[p] = addSat(nv[p], 1)
				}
			}
		}
		v, c = nv, ncs
	}
	var mv, mc int64 = 1, 1
	for p := 1; p <= n; p++ {
		if v[p] > mv {
			mv = v[p]
		}
		if c[p] > mc {
			mc = c[p]
		}
	}
	return n, mv, mc, true
}

// budgetFor gives the page-read budget of one operation, or -1 when the
// recursion limit of the reader permits so much (bounded) work on this input
// that the bounded-work oracle cannot be applied.
func budgetFor(img []byte) int {
	n, v, c, ok := shape(img)
	if !ok {
		return 10000
	}
	b := 2000 + 8*v + 8*c*int64(n+40)
	if b > 3_000_000 || b < 0 {
		return -1
	}
	return int(b)
}

type problem struct {
	sig string
	msg string
}

const rowCap = 300

// exercise runs the public operations. The page-read counter of mem is reset
// before every operation and must stay below budget.
func exercise(d *sdb.Database, mem *pagers.Mem, budget int) (p *problem, opsRun int) {
	cur := ""
	run := func(name string, f func()) bool {
		cur = name
		mem.Reads = 0
		mem.MaxReads = budget
		opsRun++
		var pan interface{}
		var stack string
		func() {
			defer func() {
				if pan = recover(); pan != nil {
					stack = string(debug.Stack())
				}
			}()
			f()
		}()
		if pan != nil {
			p = &problem{"panic:" + panicSite(stack), fmt.Sprintf("%s panics: %v\n%s", name, pan, trimStack(stack))}
			return false
		}
		if mem.Reads > budget {
			p = &problem{"unbounded:" + opKind(name), fmt.Sprintf("%s read more than %d pages (an honest reader needs far fewer on this %d-byte image)", name, budget, len(mem.Img))}
			return false
		}
		return true
	}
	_ = cur
	hl := sqlittle.VerifWrap(d)
	var tables, indexes []string
	if !run("Tables", func() { tables, _ = d.Tables() }) {
		return
	}
	if !run("Indexes", func() { indexes, _ = d.Indexes() }) {
		return
	}
	if !run("Info", func() { d.Info() }) {
		return
	}
	if len(tables) > 6 {
		tables = tables[:6]
	}
	if len(indexes) > 6 {
		indexes = indexes[:6]
	}
	consume := func(row sqlittle.Row) {
		row.ScanStrings()
		var a string
		var b []byte
		var c int64
		var f float64
		row.Scan(&a, &b)
		row.Scan(&c, &f)
	}
	keys := []sdb.Key{{}, {{V: int64(1)}}, {{V: "a"}}, {{V: nil}, {V: int64(2)}}, {{V: "q", Collate: "nocase", Desc: true}}, {{V: []byte{1}}, {V: 1.5}, {V: "x"}}}
	hkeys := []sqlittle.Key{{}, {int64(1)}, {"a"}, {nil, int64(2)}, {1.5, "x", []byte{0}}}
	for _, name := range tables {
		name := name
		var schema *sdb.Schema
		if !run("Schema("+name+")", func() { schema, _ = d.Schema(name) }) {
			return
		}
		if !run("Table.Def("+name+")", func() {
			if t, err := d.Table(name); err == nil {
				t.Def()
			}
		}) {
			return
		}
		if !run("Table.Scan("+name+")", func() {
			if t, err := d.Table(name); err == nil {
				n := 0
				t.Scan(func(int64, sdb.Record) bool { n++; return n > rowCap })
			}
		}) {
			return
		}
		for _, rid := range []int64{math.MinInt64, -1, 0, 1, 2, 42, math.MaxInt64} {
			rid := rid
			if !run(fmt.Sprintf("Table.Rowid(%s,%d)", name, rid), func() {
				if t, err := d.Table(name); err == nil {
					t.Rowid(rid)
				}
			}) {
				return
			}
		}
		if !run("NonRowidTable.Scan("+name+")", func() {
			if t, err := d.NonRowidTable(name); err == nil {
				n := 0
				t.Scan(func(sdb.Record) bool { n++; return n > rowCap })
			}
		}) {
			return
		}
		for ki, k := range keys {
			k := k
			if !run(fmt.Sprintf("NonRowidTable.ScanMin/Eq/Range(%s,key%d)", name, ki), func() {
				if t, err := d.NonRowidTable(name); err == nil {
					n := 0
					t.ScanMin(k, func(sdb.Record) bool { n++; return n > rowCap })
					n = 0
					t.ScanEq(k, func(sdb.Record) bool { n++; return n > rowCap })
					n = 0
					t.ScanRange(k, keys[(ki+1)%len(keys)], func(sdb.Record) bool { n++; return n > rowCap })
				}
			}) {
				return
			}
		}
		var cols []string
		if !run("Columns("+name+")", func() { cols, _ = hl.Columns(name) }) {
			return
		}
		if len(cols) > 40 {
			cols = cols[:40]
		}
		all := append([]string{"rowid"}, cols...)
		for _, cl := range [][]string{cols, all, {"nosuchcolumn"}, nil} {
			cl := cl
			if !run("SelectDone("+name+")", func() {
				n := 0
				hl.SelectDone(name, func(r sqlittle.Row) bool { consume(r); n++; return n > rowCap }, cl...)
			}) {
				return
			}
		}
		for _, rid := range []int64{1, 2, -7} {
			rid := rid
			if !run(fmt.Sprintf("SelectRowid(%s,%d)", name, rid), func() {
				if r, err := hl.SelectRowid(name, rid, all...); err == nil && r != nil {
					consume(r)
				}
			}) {
				return
			}
		}
		for ki, k := range hkeys {
			k := k
			if !run(fmt.Sprintf("PKSelect(%s,key%d)", name, ki), func() { hl.PKSelect(name, k, consume, cols...) }) {
				return
			}
		}
		if schema != nil {
			ixs := schema.Indexes
			if len(ixs) > 5 {
				ixs = ixs[:5]
			}
			for _, ix := range ixs {
				ix := ix
				if !run("IndexedSelect("+name+","+ix.Index+")", func() { hl.IndexedSelect(name, ix.Index, consume, cols...) }) {
					return
				}
				for ki, k := range hkeys {
					k := k
					if !run(fmt.Sprintf("IndexedSelectEq(%s,%s,key%d)", name, ix.Index, ki), func() { hl.IndexedSelectEq(name, ix.Index, k, consume, cols...) }) {
						return
					}
				}
			}
		}
	}
	for _, name := range indexes {
		name := name
		if !run("Index.Def("+name+")", func() {
			if ix, err := d.Index(name); err == nil {
				ix.Def()
			}
		}) {
			return
		}
		if !run("Index.Scan("+name+")", func() {
			if ix, err := d.Index(name); err == nil {
				n := 0
				ix.Scan(func(sdb.Record) bool { n++; return n > rowCap })
			}
		}) {
			return
		}
		for ki, k := range keys {
			k := k
			if !run(fmt.Sprintf("Index.ScanMin/Eq/Range(%s,key%d)", name, ki), func() {
				if ix, err := d.Index(name); err == nil {
					n := 0
					ix.ScanMin(k, func(sdb.Record) bool { n++; return n > rowCap })
					n = 0
					ix.ScanEq(k, func(sdb.Record) bool { n++; return n > rowCap })
					n = 0
					ix.ScanRange(k, keys[(ki+2)%len(keys)], func(sdb.Record) bool { n++; return n > rowCap })
				}
			}) {
				return
			}
		}
	}
	return nil, opsRun
}

func opKind(name string) string {
	if i := strings.IndexByte(name, '('); i > 0 {
		return name[:i]
	}
	return name
}

// panicSite names the sqlittle function that panicked (signature of the
// root cause).
func panicSite(stack string) string {
	lines := strings.Split(stack, "\n")
	for _, l := range lines {
		if strings.Contains(l, "github.com/alicebob/sqlittle") && strings.Contains(l, "(") && !strings.HasPrefix(l, "\t") {
			f := l[:strings.LastIndex(l, "(")]
			if i := strings.LastIndex(f, "/"); i >= 0 {
				f = f[i+1:]
			}
			return f
		}
	}
	return "unknown"
}

func trimStack(stack string) string {
	lines := strings.Split(stack, "\n")
	var out []string
	for _, l := range lines {
		if strings.Contains(l, "sqlittle") {
			out = append(out, strings.TrimSpace(l))
		}
		if len(out) >= 8 {
			break
		}
	}
	return strings.Join(out, "\n")
}

// runImage opens the image and exercises it under a watchdog. hang=true if
// the worker did not finish in time (the goroutine is abandoned).
func runImage(img []byte, journal string) (p *problem, ops int, excluded bool, hang bool) {
	budget := budgetFor(img)
	if budget < 0 {
		return nil, 0, true, false
	}
	type res struct {
		p   *problem
		ops int
	}
	ch := make(chan res, 1)
	go func() {
		mem := pagers.NewMem(img)
		mem.MaxReads = budget
		var d *sdb.Database
		var err error
		var pan interface{}
		var stack string
		func() {
			defer func() {
				if pan = recover(); pan != nil {
					stack = string(debug.Stack())
				}
			}()
			d, err = sdb.VerifOpen(mem, journal)
		}()
		if pan != nil {
			ch <- res{&problem{"panic:" + panicSite(stack), fmt.Sprintf("Open panics: %v\n%s", pan, trimStack(stack))}, 1}
			return
		}
		if err != nil {
			ch <- res{nil, 1}
			return
		}
		defer d.Close()
		p, n := exercise(d, mem, budget)
		ch <- res{p, n + 1}
	}()
	select {
	case r := <-ch:
		return r.p, r.ops, false, false
	case <-time.After(60 * time.Second):
		return nil, 0, false, true
	}
}
