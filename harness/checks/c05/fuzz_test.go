package c05

import (
	"bufio"
	"context"
	"database/sql"
	"fmt"
	"os"
	"path/filepath"
	"strconv"
	"strings"
	"testing"
	"time"

	_ "github.com/alicebob/sqlittle/driver"
	"pgregory.net/rapid"

	"verif/bt"
	"verif/btgen"
	"verif/fmtb"
	"verif/val"
	"verif/vt"
)

// seedImages gives small valid images for the fuzz corpus.
func seedImages() [][]byte {
	var out [][]byte
	for _, ps := range []int{512, 1024} {
		img := &bt.Image{PageSize: ps, Layout: fmtb.Layout{Seed: 7, ScatterBlock: 4}}
		t := bt.Table{Name: "t", NCols: 3, Tree: fmtb.TreeOpts{LeafCells: 2, Fanout: 2}, Indexes: []bt.Index{{Name: "i0", Cols: []int{1, 0}, Desc: []bool{true, false}, Tree: fmtb.TreeOpts{LeafCells: 2, Fanout: 2}}}}
		for i := 0; i < 9; i++ {
			long := ""
			if i%4 == 0 {
				long = strings.Repeat("x", ps+30)
			}
			t.Rows = append(t.Rows, bt.Row{Rowid: int64(i + 1), Fields: fmtb.Values(val.Int(int64(i)), val.Text(fmt.Sprintf("v%d%s", i%3, long)), val.Real(1.5))})
		}
		w := bt.Table{Name: "w", NCols: 2, WithoutRowid: true, PKCols: 1, Tree: fmtb.TreeOpts{LeafCells: 2, Fanout: 2}}
		for i := 0; i < 7; i++ {
			w.Rows = append(w.Rows, bt.Row{Fields: fmtb.Values(val.Text(fmt.Sprintf("k%d", i)), val.Int(int64(i)))})
		}
		img.Tables = []bt.Table{t, w}
		if b, err := bt.Build(img); err == nil {
			out = append(out, b.Img)
		}
	}
	return out
}

func FuzzC05Image(f *testing.F) {
	for _, img := range seedImages() {
		f.Add(img)
	}
	for _, dir := range []string{"/repo/corpus", "/repo/testdata"} {
		ents, _ := os.ReadDir(dir)
		for _, e := range ents {
			p := filepath.Join(dir, e.Name())
			if st, err := os.Stat(p); err == nil && !st.IsDir() && st.Size() <= 16384 && (dir == "/repo/corpus" || strings.HasSuffix(p, ".sqlite")) {
				if b, err := os.ReadFile(p); err == nil {
					f.Add(b)
				}
			}
		}
	}
	f.Fuzz(func(t *testing.T, img []byte) {
		if len(img) > 1<<16 {
			return
		}
		p, _, excluded, hang := runImage(img, "")
		if excluded {
			return
		}
		if hang {
			t.Fatalf("hang on a %d-byte image", len(img))
		}
		if p != nil {
			t.Fatalf("%s: %s", p.sig, p.msg)
		}
	})
}

// TestC05FromFuzzFile turns a crasher saved by the native fuzzer into a
// replayable raw case (and confirms it).
func TestC05FromFuzzFile(t *testing.T) {
	path := os.Getenv("VERIF_FUZZFILE")
	if path == "" {
		t.Skip()
	}
	r := vt.Begin("C05", "TestC05Raw")
	defer r.End()
	f, err := os.Open(path)
	if err != nil {
		r.Harness(t, "fuzz file: %v", err)
	}
	defer f.Close()
	sc := bufio.NewScanner(f)
	sc.Buffer(make([]byte, 1<<20), 1<<26)
	var img []byte
	for sc.Scan() {
		line := strings.TrimSpace(sc.Text())
		if strings.HasPrefix(line, "[]byte(") && strings.HasSuffix(line, ")") {
			s, err := strconv.Unquote(line[len("[]byte(") : len(line)-1])
			if err != nil {
				r.Harness(t, "fuzz file: %v", err)
			}
			img = []byte(s)
		}
	}
	if img == nil {
		r.Harness(t, "fuzz file %s holds no []byte value", path)
	}
	setupScratch(r, t)
	defer os.RemoveAll(scratch)
	r.Case(rawSpec{img}, true, "raw:from-native-fuzzing")
	judge(r, t, rawSpec{img}, img, nil)
}

// ---- the database/sql driver on hostile files

func TestC05Driver(t *testing.T) {
	vt.Exec(t, vt.Check[mutSpec]{
		ID: "C05", Test: "TestC05Driver",
		Setup:    setupScratch,
		Teardown: func() { os.RemoveAll(scratch) },
		Gen: func(t *rapid.T) mutSpec {
			s := mutSpec{Img: btgen.Image(t, btgen.Opts{MaxRows: 15, Indexes: true, WR: true, LongValues: true, RowidAlias: true, PageSizes: []int{512, 1024}})}
			n := rapid.IntRange(1, 3).Draw(t, "nmut")
			for i := 0; i < n; i++ {
				s.Muts = append(s.Muts, mut{Class: rapid.SampledFrom([]int{0, 0, 0, 1, 1, 2, 3, 3}).Draw(t, "class"), Ref: rapid.IntRange(0, 100000).Draw(t, "ref"), Choice: rapid.IntRange(0, 1000).Draw(t, "choice")})
			}
			if rapid.IntRange(0, 5).Draw(t, "dtrunc") == 0 {
				s.Trunc = rapid.IntRange(1, 999).Draw(t, "trunc")
			}
			if rapid.IntRange(0, 5).Draw(t, "djournal") == 0 {
				s.Journal = genJournal(t)
			}
			return s
		},
		Run: func(r *vt.Run, t vt.TB, s mutSpec) {
			img, _, err := buildMutated(s)
			if err != nil {
				r.Exclude("layout-impossible")
				return
			}
			if budgetFor(img) < 0 {
				r.Exclude("recursion-limit-permits-huge-bounded-traversal")
				return
			}
			r.Case(s, true, "driver")
			r.Pending(s)
			defer r.Done()
			path := filepath.Join(scratch, "drv.sqlite")
			os.WriteFile(path, img, 0o644)
			os.Remove(path + "-journal")
			if s.Journal != nil {
				os.WriteFile(path+"-journal", s.Journal, 0o644)
			}
			done := make(chan string, 1)
			go func() {
				defer func() {
					if p := recover(); p != nil {
						done <- fmt.Sprintf("panic: %v", p)
					}
				}()
				db, err := sql.Open("sqlittle", path)
				if err != nil {
					done <- ""
					return
				}
				defer db.Close()
				for _, q := range []string{"SELECT * FROM t", "SELECT rowid, c0 FROM t", "SELECT * FROM w", "SELECT c0 FROM w", "SELECT * FROM sqlite_master", "SELECT nosuch FROM t"} {
					ctx, cancel := context.WithTimeout(context.Background(), 30*time.Second)
					rows, err := db.QueryContext(ctx, q)
					if err == nil {
						n := 0
						for rows.Next() {
							cols, _ := rows.Columns()
							dest := make([]interface{}, len(cols))
							for i := range dest {
								dest[i] = new(interface{})
							}
							rows.Scan(dest...)
							n++
							if n > rowCap {
								break
							}
						}
						rows.Err()
						rows.Close()
					}
					cancel()
				}
				done <- ""
			}()
			select {
			case msg := <-done:
				if msg != "" {
					r.Violation(t, s, "driver:panic", "database/sql on a hostile file: %s", msg)
				}
			case <-time.After(90 * time.Second):
				r.Violation(t, s, "driver:hang", "database/sql queries on a %d-byte hostile file did not finish in 90 s", len(img))
			}
		},
	})
}
