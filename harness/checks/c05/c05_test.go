package c05

import (
	"encoding/binary"
	"fmt"
	"os"
	"path/filepath"
	"regexp"
	"strings"
	"testing"

	"pgregory.net/rapid"

	"verif/bt"
	"verif/btgen"
	"verif/fmtb"
	"verif/sqlgen"
	"verif/val"
	"verif/vt"
)

// ---- structure-aware mutations of valid images

type mut struct {
	Class  int // 0 page pointers, 1 page header numbers, 2 page type, 3 varints (payload size, rowid, record header)
	Ref    int // index into the builder's fields of that class (mod its length)
	Choice int
}

func classOf(kind string) int {
	switch kind {
	case "cell.child", "page.rightmost", "cell.ovfl", "ovfl.next":
		return 0
	case "page.ncells", "page.cellptr", "page.content", "page.freeblock":
		return 1
	case "page.type":
		return 2
	}
	return 3
}

type flip struct {
	Off int // mod image length
	Val byte
}

type mutSpec struct {
	Img     bt.Image
	Muts    []mut  `json:",omitempty"`
	Flips   []flip `json:",omitempty"`
	Trunc   int    `json:",omitempty"` // keep this many bytes per mille of the image (0 = all)
	Journal []byte `json:",omitempty"`
}

var varintPatterns = [][]byte{
	{0x00}, {0x01}, {0x7f}, {0x80, 0x00}, {0x81, 0x00}, {0xff, 0xff, 0xff, 0xff, 0xff, 0xff, 0xff, 0xff, 0xff},
	{0xff, 0xff, 0xff, 0xff, 0xff, 0xff, 0xff, 0xff, 0x7f}, {0x80, 0x80, 0x80, 0x80, 0x80, 0x80, 0x80, 0x80, 0x01},
	{0x0a}, {0x0b}, {0x0c}, {0x0d}, {0xff, 0x7f}, {0x82, 0x00}, {0x8f, 0xff, 0xff, 0xff, 0x7f}, {0x06}, {0x07}, {0x05}, {0x03},
}

// apply writes one mutation into the image; returns the kind it hit.
func apply(img []byte, refs []fmtb.Ref, m mut, u int) string {
	if m.Class == 4 {
		// a record header widened by 8 bytes whose first serial type is a
		// 9-byte varint (negative, or huge): both edits are needed together
		var hs []fmtb.Ref
		for _, r := range refs {
			if r.Kind == "rec.hdrsize" && r.Len == 1 {
				hs = append(hs, r)
			}
		}
		if len(hs) == 0 {
			return "none"
		}
		r := hs[m.Ref%len(hs)]
		if r.Off+10 >= len(img) || img[r.Off] > 0x70 {
			return "beyond-truncation"
		}
		img[r.Off] += 8
		pats := [][]byte{
			{0xff, 0xff, 0xff, 0xff, 0xff, 0xff, 0xff, 0xff, 0xff}, {0xff, 0xff, 0xff, 0xff, 0xff, 0xff, 0xff, 0xff, 0xfe},
			{0x80, 0x80, 0x80, 0x80, 0x80, 0x80, 0x80, 0x80, 0x0d}, {0xbf, 0xff, 0xff, 0xff, 0xff, 0xff, 0xff, 0xff, 0xff}, {0xc0, 0x80, 0x80, 0x80, 0x80, 0x80, 0x80, 0x80, 0x00},
		}
		copy(img[r.Off+1:], pats[m.Choice%len(pats)])
		return "rec.serial9"
	}
	if m.Class == 5 {
		return applyRunaway(img, refs, m, u)
	}
	if m.Class == 6 {
		return applyHeader(img, m)
	}
	var sel []fmtb.Ref
	for _, r := range refs {
		if classOf(r.Kind) == m.Class%4 {
			sel = append(sel, r)
		}
	}
	if len(sel) == 0 {
		sel = refs
	}
	if len(sel) == 0 {
		return "none"
	}
	refs = sel
	r := refs[((m.Ref%len(refs))+len(refs))%len(refs)]
	if r.Off+r.Len > len(img) {
		return "beyond-truncation"
	}
	n := len(img) / u
	c := m.Choice
	if c < 0 {
		c = -c
	}
	switch r.Kind {
	case "cell.child", "page.rightmost", "cell.ovfl", "ovfl.next":
		old := binary.BigEndian.Uint32(img[r.Off:])
		vals := []uint32{uint32(r.Page), 1, 2, 0, uint32(n + 1), 0xFFFFFFFF, 0x7FFFFFFF, uint32(n), old + 1, old - 1}
		var v uint32
		if c%3 == 0 {
			v = uint32(c/3%max(n, 1)) + 1 // any existing page
		} else {
			v = vals[c/3%len(vals)]
		}
		binary.BigEndian.PutUint32(img[r.Off:], v)
	case "page.ncells", "page.cellptr", "page.content", "page.freeblock":
		old := binary.BigEndian.Uint16(img[r.Off:])
		vals := []uint16{0, 1, 2, uint16(u - 1), uint16(u), uint16(u + 1), 0xFFFF, 0x8000, old + 1, old - 1, old + 2, old + 7, uint16(u - 2), uint16(u - 4), 8, 12, 100, 108}
		binary.BigEndian.PutUint16(img[r.Off:], vals[c%len(vals)])
	case "page.type":
		vals := []byte{0, 1, 2, 5, 10, 13, 0xff, img[r.Off] ^ 8, img[r.Off] ^ 7}
		img[r.Off] = vals[c%len(vals)]
	default: // varints
		if c%4 == 0 && r.Len > 0 {
			img[r.Off+r.Len-1] += byte(1 + c/4%3) // small change of the value
		} else {
			p := varintPatterns[c/4%len(varintPatterns)]
			for i := 0; i < len(p) && r.Off+i < len(img); i++ {
				img[r.Off+i] = p[i]
			}
		}
	}
	return r.Kind
}

// applyHeader sets one of the numbers in the database header that the reader
// could be tempted to believe (sizes and counts that come from the file).
func applyHeader(img []byte, m mut) string {
	if len(img) < 100 {
		return "beyond-truncation"
	}
	offs := []int{28, 28, 28, 32, 36, 24, 92, 40, 44, 52, 56, 64, 16, 20}
	off := offs[m.Ref%len(offs)]
	if off == 16 || off == 20 {
		vals := [][]byte{{0, 1}, {2, 0}, {0, 0}, {0x80, 0}, {4, 0}, {1, 0}, {0xff, 0xff}, {2, 1}}
		v := vals[m.Choice%len(vals)]
		if off == 20 {
			img[20] = v[0]
			return "hdr.reserved"
		}
		copy(img[16:], v)
		return "hdr.pagesize"
	}
	old := binary.BigEndian.Uint32(img[off:])
	vals := []uint32{0, 1, 0x7fffffff, 0xffffffff, 0x80000000, old + 1, old - 1, old * 2, 1 << 20, 1 << 30, 2, 3, 5}
	binary.BigEndian.PutUint32(img[off:], vals[m.Choice%len(vals)])
	if off == 28 && m.Choice/len(vals)%4 != 0 {
		// the in-header size counts only when version-valid-for equals the
		// change counter: keep them equal, as a careful forger would
		copy(img[92:96], img[24:28])
	}
	return fmt.Sprintf("hdr.%d", off)
}

// applyRunaway builds the combination that asks for unbounded work: one leaf
// page gets a single cell declaring a payload far larger than the file, its
// overflow chain is closed to a loop (or runs through every page), and - half
// of the time - the header claims a file of billions of pages. Every field is
// well-formed on its own.
func applyRunaway(img []byte, refs []fmtb.Ref, m mut, u int) string {
	n := len(img) / u
	if n < 3 || len(img) < 100 {
		return "beyond-truncation"
	}
	var leaves []fmtb.Ref
	for _, r := range refs {
		if r.Kind == "page.type" && r.Page >= 2 && r.Page <= n && (img[r.Off] == 13 || img[r.Off] == 10) {
			leaves = append(leaves, r)
		}
	}
	if len(leaves) == 0 {
		return "none"
	}
	c := m.Choice
	leaf := leaves[m.Ref%len(leaves)]
	typ := img[leaf.Off]
	lengths := []uint64{1 << 40, 1<<63 - 1, 1 << 31, 1 << 33, 1 << 62, uint64(len(img)) * 64, 1 << 24}
	L := lengths[c%len(lengths)]
	c /= len(lengths)
	// local part of the payload, by the file format's rule
	x := u - 35
	if typ == 10 {
		x = (u-12)*64/255 - 23
	}
	mm := (u-12)*32/255 - 23
	k := mm + int((L-uint64(mm))%uint64(u-4))
	if k > x {
		k = mm
	}
	var cell []byte
	cell = append(cell, fmtb.Varint(L, 0)...)
	if typ == 13 {
		cell = append(cell, byte(1+c%100))
	}
	// a record: header of 2 bytes, one blob/text that takes the rest
	local := make([]byte, k)
	local[0] = 3
	local[1], local[2] = 0xff, 0x7f
	cell = append(cell, local...)
	// the chain: first page q, then a walk that ends in a loop
	first := 2 + (m.Ref/7)%(n-1)
	cell = binary.BigEndian.AppendUint32(cell, uint32(first))
	base := (leaf.Page - 1) * u
	start := u - len(cell)
	if start < 10 {
		return "none"
	}
	for i := base; i < base+u; i++ {
		img[i] = 0
	}
	img[base] = typ
	binary.BigEndian.PutUint16(img[base+3:], 1)
	binary.BigEndian.PutUint16(img[base+5:], uint16(start))
	binary.BigEndian.PutUint16(img[base+8:], uint16(start))
	copy(img[base+start:], cell)
	switch c % 4 {
	case 0: // self loop
		binary.BigEndian.PutUint32(img[(first-1)*u:], uint32(first))
	case 1: // loop over two or three pages
		second := 2 + (first-1)%(n-1)
		binary.BigEndian.PutUint32(img[(first-1)*u:], uint32(second))
		if second != leaf.Page || first == leaf.Page {
			binary.BigEndian.PutUint32(img[(second-1)*u:], uint32(first))
		}
	case 2: // through every other page of the file, then round again
		var ps []int
		for p := 2; p <= n; p++ {
			if p != leaf.Page {
				ps = append(ps, p)
			}
		}
		for i, p := range ps {
			binary.BigEndian.PutUint32(img[(p-1)*u:], uint32(ps[(i+1)%len(ps)]))
		}
		binary.BigEndian.PutUint32(img[base+start+len(cell)-4:], uint32(ps[first%len(ps)]))
	case 3: // back to the leaf page itself (its first bytes are the page header)
	}
	c /= 4
	if c%2 == 0 {
		sizes := []uint32{0x7fffffff, 0xffffffff, 1 << 24, 0x80000000}
		binary.BigEndian.PutUint32(img[28:], sizes[c/2%len(sizes)])
		copy(img[92:96], img[24:28])
		return "runaway.chain+header-size"
	}
	return "runaway.chain"
}

func genJournal(t *rapid.T) []byte {
	switch rapid.IntRange(0, 5).Draw(t, "jk") {
	case 0:
		return rapid.SliceOfN(rapid.Byte(), 0, 64).Draw(t, "jraw")
	case 1:
		return []byte{}
	default:
		magic := []byte{0xd9, 0xd5, 0x05, 0xf9, 0x20, 0xa1, 0x63, 0xd7}
		if rapid.IntRange(0, 4).Draw(t, "jbadmagic") == 0 {
			magic[rapid.IntRange(0, 7).Draw(t, "jmi")] ^= 1
		}
		j := append([]byte{}, magic...)
		j = binary.BigEndian.AppendUint32(j, rapid.Uint32().Draw(t, "jcount"))
		j = binary.BigEndian.AppendUint32(j, rapid.Uint32().Draw(t, "jnonce"))
		j = binary.BigEndian.AppendUint32(j, rapid.Uint32().Draw(t, "jpages"))
		j = binary.BigEndian.AppendUint32(j, rapid.SampledFrom([]uint32{512, 0, 1, 511, 513, 4096, 65536, 65537, 0x7fffffff, 0x80000000, 0xffffffff, 1 << 20}).Draw(t, "jsector"))
		j = binary.BigEndian.AppendUint32(j, rapid.SampledFrom([]uint32{512, 1024, 0, 65536}).Draw(t, "jps"))
		n := rapid.SampledFrom([]int{0, 1, 483, 484, 485, 600, 4096}).Draw(t, "jpad")
		return append(j, make([]byte, n)...)
	}
}

var scratch string

func setupScratch(r *vt.Run, t *testing.T) {
	base := os.Getenv("VERIF_SCRATCH")
	if base == "" {
		base = os.TempDir()
	}
	var err error
	scratch, err = os.MkdirTemp(base, "c05-")
	if err != nil {
		r.Harness(t, "scratch: %v", err)
	}
}

func journalFile(j []byte) string {
	if j == nil {
		return ""
	}
	p := filepath.Join(scratch, "img.sqlite-journal")
	os.WriteFile(p, j, 0o644)
	return p
}

func judge(r *vt.Run, t vt.TB, spec interface{}, img []byte, journal []byte, classes ...string) {
	p, ops, excluded, hang := runImage(img, journalFile(journal))
	if excluded {
		r.Exclude("recursion-limit-permits-huge-bounded-traversal")
		return
	}
	r.Count("operations-run", ops)
	if hang {
		// confirm before reporting: a second run must hang as well
		_, _, _, hang2 := runImage(img, journalFile(journal))
		if !hang2 {
			r.Inconclusive()
			return
		}
		r.Violation(t, spec, "hang", "the operations did not finish within 60 s twice on a %d-byte image", len(img))
		return
	}
	if p != nil {
		r.Violation(t, spec, p.sig, "%s", p.msg)
	}
}

func buildMutated(s mutSpec) (img []byte, hit []string, err error) {
	built, err := bt.Build(&s.Img)
	if err != nil {
		return nil, nil, err
	}
	img = append([]byte{}, built.Img...)
	if s.Trunc > 0 && s.Trunc < 1000 {
		img = img[:len(img)*s.Trunc/1000]
	}
	for _, m := range s.Muts {
		hit = append(hit, apply(img, built.Refs, m, s.Img.PageSize))
	}
	for _, f := range s.Flips {
		if len(img) > 0 {
			img[((f.Off%len(img))+len(img))%len(img)] = f.Val
		}
	}
	return img, hit, nil
}

func TestC05Mutate(t *testing.T) {
	vt.Exec(t, vt.Check[mutSpec]{
		ID: "C05", Test: "TestC05Mutate",
		Setup:    setupScratch,
		Teardown: func() { os.RemoveAll(scratch) },
		Gen: func(t *rapid.T) mutSpec {
			s := mutSpec{Img: btgen.Image(t, btgen.Opts{MaxRows: 20, Indexes: true, WR: true, LongValues: true, RowidAlias: true, PageSizes: []int{512, 512, 512, 1024, 4096}})}
			n := rapid.IntRange(0, 3).Draw(t, "nmut")
			for i := 0; i < n; i++ {
				s.Muts = append(s.Muts, mut{Class: rapid.SampledFrom([]int{0, 0, 0, 1, 1, 2, 3, 3, 4, 5, 6}).Draw(t, "class"), Ref: rapid.IntRange(0, 100000).Draw(t, "ref"), Choice: rapid.IntRange(0, 1000).Draw(t, "choice")})
			}
			switch rapid.IntRange(0, 9).Draw(t, "extra") {
			case 0:
				k := rapid.IntRange(1, 8).Draw(t, "nflip")
				for i := 0; i < k; i++ {
					s.Flips = append(s.Flips, flip{Off: rapid.IntRange(0, 1<<20).Draw(t, "foff"), Val: rapid.Byte().Draw(t, "fval")})
				}
			case 1:
				s.Trunc = rapid.IntRange(1, 999).Draw(t, "trunc")
			case 2:
				s.Journal = genJournal(t)
			}
			return s
		},
		Run: func(r *vt.Run, t vt.TB, s mutSpec) {
			img, hit, err := buildMutated(s)
			if err != nil {
				r.Exclude("layout-impossible")
				return
			}
			classes := []string{fmt.Sprintf("mut:n=%d", len(s.Muts))}
			for _, h := range hit {
				classes = append(classes, "mut:"+h)
			}
			if len(s.Flips) > 0 {
				classes = append(classes, "mut:random-bytes")
			}
			if s.Trunc > 0 {
				classes = append(classes, "mut:truncated")
			}
			if s.Journal != nil {
				classes = append(classes, "mut:journal")
			}
			r.Case(s, len(s.Muts)+len(s.Flips)+s.Trunc > 0 || s.Journal != nil, classes...)
			judge(r, t, s, img, s.Journal)
		},
	})
}

// ---- hostile sqlite_master contents and SQL text

type schemaSpec struct {
	Img bt.Image
}

var hostileSQL = []string{
	"CREATE TABLE t (c0, c1, PRIMARY KEY (nosuch))",
	"CREATE TABLE t (c0, c1, PRIMARY KEY (nosuch)) WITHOUT ROWID",
	"CREATE TABLE t (c0, c1, PRIMARY KEY (c0+1)) WITHOUT ROWID",
	"CREATE TABLE t (c0, c1, PRIMARY KEY (c0+1))",
	"CREATE TABLE t (c0, c1, UNIQUE (nosuch))",
	"CREATE TABLE t (c0 INTEGER, c1, PRIMARY KEY (c0, c0, c0))",
	"CREATE TABLE t (c0, c1, c2, c3, c4, c5, c6, c7, c8, c9, c10 DEFAULT 5, c11 NOT NULL)",
	"CREATE TABLE t (c0)",
	"CREATE TABLE t (c0 PRIMARY KEY, c1 PRIMARY KEY) WITHOUT ROWID",
	"CREATE TABLE t (c0, c0, c0)",
	"CREATE TABLE t (rowid, oid, _rowid_ INTEGER PRIMARY KEY)",
	"CREATE TABLE w (c0, c1, c2, c3, c4, c5, PRIMARY KEY (c5, c4, c3)) WITHOUT ROWID",
	"CREATE TABLE w (c0) WITHOUT ROWID",
	"CREATE TABLE w (c0, c1)",
	"CREATE INDEX i0 ON t (c9, c8, c7, c6)",
	"CREATE INDEX i0 ON t (nosuch)",
	"CREATE INDEX i0 ON nosuch (c0)",
	"CREATE INDEX i0 ON w (c0, c1, c2, c3)",
	"CREATE INDEX i0 ON t (c0) WHERE",
	"CREATE INDEX i0 ON t (c0 COLLATE nosuchcollation)",
	"CREATE TABLE t (c0 COLLATE nosuchcollation PRIMARY KEY, c1) WITHOUT ROWID",
	"CREATE TABLE t (c0 COLLATE nosuch UNIQUE, c1)",
	"CREATE UNIQUE INDEX i0 ON t (c0 COLLATE \"\")",
	"SELECT * FROM t",
	"CREATE TABLE",
	"",
	"CREATE TABLE t (",
	"CREATE TABLE t (c0 DEFAULT 'unterminated)",
	"create table t (c0, primary key (c0 desc))",
	"CREATE TABLE t (c0 INTEGER PRIMARY KEY DESC, c1)",
	"CREATE VIEW v AS SELECT 1",
	"CREATE TABLE t (REPLACE, c1)",
	"CREATE TABLE t (c0 REFERENCES t(c0) ON DELETE SET NULL ON UPDATE CASCADE DEFERRABLE INITIALLY DEFERRED, FOREIGN KEY (nosuch) REFERENCES x(y))",
}

var colRef = regexp.MustCompile(`\bc[0-9]+\b`)

// editSQL makes one small edit to a definition that fits the trees: the
// catalogue stays plausible but says something the data does not bear out, or
// names things (collations, columns) the reader does not know.
func editSQL(t *rapid.T, q string) string {
	refs := colRef.FindAllStringIndex(q, -1)
	// the references inside the last parenthesised list: the key columns of
	// an index, or of a table-level PRIMARY KEY
	var keyRefs [][]int
	if open := strings.LastIndex(q, "("); open >= 0 {
		for _, r := range refs {
			if r[0] > open {
				keyRefs = append(keyRefs, r)
			}
		}
	}
	pick := func() []int {
		if len(keyRefs) > 0 && rapid.IntRange(0, 2).Draw(t, "inkey") > 0 {
			return keyRefs[rapid.IntRange(0, len(keyRefs)-1).Draw(t, "kref")]
		}
		return refs[rapid.IntRange(0, len(refs)-1).Draw(t, "ref")]
	}
	unknownColl := []string{"mycoll", "nosuch", "UTF16", "NOCASE", "rtrim", "binary", "\"\"", "[my coll]", "nocase_"}
	switch rapid.IntRange(-1, 8).Draw(t, "edit") {
	case 7, 8:
		// a DEFAULT for one of the later columns: rows shorter than the
		// column list are completed from it
		if len(refs) == 0 {
			return q
		}
		r := refs[len(refs)-1-rapid.IntRange(0, min(2, len(refs)-1)).Draw(t, "lateref")]
		return q[:r[1]] + rapid.SampledFrom([]string{" DEFAULT TRUE", " DEFAULT FALSE", " DEFAULT true", " DEFAULT 010", " DEFAULT 'x'", " INT DEFAULT '1e999'", " DEFAULT abc", " TEXT DEFAULT FALSE"}).Draw(t, "dflt") + q[r[1]:]
	case -1, 0, 1:
		if len(refs) == 0 {
			return q
		}
		r := pick()
		return q[:r[1]] + " COLLATE " + rapid.SampledFrom(unknownColl).Draw(t, "coll") + q[r[1]:]
	case 2:
		if len(refs) == 0 {
			return q
		}
		r := pick()
		return q[:r[0]] + rapid.SampledFrom([]string{"c0", "c1", "c2", "c7", "nosuch", "rowid", "C1"}).Draw(t, "newcol") + q[r[1]:]
	case 3:
		if strings.HasSuffix(q, " WITHOUT ROWID") {
			return strings.TrimSuffix(q, " WITHOUT ROWID")
		}
		if strings.HasPrefix(q, "CREATE TABLE") {
			return q + " WITHOUT ROWID"
		}
		return q
	case 4:
		if strings.Contains(q, "PRIMARY KEY") {
			return strings.Replace(q, "PRIMARY KEY", "UNIQUE", 1)
		}
		return strings.Replace(q, "CREATE INDEX", "CREATE UNIQUE INDEX", 1)
	case 5:
		if len(refs) == 0 {
			return q
		}
		r := pick()
		return q[:r[1]] + rapid.SampledFrom([]string{" DESC", " ASC", " TEXT", " INTEGER", " DEFAULT 'x'", " NOT NULL", " DEFAULT TRUE", " DEFAULT FALSE", " DEFAULT 010", " DEFAULT NULL", " INT DEFAULT '1e999'", " DEFAULT x", " DEFAULT -1"}).Draw(t, "suffix") + q[r[1]:]
	default:
		if i := strings.Index(q, "COLLATE "); i >= 0 {
			j := i + len("COLLATE ")
			k := j
			for k < len(q) && q[k] != ' ' && q[k] != ',' && q[k] != ')' {
				k++
			}
			return q[:j] + rapid.SampledFrom(unknownColl).Draw(t, "coll2") + q[k:]
		}
		return q
	}
}

func TestC05Schema(t *testing.T) {
	vt.Exec(t, vt.Check[schemaSpec]{
		ID: "C05", Test: "TestC05Schema",
		Setup:    setupScratch,
		Teardown: func() { os.RemoveAll(scratch) },
		Gen: func(t *rapid.T) schemaSpec {
			img := btgen.Image(t, btgen.Opts{MaxRows: 12, Indexes: true, WR: true, RowidAlias: true, PageSizes: []int{512, 1024}})
			names := []string{"t", "w", "i0", "i1", "nosuch"}
			types := []string{"table", "table", "index", "index", "view", "trigger", "", "TABLE"}
			validSQL := []string{"CREATE TABLE t (c0, c1, c2, c3)", "CREATE TABLE t (c0 INTEGER PRIMARY KEY, c1)", "CREATE TABLE w (c0, c1, c2, PRIMARY KEY (c0, c1)) WITHOUT ROWID",
				"CREATE INDEX i0 ON t (c1, c0 DESC)", "CREATE INDEX i1 ON t (c2 COLLATE NOCASE)", "CREATE INDEX i0 ON w (c1)", "CREATE INDEX i1 ON w (c3, c2, c1)", "CREATE TABLE t (c0, c1, PRIMARY KEY (c1, c0)) WITHOUT ROWID",
				"CREATE TABLE w (c0, c1, c2, c3, c4, c5, PRIMARY KEY (c5, c4)) WITHOUT ROWID", "CREATE TABLE t (c0 UNIQUE, c1 UNIQUE, c2, UNIQUE (c2, c1))", "CREATE TABLE t (c0 TEXT PRIMARY KEY, c1)",
				"CREATE TABLE w (c0 TEXT COLLATE mycoll, c1, c2, PRIMARY KEY (c0)) WITHOUT ROWID", "CREATE TABLE w (c0, c1, c2, PRIMARY KEY (c0 COLLATE mycoll, c1)) WITHOUT ROWID",
				"CREATE INDEX i0 ON t (c1 COLLATE mycoll)", "CREATE INDEX i0 ON w (c1 COLLATE nosuch, c2)", "CREATE TABLE t (c0 COLLATE mycoll PRIMARY KEY, c1 COLLATE mycoll UNIQUE)"}
			genSQL := func(name string) string {
				switch rapid.IntRange(0, 3).Draw(t, "sqlkind") {
				case 0:
					return rapid.SampledFrom(hostileSQL).Draw(t, "hsql")
				case 1:
					used := map[string]bool{}
					tb := sqlgen.GenTable(t, sqlgen.Ident{Name: name, SQL: name}, sqlgen.Opts{MaxCols: 5})
					if rapid.Bool().Draw(t, "asindex") {
						return sqlgen.GenIndex(t, sqlgen.GenIdent(t, used, "in"), tb, rapid.Bool().Draw(t, "uq"), true, true).SQL()
					}
					return tb.SQL()
				case 2:
					return rapid.String().Draw(t, "rsql")
				default:
					return rapid.SampledFrom(validSQL).Draw(t, "vsql")
				}
			}
			// start from the catalogue the builder would write ...
			var rows []bt.MasterRow
			for _, tb := range img.Tables {
				rows = append(rows, bt.MasterRow{Fields: []val.V{val.Text("table"), val.Text(tb.Name), val.Text(tb.Name), val.Int(0), val.Text(tb.SQL())}, RootOf: tb.Name})
				for _, ix := range tb.Indexes {
					rows = append(rows, bt.MasterRow{Fields: []val.V{val.Text("index"), val.Text(ix.Name), val.Text(tb.Name), val.Int(0), val.Text(ix.SQL(tb.Name))}, RootOf: ix.Name})
				}
			}
			// ... and make it lie
			nm := rapid.IntRange(1, 3).Draw(t, "nlies")
			for i := 0; i < nm; i++ {
				k := rapid.IntRange(0, len(rows)-1).Draw(t, "row")
				row := &rows[k]
				switch rapid.IntRange(0, 14).Draw(t, "lie") {
				case 9, 10, 11, 12, 13, 14:
					if len(row.Fields) > 4 && row.Fields[4].T == 't' {
						row.Fields[4] = val.Text(editSQL(t, string(row.Fields[4].B)))
					}
				case 0, 1, 2:
					if len(row.Fields) > 4 {
						row.Fields[4] = val.Text(genSQL(string(row.Fields[1].B)))
					}
				case 3:
					row.RootOf = rapid.SampledFrom([]string{"t", "w", "i0", "i1"}).Draw(t, "rootof")
				case 4:
					if len(row.Fields) > 3 {
						row.RootOf = ""
						row.Fields[3] = val.Int(int64(rapid.SampledFrom([]int{0, 1, 2, 3, 4, 5, 9, 1000, -1, 1 << 31}).Draw(t, "root")))
					}
				case 5:
					if len(row.Fields) > 2 {
						row.Fields[2] = val.Text(rapid.SampledFrom(names).Draw(t, "tblname"))
					}
				case 6:
					if len(row.Fields) > 0 {
						row.Fields[0] = val.Text(rapid.SampledFrom(types).Draw(t, "mtype"))
					}
				case 7:
					if len(row.Fields) > 1 {
						row.Fields[1] = val.Text(rapid.SampledFrom(names).Draw(t, "mname"))
					}
				default:
					switch rapid.IntRange(0, 2).Draw(t, "shape") {
					case 0:
						row.Fields = row.Fields[:rapid.IntRange(0, 4).Draw(t, "short")]
						row.RootOf = ""
					case 1:
						row.Fields = append(row.Fields, val.Int(1))
					default:
						if len(row.Fields) > 0 {
							row.Fields[rapid.IntRange(0, len(row.Fields)-1).Draw(t, "wrongclass")] = rapid.SampledFrom([]val.V{val.Null(), val.Int(7), val.Real(1.5), val.Blob([]byte("table"))}).Draw(t, "wrongval")
						}
						if len(row.Fields) > 3 && row.Fields[3].T != 'i' {
							row.RootOf = ""
						}
					}
				}
			}
			// extra objects pointing at existing trees
			ne := rapid.IntRange(0, 2).Draw(t, "nextra")
			for i := 0; i < ne; i++ {
				name := rapid.SampledFrom([]string{"x1", "x2", "t", "i0"}).Draw(t, "xname")
				rows = append(rows, bt.MasterRow{
					Fields: []val.V{val.Text(rapid.SampledFrom([]string{"table", "index"}).Draw(t, "xtype")), val.Text(name),
						val.Text(rapid.SampledFrom([]string{"t", "w", "x1"}).Draw(t, "xtbl")), val.Int(0), val.Text(genSQL(name))},
					RootOf: rapid.SampledFrom([]string{"t", "w", "i0", "i1"}).Draw(t, "xroot"),
				})
			}
			img.MasterRows = rows
			return schemaSpec{Img: img}
		},
		Run: func(r *vt.Run, t vt.TB, s schemaSpec) {
			built, err := bt.Build(&s.Img)
			if err != nil {
				r.Exclude("layout-impossible")
				return
			}
			r.Case(s, true, fmt.Sprintf("schema:rows=%d", len(s.Img.MasterRows)))
			judge(r, t, s, built.Img, nil)
		},
	})
}

// ---- raw images (replay form of native fuzz findings, random prefixes)

type rawSpec struct {
	Img []byte
}

func TestC05Raw(t *testing.T) {
	vt.Exec(t, vt.Check[rawSpec]{
		ID: "C05", Test: "TestC05Raw",
		Setup:    setupScratch,
		Teardown: func() { os.RemoveAll(scratch) },
		Gen: func(t *rapid.T) rawSpec {
			// a valid header followed by random page bytes
			n := rapid.IntRange(0, 3).Draw(t, "npages")
			img := make([]byte, 0, 512*(n+1))
			hdr := make([]byte, 100)
			copy(hdr, "SQLite format 3\x00")
			binary.BigEndian.PutUint16(hdr[16:], 512)
			hdr[18], hdr[19], hdr[21], hdr[22], hdr[23] = 1, 1, 64, 32, 32
			binary.BigEndian.PutUint32(hdr[44:], 4)
			binary.BigEndian.PutUint32(hdr[56:], 1)
			img = append(img, hdr...)
			rest := rapid.SliceOfN(rapid.Byte(), 0, 512*(n+1)-100).Draw(t, "bytes")
			img = append(img, rest...)
			if len(img) > 100 && rapid.Bool().Draw(t, "leaf") {
				img[100] = rapid.SampledFrom([]byte{2, 5, 10, 13}).Draw(t, "ptype")
			}
			return rawSpec{img}
		},
		Run: func(r *vt.Run, t vt.TB, s rawSpec) {
			r.Case(s, len(s.Img) > 100, "raw")
			judge(r, t, s, s.Img, nil)
		},
	})
}
