package c05

import (
	"fmt"
	"os"
	"path/filepath"
	"testing"
	"time"
)

func TestDbgCorpusTiming(t *testing.T) {
	files, _ := filepath.Glob("/tmp/c05fz/cache2/FuzzC05Image/*")
	for _, dir := range []string{"/repo/corpus", "/repo/testdata"} {
		m, _ := filepath.Glob(dir + "/*")
		files = append(files, m...)
	}
	for _, f := range files {
		b, err := os.ReadFile(f)
		if err != nil || len(b) > 1<<16 {
			continue
		}
		t0 := time.Now()
		p, ops, ex, hang := runImage(b, "")
		if d := time.Since(t0); d > 200*time.Millisecond || p != nil {
			fmt.Println(f, len(b), d, ops, ex, hang, p)
		}
	}
}
