package c08

// A commit by another connection that completes while a read call is already
// under way but has not taken its lock yet belongs to the past of that read
// transaction: the transaction starts with the SHARED lock. The real file
// pager is wrapped (verif hook) so that the harness can run the writer at
// exactly that point: inside the call, before the lock.

import (
	"fmt"
	"strings"
	"testing"

	"github.com/alicebob/sqlittle"
	sdb "github.com/alicebob/sqlittle/db"
	"pgregory.net/rapid"

	"verif/e1"
	"verif/oracle"
	"verif/pagers"
	"verif/sqdb"
	"verif/val"
	"verif/vt"
)

type atLockSpec struct {
	PageSize int
	Rows     int
	Warm     []string // reads before, on the same handle (fill its caches)
	Write    string
	Read     string
	Arg      int
}

var atLockWrites = []string{
	"UPDATE t SET c = c || '-changed'",
	"INSERT INTO t (b, c) VALUES (7, 'new row')",
	"DELETE FROM t WHERE a % 2 = 0",
	"UPDATE t SET b = b + 100 WHERE a = 1",
	"ALTER TABLE t ADD COLUMN d DEFAULT 'dd'",
	"INSERT INTO t (b, c) SELECT b, hex(zeroblob(400)) FROM t",
	"DROP INDEX tb",
	"DELETE FROM t",
}
var atLockReads = []string{"select", "rowid", "indexed", "columns", "low-scan", "pk"}

func TestC08CommitAtLock(t *testing.T) {
	vt.Exec(t, vt.Check[atLockSpec]{
		ID: "C08", Test: "TestC08CommitAtLock",
		Setup: func(r *vt.Run, t *testing.T) {
			var err error
			if env, err = sqdb.NewEnv(); err != nil {
				r.Harness(t, "env: %v", err)
			}
		},
		Teardown: func() { env.Close() },
		Gen: func(t *rapid.T) atLockSpec {
			s := atLockSpec{
				PageSize: rapid.SampledFrom([]int{512, 1024, 4096}).Draw(t, "ps"),
				Rows:     rapid.SampledFrom([]int{1, 5, 40, 200}).Draw(t, "rows"),
				Write:    rapid.SampledFrom(atLockWrites).Draw(t, "write"),
				Read:     rapid.SampledFrom(atLockReads).Draw(t, "read"),
				Arg:      rapid.IntRange(0, 50).Draw(t, "arg"),
			}
			n := rapid.IntRange(0, 3).Draw(t, "nwarm")
			for i := 0; i < n; i++ {
				s.Warm = append(s.Warm, rapid.SampledFrom(atLockReads).Draw(t, "warm"))
			}
			return s
		},
		Run: runAtLock,
	})
}

func runAtLock(r *vt.Run, t vt.TB, s atLockSpec) {
	path := env.NewPath()
	defer sqdb.Remove(path)
	init := []oracle.Stmt{
		{SQL: "CREATE TABLE t (a INTEGER PRIMARY KEY, b, c)"},
		{SQL: "CREATE INDEX tb ON t (b)"},
		{SQL: fmt.Sprintf("WITH RECURSIVE q(x) AS (SELECT 1 UNION ALL SELECT x+1 FROM q WHERE x < %d) INSERT INTO t (b, c) SELECT x%%5, 'row'||x FROM q", s.Rows)},
	}
	res, err := env.Create("w", path, s.PageSize, 0, init)
	sqdb.MustOK(r, t, "create", res, err, len(init)+2)
	defer env.O.Close("w")

	fp, err := sdb.VerifFilePager(path)
	if err != nil {
		r.Harness(t, "file pager: %v", err)
	}
	trace := &pagers.Trace{P: fp}
	d, err := sdb.VerifOpen(trace, path+"-journal")
	if err != nil {
		r.Harness(t, "open: %v", err)
	}
	defer d.Close()
	hl := sqlittle.VerifWrap(d)

	// one read; gives a rendering of the result and the SQLite query that must agree with it
	read := func(kind string) (string, error) {
		var b strings.Builder
		cb := func(row sqlittle.Row) { fmt.Fprintf(&b, "%s;", e1.ShowGot(row)) }
		var err error
		switch kind {
		case "select":
			err = hl.Select("t", cb, "a", "b", "c")
		case "rowid":
			var row sqlittle.Row
			row, err = hl.SelectRowid("t", int64(1+s.Arg%(s.Rows+2)), "a", "b", "c")
			if row != nil {
				cb(row)
			}
		case "pk":
			err = hl.PKSelect("t", sqlittle.Key{int64(1 + s.Arg%(s.Rows+2))}, cb, "a", "b", "c")
		case "indexed":
			err = hl.IndexedSelectEq("t", "tb", sqlittle.Key{int64(s.Arg % 5)}, cb, "a", "b", "c")
		case "columns":
			var cols []string
			cols, err = hl.Columns("t")
			fmt.Fprintf(&b, "%v", cols)
		case "low-scan":
			if err = d.RLock(); err == nil {
				var tab *sdb.Table
				if tab, err = d.Table("t"); err == nil {
					err = tab.Scan(func(rowid int64, rec sdb.Record) bool {
						// (the record: NULL for the rowid alias, then b and c)
						if len(rec) >= 3 {
							fmt.Fprintf(&b, "%d:%s;", rowid, e1.ShowGot(sqlittle.Row(rec[1:3])))
						} else {
							fmt.Fprintf(&b, "%d:short record %v;", rowid, rec)
						}
						return false
					})
				}
				d.RUnlock()
			}
		}
		return b.String(), err
	}
	// what SQLite says the same read returns now
	expect := func(kind string) (string, bool) {
		var b strings.Builder
		q := func(sql string) bool {
			rows, err := env.O.Query("w", sql)
			if err != nil {
				return false
			}
			for _, row := range rows {
				fmt.Fprintf(&b, "%s;", row)
			}
			return true
		}
		switch kind {
		case "select":
			ok := q("SELECT a, b, c FROM t ORDER BY a")
			return b.String(), ok
		case "rowid", "pk":
			ok := q(fmt.Sprintf("SELECT a, b, c FROM t WHERE a = %d", 1+s.Arg%(s.Rows+2)))
			return b.String(), ok
		case "indexed":
			ok := q(fmt.Sprintf("SELECT a, b, c FROM t WHERE b IS %d ORDER BY b, a", s.Arg%5))
			return b.String(), ok
		case "columns":
			rows, err := env.O.Query("w", "SELECT name FROM pragma_table_info('t') ORDER BY cid")
			if err != nil {
				return "", false
			}
			var cols []string
			for _, row := range rows {
				cols = append(cols, string(row[0].B))
			}
			return fmt.Sprintf("%v", cols), true
		case "low-scan":
			rows, err := env.O.Query("w", "SELECT a, b, c FROM t ORDER BY a")
			if err != nil {
				return "", false
			}
			for _, row := range rows {
				fmt.Fprintf(&b, "%d:%s;", row[0].I, val.Row(row[1:3]))
			}
			return b.String(), true
		}
		return "", false
	}
	for _, w := range s.Warm {
		if _, err := read(w); err != nil {
			r.Harness(t, "warm-up read %s: %v", w, err)
		}
	}
	// the commit happens inside the next read call, before its lock
	fired := false
	var werr error
	trace.Hook = func(e pagers.Event, _ int) {
		if e.Kind == "prelock" && !fired {
			fired = true
			werr = env.O.Exec("w", s.Write)
		}
	}
	got, gerr := read(s.Read)
	trace.Hook = nil
	if !fired {
		r.Harness(t, "the read %s took no lock", s.Read)
	}
	if werr != nil {
		if _, ok := werr.(*oracle.SQLError); !ok {
			r.Harness(t, "writer: %v", werr)
		}
	}
	r.Case(s, werr == nil, "atlock:read="+s.Read, fmt.Sprintf("atlock:warm=%d", len(s.Warm)), "atlock:write="+strings.Fields(s.Write)[0])
	want, ok := expect(s.Read)
	if !ok {
		// (index dropped: the indexed read has to fail, too)
		if s.Read == "indexed" && gerr == nil {
			r.Violation(t, s, "atlock:stale", "%q committed inside the call before its lock: IndexedSelectEq through the dropped index still succeeds", s.Write)
		}
		return
	}
	if s.Read == "indexed" && strings.HasPrefix(s.Write, "DROP INDEX") {
		if gerr == nil {
			r.Violation(t, s, "atlock:stale", "%q committed inside the call before its lock: IndexedSelectEq through the dropped index still succeeds", s.Write)
		}
		return
	}
	if gerr != nil {
		r.Violation(t, s, "atlock:error", "%s with %q committed inside the call before its lock (after warm-up reads %v): %v", s.Read, s.Write, s.Warm, gerr)
		return
	}
	if got != want {
		r.Violation(t, s, "atlock:stale", "%s with %q committed inside the call, before it took its lock (after warm-up reads %v): the read returns %.300s; SQLite has %.300s", s.Read, s.Write, s.Warm, got, want)
	}
}
