// C08 — each read transaction reflects the latest committed database state.
// Generated histories (read | committed write)* on long-lived handles; after
// every commit SQLite's own answers are the oracle.
package c08

import (
	"database/sql"
	"encoding/binary"
	"os"

	"fmt"
	_ "github.com/alicebob/sqlittle/driver"
	"strings"
	"testing"
	"verif/fold"

	"github.com/alicebob/sqlittle"
	sdb "github.com/alicebob/sqlittle/db"
	"pgregory.net/rapid"

	"verif/e1"
	"verif/oracle"
	"verif/sqdb"
	"verif/val"
	"verif/vt"
)

var env *sqdb.Env

type op struct {
	Kind string
	A, B int
}

type spec struct {
	PageSize   int
	AutoVacuum int
	Ops        []op
	// BigCatalog: the file starts with sixty more tables, so that
	// sqlite_master spans several pages
	BigCatalog bool `json:",omitempty"`
	// Legacy (2 or 3): the file starts in that older schema format, in which
	// DESC in an index is ignored (the index is stored ascending); a VACUUM
	// rebuilds it as format 4, the same indexes descending
	Legacy int `json:",omitempty"`
	// Wrap (1..4): the file change counter (a 32-bit number in the header,
	// one up with every commit) starts that many commits before it wraps
	// around to 0
	Wrap int `json:",omitempty"`
}

var writeKinds = []string{"insert", "insert", "update", "delete", "bulk", "bulk-big", "create-table", "drop-table", "create-index", "drop-index", "alter", "vacuum", "incr-vacuum", "delete-all", "update-grow", "vacuum-pagesize", "open-mid-transaction", "open-mid-transaction", "refused-read", "refused-read", "short-tail", "short-tail", "redefine-index", "redefine-index", "update-all", "update-all", "wal-excursion"}
var readKinds = []string{"select", "select", "indexed", "rowid", "columns", "low-scan", "low-tables", "low-schema", "low-all", "repeat", "pk", "prepared", "select-in-lo-txn", "indexed-in-lo-txn", "low-all-in-hi-txn", "select-while-writer-open", "rowid-while-writer-open", "indexed-eq", "indexed-eq"}

func TestC08History(t *testing.T) {
	vt.Exec(t, vt.Check[spec]{
		ID: "C08", Test: "TestC08History",
		Setup: func(r *vt.Run, t *testing.T) {
			var err error
			if env, err = sqdb.NewEnv(); err != nil {
				r.Harness(t, "env: %v", err)
			}
		},
		Teardown: func() { env.Close() },
		Gen: func(t *rapid.T) spec {
			s := spec{PageSize: rapid.SampledFrom([]int{512, 512, 1024, 4096}).Draw(t, "ps"), AutoVacuum: rapid.SampledFrom([]int{0, 0, 1, 2}).Draw(t, "av")}
			s.BigCatalog = rapid.IntRange(0, 3).Draw(t, "bigcatalog") == 0
			s.Legacy = rapid.SampledFrom([]int{0, 0, 0, 0, 3, 2}).Draw(t, "legacy")
			s.Wrap = rapid.SampledFrom([]int{0, 0, 0, 0, 0, 1, 2, 3, 4}).Draw(t, "wrap")
			if s.Legacy != 0 && rapid.Bool().Draw(t, "legacyscript") {
				// the history the older format is there for: a DESC index made
				// while DESC does not count, read through, then the VACUUM that
				// turns the file into format 4 and the index around, and the
				// same read again
				k := rapid.IntRange(0, 1000).Draw(t, "lk")
				s.Ops = append(s.Ops, op{"bulk", 0, k}, op{"create-index", 0, 0}, op{"redefine-index", 0, 0}, op{"indexed-eq", 0, k}, op{"vacuum", 0, 0}, op{"indexed-eq", 0, k + 1}, op{"indexed", 0, 0})
			}
			n := rapid.IntRange(2, 24).Draw(t, "nops")
			for i := 0; i < n; i++ {
				var k string
				if rapid.Bool().Draw(t, "isread") {
					k = rapid.SampledFrom(readKinds).Draw(t, "rk")
				} else {
					k = rapid.SampledFrom(writeKinds).Draw(t, "wk")
				}
				s.Ops = append(s.Ops, op{k, rapid.IntRange(0, 1000).Draw(t, "a"), rapid.IntRange(0, 1000).Draw(t, "b")})
			}
			return s
		},
		Run: run,
	})
}

type tableModel struct {
	name    string
	kind    int // 0: (a INTEGER PRIMARY KEY, b, c TEXT), 1: (x, y), 2: (k TEXT PRIMARY KEY, v) WITHOUT ROWID
	indexes []string
	idxDef  map[string]string // index name -> what follows the column in its definition ("", "DESC", "COLLATE NOCASE")
	cols    []string
	added   int
}

func (tm *tableModel) createSQL() string {
	switch tm.kind {
	case 0:
		return fmt.Sprintf("CREATE TABLE %s (a INTEGER PRIMARY KEY, b, c TEXT)", tm.name)
	case 1:
		return fmt.Sprintf("CREATE TABLE %s (x, y)", tm.name)
	default:
		return fmt.Sprintf("CREATE TABLE %s (k TEXT PRIMARY KEY, v) WITHOUT ROWID", tm.name)
	}
}

func (tm *tableModel) baseCols() []string {
	switch tm.kind {
	case 0:
		return []string{"a", "b", "c"}
	case 1:
		return []string{"x", "y"}
	default:
		return []string{"k", "v"}
	}
}

func (tm *tableModel) orderBy() string {
	if tm.kind == 2 {
		return "k"
	}
	return "rowid"
}

func render(row []interface{}) string { return e1.ShowGot(row) }

func run(r *vt.Run, t vt.TB, s spec) {
	path := env.NewPath()
	defer sqdb.Remove(path)
	t0 := &tableModel{name: "t0", kind: 0}
	t0.cols = t0.baseCols()
	init := []oracle.Stmt{{SQL: t0.createSQL()}, {SQL: "INSERT INTO t0 (b, c) VALUES (1, 'one'), (2, 'two'), (3, 'three')"}}
	if s.BigCatalog {
		for i := 0; i < 60; i++ {
			init = append(init, oracle.Stmt{SQL: fmt.Sprintf("CREATE TABLE filler_%02d (a INTEGER PRIMARY KEY, some_longer_column_name_%02d TEXT DEFAULT 'padding padding padding', c)", i, i)})
		}
		init = append(init, oracle.Stmt{SQL: "INSERT INTO filler_07 (c) VALUES ('seven')"}, oracle.Stmt{SQL: "INSERT INTO filler_41 (c) VALUES ('forty-one')"})
	}
	var res []oracle.StmtResult
	var err error
	if s.Legacy != 0 {
		res, err = env.CreateLegacy("w", path, s.PageSize, s.AutoVacuum, s.Legacy, init)
	} else {
		res, err = env.Create("w", path, s.PageSize, s.AutoVacuum, init)
	}
	sqdb.MustOK(r, t, "create", res, err, len(init)+2)
	if s.Wrap > 0 {
		if err := env.O.Close("w"); err != nil {
			r.Harness(t, "close before the counter is set: %v", err)
		}
		f, err := os.OpenFile(path, os.O_RDWR, 0)
		if err != nil {
			r.Harness(t, "change counter: %v", err)
		}
		var c [4]byte
		binary.BigEndian.PutUint32(c[:], uint32(0x100000000-int64(s.Wrap)))
		f.WriteAt(c[:], 24) // file change counter
		f.WriteAt(c[:], 92) // version-valid-for: the counter value the in-header size belongs to
		f.Close()
		if err := env.O.Open("w", path); err != nil {
			r.Harness(t, "reopen after the counter is set: %v", err)
		}
		if rows, err := env.O.Query("w", "PRAGMA integrity_check"); err != nil || len(rows) != 1 || string(rows[0][0].B) != "ok" {
			r.Harness(t, "integrity_check after the counter is set: %v %v", rows, err)
		}
	}
	// what follows the column in an index definition, as the file's schema
	// format lets it count now
	effDef := func(def string) string {
		if def == "DESC" {
			if f, err := os.Open(path); err == nil {
				var h [48]byte
				f.ReadAt(h[:], 0)
				f.Close()
				if h[47] < 4 {
					return ""
				}
			}
		}
		return def
	}
	defer env.O.Close("w")
	tables := []*tableModel{t0}
	nextTable, nextIndex := 1, 0

	hi, err := sqlittle.Open(path)
	if err != nil {
		r.Harness(t, "open: %v", err)
	}
	defer hi.Close()
	lo, err := sdb.OpenFile(path)
	if err != nil {
		r.Harness(t, "open low: %v", err)
	}
	defer lo.Close()
	sqldb, err := sql.Open("sqlittle", path)
	if err != nil {
		r.Harness(t, "sql.Open: %v", err)
	}
	defer sqldb.Close()
	sqldb.SetMaxOpenConns(1) // one connection: the prepared statements live on it
	w2open := false
	defer func() {
		if w2open {
			env.O.Close("w2")
		}
	}()
	prepared := map[string]*sql.Stmt{}
	defer func() {
		for _, st := range prepared {
			st.Close()
		}
	}()

	exec := func(sql string) bool {
		if err := env.O.Exec("w", sql); err != nil {
			if _, ok := err.(*oracle.SQLError); ok {
				return false // SQLite refused (constraint...): nothing committed
			}
			r.Harness(t, "writer: %v", err)
		}
		return true
	}
	query := func(sql string, params ...val.V) []val.Row {
		rows, err := env.O.Query("w", sql, params...)
		if err != nil {
			r.Harness(t, "reference query %q: %v", sql, err)
		}
		return rows
	}
	history := []string{}
	fail := func(sig, format string, args ...interface{}) {
		r.Violation(t, s, sig, "after %v: %s", history, fmt.Sprintf(format, args...))
	}
	pageCountAtOpen := int(query("PRAGMA page_count")[0][0].I)
	classes := map[string]bool{}
	// what happened since the handle last read (per handle)
	pending := map[string]map[string]bool{"hi": {}, "lo": {}}
	note := func(ev string) {
		pending["hi"][ev] = true
		pending["lo"][ev] = true
	}
	reads := map[string]int{}
	var lastRead func() (string, bool)
	nontrivialReads := 0

	// compare a list of rows with the oracle
	cmpRows := func(what string, got [][]interface{}, gerr error, want []val.Row) bool {
		if gerr != nil {
			fail("read-error", "%s fails: %v (SQLite returns %d rows)", what, gerr, len(want))
			return false
		}
		if len(got) != len(want) {
			fail("stale-or-wrong-rows", "%s returns %d rows, SQLite %d", what, len(got), len(want))
			return false
		}
		for i := range want {
			if !e1.SameRow(got[i], want[i]) {
				fail("stale-or-wrong-rows", "%s row %d is %s, SQLite returns %s", what, i, render(got[i]), want[i])
				return false
			}
		}
		return true
	}
	afterRead := func(h string) {
		reads[h]++
		if reads[h] > 1 && len(pending[h]) > 0 {
			nontrivialReads++
			for ev := range pending[h] {
				classes["read-after:"+ev] = true
			}
		}
		pending[h] = map[string]bool{}
	}

	for _, o := range s.Ops {
		var tm *tableModel
		if len(tables) > 0 {
			tm = tables[o.A%len(tables)]
		}
		switch o.Kind {
		// ---------------- committed writes by another connection
		case "insert":
			if tm == nil {
				continue
			}
			n := 1 + o.B%5
			for i := 0; i < n; i++ {
				v := fmt.Sprintf("%d", o.B*7+i)
				switch tm.kind {
				case 0:
					exec(fmt.Sprintf("INSERT INTO %s (b, c) VALUES (%s, 'v%s')", tm.name, v, v))
				case 1:
					exec(fmt.Sprintf("INSERT INTO %s (x, y) VALUES (%s, hex(zeroblob(%d)))", tm.name, v, o.B%700))
				default:
					if (o.B+i)%3 == 0 {
						// (a value that spills to overflow pages of the WITHOUT ROWID tree)
						exec(fmt.Sprintf("INSERT OR IGNORE INTO %s (k, v) VALUES ('k%s', hex(zeroblob(%d)))", tm.name, v, 40+(o.B*13+i*101)%900))
					} else {
						exec(fmt.Sprintf("INSERT OR IGNORE INTO %s (k, v) VALUES ('k%s', %s)", tm.name, v, v))
					}
				}
			}
			history = append(history, "insert:"+tm.name)
			note("dml")
		case "bulk", "bulk-big":
			if tm == nil {
				continue
			}
			n := 200 + o.B%300
			if o.Kind == "bulk-big" {
				n = 1500 + o.B%1500
			}
			c := tm.baseCols()
			e := map[int]string{0: "NULL, x, 'bulk'||x", 1: "x, 'y'||x", 2: fmt.Sprintf("'b%d-'||x, x", o.B)}[tm.kind]
			pcBefore := int(query("PRAGMA page_count")[0][0].I)
			grown := exec(fmt.Sprintf("WITH RECURSIVE c(x) AS (SELECT 1 UNION ALL SELECT x+1 FROM c WHERE x < %d) INSERT OR IGNORE INTO %s (%s) SELECT %s FROM c", n, tm.name, strings.Join(c, ", "), e))
			history = append(history, fmt.Sprintf("bulk%d:%s", n, tm.name))
			if grown && !w2open && (o.A+o.B)%3 == 0 && int(query("PRAGMA page_count")[0][0].I) > pcBefore {
				// the writer was one from before SQLite 3.7.0: it moves the
				// change counter and leaves the in-header size (28) and
				// version-valid-for (92) as they were, so the header names
				// fewer pages than the file has. SQLite goes by the file size
				// then (pager.c: the in-header size counts only when 92 equals
				// the change counter); the next write by a newer SQLite puts
				// both fields right again.
				if f, err := os.OpenFile(path, os.O_RDWR, 0); err == nil {
					var cc, b [4]byte
					f.ReadAt(cc[:], 24)
					binary.BigEndian.PutUint32(b[:], uint32(pcBefore))
					f.WriteAt(b[:], 28)
					binary.BigEndian.PutUint32(b[:], binary.BigEndian.Uint32(cc[:])-1)
					f.WriteAt(b[:], 92)
					f.Close()
					history = append(history, fmt.Sprintf("(header left as by a pre-3.7.0 writer: size %d)", pcBefore))
					classes["file-grown-by-a-writer-that-leaves-the-in-header-size-stale"] = true
				} else {
					r.Harness(t, "stale in-header size: %v", err)
				}
			}
			note("growth")
			note("dml")
		case "update", "update-grow":
			if tm == nil {
				continue
			}
			col := tm.baseCols()[1]
			v := fmt.Sprintf("'u%d'", o.B)
			if o.Kind == "update-grow" {
				v = fmt.Sprintf("hex(zeroblob(%d))", 300+o.B)
			}
			exec(fmt.Sprintf("UPDATE %s SET %s = %s WHERE %s IN (SELECT %s FROM %s ORDER BY 1 LIMIT 3 OFFSET %d)", tm.name, col, v, tm.orderBy(), tm.orderBy(), tm.name, o.B%7))
			history = append(history, o.Kind+":"+tm.name)
			note("dml")
		case "short-tail":
			// a new table whose only leaf holds a few plain rows and, put in
			// after them (so lying in front of them in the page), one row whose
			// value spills onto a single overflow page that it fills only
			// partly - less than what lies behind the row's own bytes in the
			// leaf. Read twice in a row by the long-lived handle: the second
			// time from whatever the first left in its cache.
			u := int(query("PRAGMA page_size")[0][0].I)
			nt := &tableModel{name: fmt.Sprintf("t%d", nextTable), kind: 1 + o.B%2}
			nextTable++
			nt.cols = nt.baseCols()
			m := (u-12)*32/255 - 23
			x := u - 35
			if nt.kind == 2 {
				x = (u-12)*64/255 - 23
			}
			tail := x - m + 1 + o.B%5 // bytes on the overflow page
			// payload: header (its size, one type byte or two for the first
			// column, the type of the text) + first column + text
			ylen := 0
			for ylen = tail; ; ylen++ {
				tl := 1
				if 2*ylen+13 > 127 {
					tl = 2
				}
				if 2*ylen+13 > 16383 {
					tl = 3
				}
				p := 1 + 1 + tl + 1 + ylen // (first column: the integer 5, or the text 'z')
				if p >= m+tail {
					break
				}
			}
			// the plain rows: together at least as long as the tail
			nfill := 3
			flen := (tail+nfill-1)/nfill - 4
			if nt.kind == 1 {
				// (a table leaf has no byte to spare: cells of flen + 8 bytes,
				// together the tail less the four bytes of the page number
				// that follow the row's own bytes)
				flen = (tail-4+nfill-1)/nfill - 8
			}
			if flen < 1 {
				flen = 1
			}
			stmts := []oracle.Stmt{{SQL: "BEGIN"}, {SQL: nt.createSQL()}}
			for i := 0; i < nfill; i++ {
				first := fmt.Sprintf("%d", 10+i)
				if nt.kind == 2 {
					first = fmt.Sprintf("'%c'", 'a'+i)
				}
				stmts = append(stmts, oracle.Stmt{SQL: fmt.Sprintf("INSERT INTO %s VALUES (%s, printf('%%.*c', %d, 'f'))", nt.name, first, flen)})
			}
			first := "5"
			if nt.kind == 2 {
				first = "'z'"
			}
			stmts = append(stmts, oracle.Stmt{SQL: fmt.Sprintf("INSERT INTO %s VALUES (%s, printf('%%.*c', %d, 'T'))", nt.name, first, ylen)}, oracle.Stmt{SQL: "COMMIT"})
			res, err := env.O.Script("w", stmts, true)
			sqdb.MustOK(r, t, "short-tail table", res, err, len(stmts))
			tables = append(tables, nt)
			history = append(history, fmt.Sprintf("short-tail:%s(kind %d, %d bytes, tail %d)", nt.name, nt.kind, ylen, tail))
			note("ddl")
			note("dml")
			want := query(fmt.Sprintf("SELECT %s FROM %s ORDER BY %s", strings.Join(nt.cols, ", "), nt.name, nt.orderBy()))
			for pass := 1; pass <= 2; pass++ {
				var got [][]interface{}
				err := hi.Select(nt.name, func(row sqlittle.Row) { got = append(got, append([]interface{}{}, row...)) }, nt.cols...)
				if !cmpRows(fmt.Sprintf("Select(%s), time %d in a row,", nt.name, pass), got, err, want) {
					return
				}
			}
			afterRead("hi")
			classes["short-tail-row-read-twice"] = true
		case "delete":
			if tm == nil {
				continue
			}
			exec(fmt.Sprintf("DELETE FROM %s WHERE %s IN (SELECT %s FROM %s ORDER BY 1 LIMIT %d OFFSET %d)", tm.name, tm.orderBy(), tm.orderBy(), tm.name, 1+o.B%40, o.B%5))
			history = append(history, "delete:"+tm.name)
			note("dml")
		case "wal-excursion":
			// the file is in WAL mode for a while: the long-lived handles are
			// refused (as they must be), the schema changes meanwhile, and the
			// file comes back to rollback-journal mode. What the handles read
			// afterwards is the file as it is then.
			if w2open {
				env.O.Close("w2")
				w2open = false
			}
			if rows, err := env.O.Query("w", "PRAGMA journal_mode=WAL"); err != nil || len(rows) != 1 || string(rows[0][0].B) != "wal" {
				r.Harness(t, "switch to WAL: %v %v", rows, err)
			}
			hi.Select("t0", func(sqlittle.Row) {}, "a") // (refused, or t0 is gone: either way not what is judged here)
			if err := lo.RLock(); err == nil {
				lo.Tables()
				lo.RUnlock()
			}
			{
				nt := &tableModel{name: fmt.Sprintf("t%d", nextTable), kind: o.B % 3}
				nextTable++
				nt.cols = nt.baseCols()
				if exec(nt.createSQL()) {
					tables = append(tables, nt)
				}
				if tm != nil {
					cn := fmt.Sprintf("w%d", tm.added)
					if exec(fmt.Sprintf("ALTER TABLE %s ADD COLUMN %s DEFAULT 'wal'", tm.name, cn)) {
						tm.cols = append(tm.cols, cn)
						tm.added++
					}
				}
			}
			if rows, err := env.O.Query("w", "PRAGMA journal_mode=DELETE"); err != nil || len(rows) != 1 || string(rows[0][0].B) != "delete" {
				r.Harness(t, "switch back from WAL: %v %v", rows, err)
			}
			history = append(history, "wal-excursion")
			note("ddl")
			classes["wal-excursion-with-schema-change"] = true
		case "update-all":
			// every row changes: every leaf of the table (and of its indexes
			// on that column) is rewritten, also those a long-lived handle
			// read long ago
			if tm == nil {
				continue
			}
			{
				col := tm.baseCols()[1]
				if exec(fmt.Sprintf("UPDATE %s SET %s = %s || '!%d'", tm.name, col, col, o.B%10)) {
					history = append(history, "update-all:"+tm.name)
					note("dml")
					classes["every-row-rewritten"] = true
				}
			}
		case "delete-all":
			if tm == nil {
				continue
			}
			exec("DELETE FROM " + tm.name)
			history = append(history, "delete-all:"+tm.name)
			note("dml")
			note("shrink")
		case "create-table":
			nt := &tableModel{name: fmt.Sprintf("t%d", nextTable), kind: o.B % 3}
			nextTable++
			nt.cols = nt.baseCols()
			if exec(nt.createSQL()) {
				tables = append(tables, nt)
				history = append(history, "create-table:"+nt.name)
				note("ddl")
			}
		case "drop-table":
			if tm == nil || len(tables) < 2 {
				continue
			}
			if exec("DROP TABLE " + tm.name) {
				for i, x := range tables {
					if x == tm {
						tables = append(tables[:i], tables[i+1:]...)
						break
					}
				}
				history = append(history, "drop-table:"+tm.name)
				note("ddl")
			}
		case "create-index":
			if tm == nil {
				continue
			}
			name := fmt.Sprintf("i%d", nextIndex)
			nextIndex++
			col := tm.baseCols()[1]
			if exec(fmt.Sprintf("CREATE INDEX %s ON %s (%s)", name, tm.name, col)) {
				tm.indexes = append(tm.indexes, name)
				history = append(history, "create-index:"+name)
				note("ddl")
			}
		case "redefine-index":
			// an index dropped and made again under its old name with another
			// direction or collation, in one transaction: a handle that knows
			// the old definition finds a new b-tree under the same name
			if tm == nil || len(tm.indexes) == 0 {
				continue
			}
			{
				name := tm.indexes[o.B%len(tm.indexes)]
				def := []string{"DESC", "COLLATE NOCASE", ""}[o.B/7%3]
				if tm.idxDef[name] == def {
					def = "DESC"
					if tm.idxDef[name] == "DESC" {
						def = ""
					}
				}
				col := tm.baseCols()[1]
				stmts := []oracle.Stmt{{SQL: "BEGIN"}, {SQL: "DROP INDEX " + name}, {SQL: fmt.Sprintf("CREATE INDEX %s ON %s (%s %s)", name, tm.name, col, def)}, {SQL: "COMMIT"}}
				res, err := env.O.Script("w", stmts, true)
				sqdb.MustOK(r, t, "redefine index", res, err, len(stmts))
				if tm.idxDef == nil {
					tm.idxDef = map[string]string{}
				}
				tm.idxDef[name] = def
				// (the recreated index is the last object of the catalogue now)
				var keep []string
				for _, x := range tm.indexes {
					if x != name {
						keep = append(keep, x)
					}
				}
				tm.indexes = append(keep, name)
				history = append(history, fmt.Sprintf("redefine-index:%s(%s)", name, def))
				note("ddl")
				classes["index-redefined-under-its-name"] = true
			}
		case "drop-index":
			if tm == nil || len(tm.indexes) == 0 {
				continue
			}
			name := tm.indexes[o.B%len(tm.indexes)]
			if exec("DROP INDEX " + name) {
				var keep []string
				for _, x := range tm.indexes {
					if x != name {
						keep = append(keep, x)
					}
				}
				tm.indexes = keep
				history = append(history, "drop-index:"+name)
				note("ddl")
			}
		case "alter":
			if tm == nil {
				continue
			}
			name := fmt.Sprintf("n%d", tm.added)
			if exec(fmt.Sprintf("ALTER TABLE %s ADD COLUMN %s %s", tm.name, name, []string{"", "DEFAULT 7", "TEXT DEFAULT 'd'", "INTEGER"}[o.B%4])) {
				tm.added++
				tm.cols = append(tm.cols, name)
				history = append(history, "alter:"+tm.name)
				note("ddl")
			}
		case "vacuum":
			if exec("VACUUM") {
				history = append(history, "vacuum")
				note("vacuum")
			}
		case "vacuum-pagesize":
			// VACUUM rebuilds the file with another page size
			nps := []int{512, 1024, 2048, 4096, 8192}[o.B%5]
			if exec(fmt.Sprintf("PRAGMA page_size=%d", nps)) && exec("VACUUM") {
				history = append(history, fmt.Sprintf("vacuum-pagesize:%d", nps))
				note("vacuum")
				note("pagesize")
			}
		case "refused-read":
			// every long-lived handle is refused once (another connection
			// holds EXCLUSIVE at that moment); what is committed afterwards
			// has to show up in their later reads all the same
			if !w2open {
				if err := env.O.Open("w2", path); err != nil {
					r.Harness(t, "open w2: %v", err)
				}
				w2open = true
				if _, err := env.O.Query("w2", "PRAGMA synchronous=OFF"); err != nil {
					r.Harness(t, "w2 synchronous: %v", err)
				}
			}
			if err := env.O.Exec("w2", "BEGIN EXCLUSIVE"); err != nil {
				r.Harness(t, "begin exclusive: %v", err)
			}
			refused := 0
			if err := hi.Select("t0", func(sqlittle.Row) {}, "a"); err != nil {
				refused++
			}
			if err := lo.RLock(); err != nil {
				refused++
			} else {
				lo.RUnlock()
			}
			if rows, err := sqldb.Query("SELECT * FROM t0"); err != nil {
				refused++
			} else {
				for rows.Next() {
				}
				if rows.Err() != nil {
					refused++
				}
				rows.Close()
			}
			if err := env.O.Exec("w2", "ROLLBACK"); err != nil {
				r.Harness(t, "rollback w2: %v", err)
			}
			if refused > 0 {
				classes["reads-refused-in-between"] = true
			}
		case "open-mid-transaction":
			// A handle is opened while another connection is in the middle of
			// a write transaction that has already spilled changed pages into
			// the file (schema changes among them), and which it then rolls
			// back. Whatever the handle looked at when it was opened, its
			// reads show the committed state.
			if !w2open {
				if err := env.O.Open("w2", path); err != nil {
					r.Harness(t, "open w2: %v", err)
				}
				w2open = true
				if _, err := env.O.Query("w2", "PRAGMA synchronous=OFF"); err != nil {
					r.Harness(t, "w2 synchronous: %v", err)
				}
			}
			if _, err := env.O.Query("w2", "PRAGMA cache_size=5"); err != nil {
				r.Harness(t, "w2 cache_size: %v", err)
			}
			txn := []oracle.Stmt{{SQL: "BEGIN"}}
			if tm != nil {
				txn = append(txn, oracle.Stmt{SQL: "DROP TABLE " + tm.name})
			}
			if s.BigCatalog {
				txn = append(txn, oracle.Stmt{SQL: "DROP TABLE filler_07"}, oracle.Stmt{SQL: "DROP TABLE filler_41"}, oracle.Stmt{SQL: "ALTER TABLE filler_30 ADD COLUMN added_in_the_open_transaction"})
			}
			txn = append(txn, oracle.Stmt{SQL: "CREATE TABLE scratch_of_the_open_transaction (x)"},
				oracle.Stmt{SQL: "WITH RECURSIVE c(x) AS (SELECT 1 UNION ALL SELECT x+1 FROM c WHERE x < 1500) INSERT INTO scratch_of_the_open_transaction SELECT hex(zeroblob(150)) FROM c"})
			res, err := env.O.Script("w2", txn, true)
			sqdb.MustOK(r, t, "open transaction", res, err, len(txn))
			hx, oerr := sqlittle.Open(path)
			if err := env.O.Exec("w2", "ROLLBACK"); err != nil {
				r.Harness(t, "rollback w2: %v", err)
			}
			env.O.Query("w2", "PRAGMA cache_size=2000")
			classes["handle-opened-mid-transaction"] = true
			if oerr != nil {
				continue // refusing to open at that moment is fine
			}
			ok := func() bool {
				defer hx.Close()
				lx := sqlittle.VerifLow(hx)
				if err := lx.RLock(); err != nil {
					fail("lock-error", "handle opened mid-transaction: RLock: %v", err)
					return false
				}
				got, err := lx.Tables()
				lx.RUnlock()
				var want []string
				for _, row := range query("SELECT name FROM sqlite_master WHERE type='table' ORDER BY rowid") {
					want = append(want, fold.Lower(string(row[0].B)))
				}
				if err != nil || strings.Join(got, ",") != strings.Join(want, ",") {
					fail("stale-schema", "a handle opened while another connection was inside a write transaction it later rolled back: Tables() = %d names, %v; SQLite has %d (%v / %v)", len(got), err, len(want), got, want)
					return false
				}
				names := []string{}
				if tm != nil {
					names = append(names, tm.name)
				}
				if s.BigCatalog {
					names = append(names, "filler_07", "filler_41", "filler_30")
				}
				for _, n := range names {
					cols, err := hx.Columns(n)
					if err != nil {
						fail("stale-schema", "a handle opened while another connection was inside a write transaction it later rolled back: Columns(%s): %v", n, err)
						return false
					}
					wantCols := query("SELECT name FROM pragma_table_info('" + n + "') ORDER BY cid")
					if len(cols) != len(wantCols) {
						fail("stale-schema", "a handle opened while another connection was inside a write transaction it later rolled back: Columns(%s) = %v, SQLite has %d columns", n, cols, len(wantCols))
						return false
					}
					want := query("SELECT count(*) FROM " + n)
					cnt := 0
					if err := hx.Select(n, func(sqlittle.Row) { cnt++ }, cols[0]); err != nil || int64(cnt) != want[0][0].I {
						fail("stale-or-wrong-rows", "a handle opened while another connection was inside a write transaction it later rolled back: Select(%s) gives %d rows, %v; SQLite has %d", n, cnt, err, want[0][0].I)
						return false
					}
				}
				return true
			}()
			if !ok {
				return
			}
		case "incr-vacuum":
			if exec("PRAGMA incremental_vacuum") {
				history = append(history, "incr-vacuum")
				note("vacuum")
			}

		// ---------------- reads on the long-lived handles
		case "select", "indexed", "indexed-eq", "rowid", "columns", "pk", "prepared", "select-in-lo-txn", "indexed-in-lo-txn", "select-while-writer-open", "rowid-while-writer-open":
			if tm == nil {
				continue
			}
			tmc := tm
			kind := o.Kind
			b := o.B
			// ...-in-lo-txn: the read starts while the other long-lived handle
			// of this process is inside a read transaction of its own
			inLo := strings.HasSuffix(kind, "-in-lo-txn")
			kind = strings.TrimSuffix(kind, "-in-lo-txn")
			// ...-while-writer-open: the read starts while another connection
			// (synchronous=OFF: its journal has a valid header from the first
			// change on) is inside a write transaction it has not committed -
			// that transaction shows nothing, what was committed before it
			// shows in full
			writerOpen := strings.HasSuffix(kind, "-while-writer-open")
			kind = strings.TrimSuffix(kind, "-while-writer-open")
			read := func() (out string, ok bool) {
				if writerOpen {
					if !w2open {
						if err := env.O.Open("w2", path); err != nil {
							r.Harness(t, "open w2: %v", err)
						}
						w2open = true
						if _, err := env.O.Query("w2", "PRAGMA synchronous=OFF"); err != nil {
							r.Harness(t, "w2 synchronous: %v", err)
						}
					}
					res, err := env.O.Script("w2", []oracle.Stmt{{SQL: "BEGIN IMMEDIATE"}, {SQL: "CREATE TABLE scratch_of_the_open_transaction (x)"}, {SQL: "INSERT INTO scratch_of_the_open_transaction VALUES (1)"}}, true)
					sqdb.MustOK(r, t, "open transaction", res, err, 3)
					defer func() {
						if err := env.O.Exec("w2", "ROLLBACK"); err != nil {
							r.Harness(t, "rollback w2: %v", err)
						}
					}()
					classes["read-while-another-connection-has-an-open-write-transaction"] = true
				}
				if inLo {
					if err := lo.RLock(); err != nil {
						fail("lock-error", "RLock: %v", err)
						return "", false
					}
					defer lo.RUnlock()
					classes["read-while-sibling-handle-in-transaction"] = true
				}
				// (evaluated when the read runs: a repeated read may come after DDL)
				cols := append([]string{}, tmc.cols...)
				dropped := true
				for _, x := range tables {
					if x == tmc {
						dropped = false
					}
				}
				if dropped {
					return "", true
				}
				sel := strings.Join(cols, ", ")
				switch kind {
				case "select":
					want := query(fmt.Sprintf("SELECT %s FROM %s ORDER BY %s", sel, tmc.name, tmc.orderBy()))
					var got [][]interface{}
					err := hi.Select(tmc.name, func(row sqlittle.Row) { got = append(got, append([]interface{}{}, row...)) }, cols...)
					return fmt.Sprint(got), cmpRows("Select("+tmc.name+")", got, err, want)
				case "prepared":
					// a long-lived prepared statement of the database/sql driver
					st := prepared[tmc.name]
					if st == nil {
						var err error
						if st, err = sqldb.Prepare("SELECT * FROM " + tmc.name); err != nil {
							fail("read-error", "Prepare(SELECT * FROM %s): %v", tmc.name, err)
							return "", false
						}
						prepared[tmc.name] = st
					}
					want := query(fmt.Sprintf("SELECT %s FROM %s ORDER BY %s", sel, tmc.name, tmc.orderBy()))
					var got [][]interface{}
					rows, err := st.Query()
					if err == nil {
						gotCols, _ := rows.Columns()
						if strings.Join(gotCols, ",") != strings.Join(cols, ",") {
							rows.Close()
							fail("stale-schema", "prepared SELECT * FROM %s: columns %v; the table has %v", tmc.name, gotCols, cols)
							return "", false
						}
						for rows.Next() {
							dest := make([]interface{}, len(gotCols))
							ptrs := make([]interface{}, len(gotCols))
							for i := range dest {
								ptrs[i] = &dest[i]
							}
							if err = rows.Scan(ptrs...); err != nil {
								break
							}
							got = append(got, dest)
						}
						if err == nil {
							err = rows.Err()
						}
						rows.Close()
					}
					return fmt.Sprint(got), cmpRows("prepared SELECT * FROM "+tmc.name, got, err, want)
				case "indexed":
					if len(tmc.indexes) == 0 {
						return "", true
					}
					ix := tmc.indexes[b%len(tmc.indexes)]
					ob := tmc.baseCols()[1] + " " + effDef(tmc.idxDef[ix]) + ", " + tmc.orderBy()
					want := query(fmt.Sprintf("SELECT %s FROM %s ORDER BY %s", sel, tmc.name, ob))
					var got [][]interface{}
					err := hi.IndexedSelect(tmc.name, ix, func(row sqlittle.Row) { got = append(got, append([]interface{}{}, row...)) }, cols...)
					return fmt.Sprint(got), cmpRows("IndexedSelect("+tmc.name+","+ix+")", got, err, want)
				case "indexed-eq":
					// equality through an index, under the collation the index
					// has now
					if len(tmc.indexes) == 0 {
						return "", true
					}
					{
						ix := tmc.indexes[b%len(tmc.indexes)]
						col := tmc.baseCols()[1]
						vs := query(fmt.Sprintf("SELECT %s FROM %s WHERE %s IS NOT NULL ORDER BY %s LIMIT 1 OFFSET %d", col, tmc.name, col, tmc.orderBy(), b%40))
						if len(vs) != 1 {
							return "", true
						}
						key := vs[0][0]
						if key.T == 't' && b%2 == 0 {
							key = val.Text(strings.ToUpper(string(key.B))) // (the same text to a NOCASE index only)
						}
						coll := "BINARY"
						if tmc.idxDef[ix] == "COLLATE NOCASE" {
							coll = "NOCASE"
						}
						ob := col + " " + effDef(tmc.idxDef[ix]) + ", " + tmc.orderBy()
						// (text travels to the oracle as a blob parameter and is cast back)
						kp := sqdb.TextParam(key)
						want := query(fmt.Sprintf("SELECT %s FROM %s WHERE +%s = %s COLLATE %s AND typeof(%s) = typeof(%s) ORDER BY %s", sel, tmc.name, col, kp, coll, col, kp, ob), key, key)
						var got [][]interface{}
						err := hi.IndexedSelectEq(tmc.name, ix, sqlittle.Key{key.Go()}, func(row sqlittle.Row) { got = append(got, append([]interface{}{}, row...)) }, cols...)
						return fmt.Sprint(got), cmpRows(fmt.Sprintf("IndexedSelectEq(%s,%s [%s],%s)", tmc.name, ix, tmc.idxDef[ix], key), got, err, want)
					}
				case "rowid":
					if tmc.kind == 2 {
						return "", true
					}
					ids := query(fmt.Sprintf("SELECT rowid FROM %s ORDER BY rowid LIMIT 1 OFFSET %d", tmc.name, b%50))
					rid := int64(b)
					if len(ids) == 1 {
						rid = ids[0][0].I
					}
					want := query(fmt.Sprintf("SELECT %s FROM %s WHERE rowid = %d", sel, tmc.name, rid))
					row, err := hi.SelectRowid(tmc.name, rid, cols...)
					var got [][]interface{}
					if row != nil {
						got = append(got, row)
					}
					return fmt.Sprint(got), cmpRows(fmt.Sprintf("SelectRowid(%s,%d)", tmc.name, rid), got, err, want)
				case "pk":
					if tmc.kind != 2 {
						return "", true
					}
					ks := query(fmt.Sprintf("SELECT k FROM %s ORDER BY k LIMIT 1 OFFSET %d", tmc.name, b%50))
					key := "nosuch"
					if len(ks) == 1 {
						key = string(ks[0][0].B)
					}
					want := query(fmt.Sprintf("SELECT %s FROM %s WHERE k = ?", sel, tmc.name), val.Text(key).AsStr())
					var got [][]interface{}
					err := hi.PKSelect(tmc.name, sqlittle.Key{key}, func(row sqlittle.Row) { got = append(got, append([]interface{}{}, row...)) }, cols...)
					return fmt.Sprint(got), cmpRows(fmt.Sprintf("PKSelect(%s,%q)", tmc.name, key), got, err, want)
				default:
					got, err := hi.Columns(tmc.name)
					if err != nil || strings.Join(got, ",") != strings.Join(cols, ",") {
						fail("stale-schema", "Columns(%s) = %v, %v; the table has %v", tmc.name, got, err, cols)
						return "", false
					}
					return fmt.Sprint(got), true
				}
			}
			out, ok := read()
			if !ok {
				return
			}
			// the same read again, nothing written in between: identical
			out2, ok := read()
			if !ok {
				return
			}
			if out != out2 {
				fail("repeat-differs", "%s(%s) twice without a write in between gives different results", kind, tm.name)
				return
			}
			afterRead("hi")
			lastRead = read
		case "repeat":
			if lastRead != nil {
				if _, ok := lastRead(); !ok {
					return
				}
				afterRead("hi")
			}
		case "low-scan", "low-tables", "low-schema", "low-all", "low-all-in-hi-txn":
			body := func() bool {
				if err := lo.RLock(); err != nil {
					fail("lock-error", "RLock: %v", err)
					return false
				}
				defer lo.RUnlock()
				kinds := []string{o.Kind}
				if o.Kind == "low-all-in-hi-txn" {
					kinds = []string{"low-schema", "low-scan", "low-tables"}
				}
				if o.Kind == "low-all" {
					// several reads inside one read transaction
					kinds = []string{"low-schema", "low-scan", "low-tables", "low-scan"}
				}
				for _, kind := range kinds {
					switch kind {
					case "low-tables":
						got, err := lo.Tables()
						var want []string
						for _, row := range query("SELECT name FROM sqlite_master WHERE type='table' ORDER BY rowid") {
							want = append(want, fold.Lower(string(row[0].B)))
						}
						if err != nil || strings.Join(got, ",") != strings.Join(want, ",") {
							fail("stale-schema", "low-level Tables() = %v, %v; SQLite has %v", got, err, want)
							return false
						}
						idx, err := lo.Indexes()
						want = nil
						for _, row := range query("SELECT name FROM sqlite_master WHERE type='index' ORDER BY rowid") {
							want = append(want, fold.Lower(string(row[0].B)))
						}
						if err != nil || strings.Join(idx, ",") != strings.Join(want, ",") {
							fail("stale-schema", "low-level Indexes() = %v, %v; SQLite has %v", idx, err, want)
							return false
						}
					case "low-schema":
						if tm == nil {
							continue
						}
						sch, err := lo.Schema(tm.name)
						if err != nil {
							fail("stale-schema", "low-level Schema(%s): %v", tm.name, err)
							return false
						}
						var got []string
						for _, c := range sch.Columns {
							got = append(got, c.Column)
						}
						var ix []string
						for _, i := range sch.Indexes {
							if !strings.HasPrefix(i.Index, "sqlite_autoindex") {
								ix = append(ix, i.Index)
							}
						}
						if strings.Join(got, ",") != strings.Join(tm.cols, ",") || strings.Join(ix, ",") != strings.Join(tm.indexes, ",") {
							fail("stale-schema", "low-level Schema(%s): columns %v indexes %v; the table has %v and %v", tm.name, got, ix, tm.cols, tm.indexes)
							return false
						}
					default:
						if tm == nil || tm.kind == 2 {
							continue
						}
						tab, err := lo.Table(tm.name)
						if err != nil {
							fail("stale-schema", "low-level Table(%s): %v", tm.name, err)
							return false
						}
						want := query(fmt.Sprintf("SELECT rowid FROM %s ORDER BY rowid", tm.name))
						var got []int64
						err = tab.Scan(func(rowid int64, rec sdb.Record) bool { got = append(got, rowid); return false })
						if err != nil || len(got) != len(want) {
							fail("stale-or-wrong-rows", "low-level Table.Scan(%s): %d rows, %v; SQLite has %d", tm.name, len(got), err, len(want))
							return false
						}
						for i := range want {
							if got[i] != want[i][0].I {
								fail("stale-or-wrong-rows", "low-level Table.Scan(%s): row %d has rowid %d, SQLite %d", tm.name, i, got[i], want[i][0].I)
								return false
							}
						}
					}
				}
				return true
			}
			ok, ran := true, false
			if o.Kind == "low-all-in-hi-txn" && tm != nil {
				// the low-level handle's transaction starts while the high-level
				// handle of this process is inside a Select (in its row callback)
				hi.SelectDone(tm.name, func(sqlittle.Row) bool {
					ran = true
					classes["read-while-sibling-handle-in-transaction"] = true
					ok = body()
					return true
				}, tm.cols[0])
			}
			if !ran {
				ok = body()
			}
			if !ok {
				return
			}
			afterRead("lo")
		}
	}
	pages := int(query("PRAGMA page_count")[0][0].I)
	cls := []string{fmt.Sprintf("ps=%d", s.PageSize), fmt.Sprintf("autovacuum=%d", s.AutoVacuum), fmt.Sprintf("starts-in-schema-format=%d", map[int]int{0: 4, 2: 2, 3: 3}[s.Legacy]), fmt.Sprintf("change-counter-wraps=%v", s.Wrap > 0)}
	for c := range classes {
		cls = append(cls, c)
	}
	if pages > pageCountAtOpen {
		cls = append(cls, "file-grew")
	}
	if pages > 100 {
		cls = append(cls, "more-than-100-pages")
	}
	r.Case(s, nontrivialReads > 0, cls...)
	r.Count("reads-after-a-change-the-handle-had-not-seen", nontrivialReads)
}
