// C01 — table scan returns exactly the table's rows, values and order.
// Differential against real SQLite on files SQLite wrote.
package c01

import (
	"fmt"
	"strings"
	"testing"
	"verif/fold"

	"github.com/alicebob/sqlittle"
	"pgregory.net/rapid"

	"verif/e1"
	"verif/oracle"
	"verif/sqdb"
	"verif/val"
	"verif/vt"
)

var env *sqdb.Env

type spec struct {
	DB      e1.Spec
	ColPick []int // picks the requested columns (index into columns + rowid spellings, with repeats)
}

func TestC01Select(t *testing.T) {
	vt.Exec(t, vt.Check[spec]{
		ID: "C01", Test: "TestC01Select",
		Setup: func(r *vt.Run, t *testing.T) {
			var err error
			if env, err = sqdb.NewEnv(); err != nil {
				r.Harness(t, "env: %v", err)
			}
		},
		Teardown: func() { env.Close() },
		Gen: func(t *rapid.T) spec {
			s := spec{DB: e1.Gen(t, e1.Opts{MaxTables: 2, Indexes: true, History: true, BigRows: vt.Pick(1500, 6000), WideWR: true})}
			n := rapid.IntRange(0, 6).Draw(t, "npick")
			for i := 0; i < n; i++ {
				s.ColPick = append(s.ColPick, rapid.IntRange(0, 60).Draw(t, "pick"))
			}
			return s
		},
		Run: run,
	})
}

func run(r *vt.Run, t vt.TB, s spec) {
	path := env.NewPath()
	defer sqdb.Remove(path)
	created, _ := e1.Build(r, t, env, s.DB, path)
	any := false
	for _, c := range created {
		any = any || c
	}
	if !any {
		r.Exclude("sqlite-rejects-every-create-table")
		return
	}
	if err := env.O.Open("q", path); err != nil {
		r.Harness(t, "open for queries: %v", err)
	}
	defer env.O.Close("q")
	pages, err := env.O.Query("q", "PRAGMA page_count")
	if err != nil {
		r.Harness(t, "page_count: %v", err)
	}
	db, err := sqlittle.Open(path)
	if err != nil {
		r.Violation(t, s, "open-error", "a database written by SQLite does not open: %v", err)
		return
	}
	defer db.Close()
	low := sqlittle.VerifLow(db)
	classes := []string{fmt.Sprintf("ps=%d", s.DB.PageSize), fmt.Sprintf("autovacuum=%d", s.DB.AutoVacuum)}
	nontrivial := false
	for ti, ts := range s.DB.Tables {
		if !created[ti] {
			r.Exclude("sqlite-rejects-create-table")
			continue
		}
		name := ts.Def.Ident.Name
		cat := e1.ReadCatalog(r, t, env.O, "q", name)
		hidden := false
		for _, c := range cat.Columns {
			if c.Hidden != 0 {
				hidden = true
			}
		}
		// the columns to ask for
		var all []string
		for _, c := range cat.Columns {
			if c.Hidden == 0 {
				all = append(all, c.Name)
			}
		}
		cols := append([]string{}, all...)
		if len(s.ColPick) > 0 {
			cols = cols[:0]
			pool := append(append([]string{}, all...), "rowid", "oid", "_rowid_", "ROWID", "OID")
			if cat.WithoutRowid {
				pool = all
			}
			for _, p := range s.ColPick {
				c := pool[p%len(pool)]
				if (p/len(pool))%3 == 1 {
					// identifiers are case-insensitive: ask in the other case
					b := []byte(c)
					for i, ch := range b {
						switch {
						case ch >= 'a' && ch <= 'z':
							b[i] = ch - 'a' + 'A'
						case ch >= 'A' && ch <= 'Z':
							b[i] = ch - 'A' + 'a'
						}
					}
					c = string(b)
				}
				cols = append(cols, c)
			}
		}
		// does sqlittle interpret the definition?
		_, schemaErr := low.Schema(name)
		var got [][]interface{}
		selErr := db.Select(name, func(row sqlittle.Row) {
			got = append(got, append([]interface{}{}, row...))
		}, cols...)
		// the same call again on the same handle (whatever the first one
		// cached or left behind must not change the answer)
		var again [][]interface{}
		againErr := db.Select(name, func(row sqlittle.Row) {
			again = append(again, append([]interface{}{}, row...))
		}, cols...)
		if (againErr == nil) != (selErr == nil) || len(again) != len(got) {
			r.Violation(t, s, "second-select-differs", "table %q: Select(%v) gives %d rows, err %v; the same call again on the same handle %d rows, err %v", name, cols, len(got), selErr, len(again), againErr)
			return
		}
		for i := range got {
			if e1.ShowGot(got[i]) != e1.ShowGot(again[i]) {
				r.Violation(t, s, "second-select-differs", "table %q: row %d of Select(%v) is %s, in the same call again on the same handle %s", name, i, cols, e1.ShowGot(got[i]), e1.ShowGot(again[i]))
				return
			}
		}
		kind := "rowid"
		if cat.WithoutRowid {
			kind = "without-rowid"
		}
		if schemaErr != nil {
			classes = append(classes, "table:"+kind+":definition-rejected")
			if ts.Def.Lead == "" && isCore(ts) {
				r.Count("core-grammar-rejected", 1)
			}
			if len(got) > 0 {
				r.Violation(t, s, "rows-despite-uninterpretable-definition", "table %q: Schema fails (%v) but Select delivered %d rows", name, schemaErr, len(got))
				return
			}
			// it has to be the table's own definition that is not understood:
			// an index the library cannot interpret is left out (C10), and no
			// other object of the file makes this table unreadable. The same
			// table alone in a file must be refused as well.
			if msg := refusedBecauseOfAnIndex(r, t, path, name); msg != "" {
				r.Violation(t, s, "table-unreadable-because-of-another-object", "table %q (%s): Schema/Select fail with %v / %v; %s", name, ts.Def.SQL(), schemaErr, selErr, msg)
				return
			}
			continue
		}
		if isCore(ts) {
			r.Count("core-grammar-accepted", 1)
		}
		if hidden {
			// generated columns: sqlittle should have rejected the definition
			classes = append(classes, "table:generated-columns-accepted")
		}
		orderBy, ok := cat.OrderByTable()
		if !ok {
			r.Exclude("rowid-fully-shadowed")
			continue
		}
		var sel []string
		for _, c := range cols {
			switch fold.Lower(c) {
			case "rowid", "oid", "_rowid_":
				// a real column of that name wins, in SQLite and in sqlittle
				sel = append(sel, c)
			default:
				sel = append(sel, e1.QIdent(c))
			}
		}
		want, err := env.O.Query("q", "SELECT "+strings.Join(sel, ", ")+" FROM "+e1.QIdent(name)+" ORDER BY "+orderBy)
		if err != nil {
			r.Harness(t, "reference select on %q: %v", name, err)
		}
		short := false
		for _, h := range s.DB.History {
			if strings.HasPrefix(h, "ALTER TABLE "+ts.Def.Ident.SQL+" ") {
				short = true
			}
		}
		multi := pages[0][0].I > int64(2+len(s.DB.Tables)*2)
		overflow := false
		for _, row := range want {
			n := 0
			for _, v := range row {
				n += len(v.B) + 8
			}
			if n > s.DB.PageSize-35 {
				overflow = true
			}
		}
		classes = append(classes, "table:"+kind, fmt.Sprintf("rows<=%d", bucket(len(want))))
		if short {
			classes = append(classes, "table:altered")
		}
		if overflow {
			classes = append(classes, "table:overflow")
		}
		if len(want) > 0 && (multi || overflow || short || cat.WithoutRowid) {
			nontrivial = true
		}
		if selErr != nil {
			r.Violation(t, s, "select-error:"+kind, "table %q (%s): definition accepted, Select(%v) fails: %v (SQLite returns %d rows)", name, ts.Def.SQL(), cols, selErr, len(want))
			return
		}
		if len(got) != len(want) {
			r.Violation(t, s, "row-count:"+kind, "table %q (%s): Select(%v) delivers %d rows, SQLite %d", name, ts.Def.SQL(), cols, len(got), len(want))
			return
		}
		for i := range want {
			if !e1.SameRow(got[i], want[i]) {
				sig := "row-differs:" + kind
				if short {
					sig += ":altered"
				}
				if e1.RawDefault(cat, cols, got[i], want[i]) {
					// the specific known shape: a short row completed with the
					// DEFAULT literal as written, without the column's affinity
					sig = e1.KnownRawDefault
				}
				r.Violation(t, s, sig, "table %q (%s) history %v: row %d of Select(%v) is %s, SQLite returns %s", name, ts.Def.SQL(), s.DB.History, i, cols, e1.ShowGot(got[i]), want[i])
				return
			}
		}
	}
	r.Case(s, nontrivial, classes...)
}

func bucket(n int) int {
	for _, b := range []int{0, 10, 100, 1000, 10000} {
		if n <= b {
			return b
		}
	}
	return 100000
}

// isCore: the table was generated from the conservative grammar.
func isCore(ts e1.TableSpec) bool {
	for _, c := range ts.Def.Cols {
		for _, k := range c.Cons {
			if strings.Contains(k, "GENERATED") || strings.Contains(k, "AS (") || strings.Contains(k, "CONSTRAINT") || strings.Contains(k, "ON CONFLICT") ||
				strings.Contains(k, "MATCH") || strings.Contains(k, "CURRENT_") || strings.Contains(k, "DEFAULT (") || strings.Contains(k, "DEFAULT x'") ||
				strings.Contains(k, "DEFAULT 1.5") || strings.Contains(k, "DEFAULT -2.25") || strings.Contains(k, "DEFAULT 1e3") || strings.Contains(k, " IS ") || strings.Contains(k, " IN (") {
				return false
			}
		}
		if strings.Contains(c.Type, " ") || strings.Contains(c.Type, "+") || strings.Contains(c.Type, "-") {
			return false
		}
	}
	return true
}

var _ = val.Null

// refusedBecauseOfAnIndex: name is refused in the file at path. Is it the
// table's own definition that is not understood? SQLite makes a new file that
// holds nothing but this table (its CREATE TABLE text as stored now); if the
// library accepts the table there, something else in the original file - an
// index outside the grammar, a view, a trigger, a virtual table, another
// table - made it unreadable, and the message says what the file holds.
func refusedBecauseOfAnIndex(r *vt.Run, t vt.TB, path, name string) string {
	rows, err := env.O.Query("q", "SELECT sql FROM sqlite_master WHERE type = 'table' AND lower(name) = lower(?)", val.Text(name).AsStr())
	if err != nil {
		r.Harness(t, "stored definition: %v", err)
	}
	if len(rows) != 1 || rows[0][0].T != 't' {
		return ""
	}
	r.Count("refused-tables-retried-alone-in-a-file", 1)
	alone := env.NewPath()
	defer sqdb.Remove(alone)
	res, err := env.Create("alone", alone, 1024, 0, []oracle.Stmt{{SQL: string(rows[0][0].B)}})
	env.O.Close("alone")
	if err != nil {
		r.Harness(t, "file with the table alone: %v", err)
	}
	for _, x := range res {
		if x.Err != "" {
			return "" // (SQLite does not take the text on its own: refers to something else)
		}
	}
	d2, err := sqlittle.Open(alone)
	if err != nil {
		return ""
	}
	defer d2.Close()
	if _, err := sqlittle.VerifLow(d2).Schema(name); err != nil {
		return ""
	}
	if err := d2.Select(name, func(sqlittle.Row) {}); err != nil {
		return ""
	}
	others, _ := env.O.Query("q", "SELECT type || ' ' || name FROM sqlite_master WHERE lower(name) <> lower(?) ORDER BY rowid", val.Text(name).AsStr())
	var names []string
	for _, o := range others {
		names = append(names, string(o[0].B))
	}
	return fmt.Sprintf("in a file that holds nothing but this table the same definition is accepted; the original file also holds %q", names)
}
