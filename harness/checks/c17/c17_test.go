// C17 — stopping a scan early yields an exact prefix and ends the
// transaction. Every stop position k = 1..n is enumerated for every
// operation that has a stop signal, on builder trees of chosen shape.
package c17

import (
	"fmt"
	"testing"

	"github.com/alicebob/sqlittle"
	sdb "github.com/alicebob/sqlittle/db"
	"pgregory.net/rapid"

	"verif/bt"
	"verif/btgen"
	"verif/pagers"
	"verif/refcmp"
	"verif/sqdb"
	"verif/val"
	"verif/vt"
)

var env *sqdb.Env

type spec struct {
	Img  bt.Image
	Seed uint64
}

// op runs an operation with a callback that gets the row rendered as a string
// and says whether to stop.
type op struct {
	name string
	run  func(cb func(row string) bool) error
	high bool // takes the read lock itself
}

// keeper remembers the rows a scan hands to its callback - the values
// themselves, not copies: they are documented to stay valid for the rest of
// the transaction - and looks at all of them again when the scan is asked to
// stop (and every 50 rows): a row delivered earlier must not have changed.
type keeper struct {
	rowids []int64
	rows   [][]interface{}
	text   []string
}

var rowChanged string // set by a keeper, read after the operation returned

func newKeeper() *keeper { return &keeper{} }

func (k *keeper) see(rowid int64, rec []interface{}, cb func(string) bool) bool {
	s := render(rowid, rec)
	k.rowids, k.rows, k.text = append(k.rowids, rowid), append(k.rows, rec), append(k.text, s)
	stop := cb(s)
	if stop || len(k.rows)%50 == 0 {
		n := len(k.rows)
		for i := range k.rows {
			if n > 80 && !(i < 8 || i >= n-72 || i%7 == 0) {
				continue // (long results: the first rows, the last 72 and every seventh)
			}
			if now := render(k.rowids[i], k.rows[i]); now != k.text[i] && rowChanged == "" {
				rowChanged = fmt.Sprintf("row %d of %d delivered so far was %s when the callback got it and is %s now (the call has not returned yet)", i+1, len(k.rows), k.text[i], now)
			}
		}
	}
	return stop
}

func render(rowid int64, rec []interface{}) string {
	vs, ok := bt.RecordVals(sdb.Record(rec))
	if !ok {
		return fmt.Sprintf("%d:?%v", rowid, rec)
	}
	return fmt.Sprintf("%d:%s", rowid, val.Row(vs))
}

func TestC17EarlyStop(t *testing.T) {
	vt.Exec(t, vt.Check[spec]{
		ID: "C17", Test: "TestC17EarlyStop",
		Setup: func(r *vt.Run, t *testing.T) {
			var err error
			if env, err = sqdb.NewEnv(); err != nil {
				r.Harness(t, "env: %v", err)
			}
		},
		Teardown: func() { env.Close() },
		Gen: func(t *rapid.T) spec {
			return spec{Img: btgen.Image(t, btgen.Opts{MaxRows: rapid.SampledFrom([]int{40, 40, 40, 40, 40, 40, 170}).Draw(t, "maxrows"), Indexes: true, WR: true, LongValues: true, RowidAlias: true}), Seed: rapid.Uint64().Draw(t, "seed")}
		},
		Run: run,
	})
}

func run(r *vt.Run, t vt.TB, s spec) {
	built, err := bt.Build(&s.Img)
	if err != nil {
		r.Exclude("layout-impossible")
		return
	}
	fail := func(sig, format string, args ...interface{}) {
		problem := fmt.Sprintf(format, args...)
		diff, err := bt.SQLiteAgrees(env.O, env.Dir, built)
		if err != nil {
			r.Harness(t, "cross validation failed to run: %v (sqlittle: %s)", err, problem)
		}
		if diff != "" {
			r.Harness(t, "builder and SQLite disagree about the image (%s); sqlittle: %s", diff, problem)
		}
		r.Violation(t, s, sig, "%s", problem)
	}
	mem := pagers.NewMem(built.Img)
	d, err := sdb.VerifOpen(mem, "")
	if err != nil {
		fail("open", "open: %v", err)
		return
	}
	defer d.Close()
	hl := sqlittle.VerifWrap(d)
	tt := built.Tables["t"]
	rs := s.Seed
	next := func(n int) int {
		rs = rs*6364136223846793005 + 1442695040888963407
		if n <= 0 {
			return 0
		}
		return int((rs >> 33) % uint64(n))
	}
	var ops []op
	tab, err := d.Table("t")
	if err != nil {
		fail("open", "Table(t): %v", err)
		return
	}
	ops = append(ops, op{name: "Table.Scan(t)", run: func(cb func(string) bool) error {
		k := newKeeper()
		return tab.Scan(func(rowid int64, rec sdb.Record) bool { return k.see(rowid, rec, cb) })
	}})
	cols := append([]string{"rowid"}, tt.Spec.ColNames()...)
	ops = append(ops, op{name: "SelectDone(t)", high: true, run: func(cb func(string) bool) error {
		k := newKeeper()
		return hl.SelectDone("t", func(row sqlittle.Row) bool { return k.see(0, row, cb) }, cols...)
	}})
	// the naive join: a lookup on the same handle from inside the row
	// callback. The handle is busy, the lookup is refused - and the scan goes
	// on, stops where it is told to and gives its lock back all the same.
	ops = append(ops, op{name: "SelectDone(t) whose callback tries a lookup on the same handle", high: true, run: func(cb func(string) bool) error {
		k := newKeeper()
		n := 0
		mem.RefuseNested = true
		defer func() { mem.RefuseNested = false }()
		return hl.SelectDone("t", func(row sqlittle.Row) bool {
			n++
			if n%3 == 1 {
				func() {
					defer func() { recover() }()
					hl.SelectRowid("t", 1, "rowid")
				}()
			}
			return k.see(0, row, cb)
		}, cols...)
	}})
	addIndexOps := func(name string, ix *sdb.Index, entries []bt.Entry, attrs []refcmp.KeyCol) {
		ops = append(ops, op{name: "Index.Scan(" + name + ")", run: func(cb func(string) bool) error {
			k := newKeeper()
			return ix.Scan(func(rec sdb.Record) bool { return k.see(0, rec, cb) })
		}})
		mk := func(vs []val.V) sdb.Key {
			var k sdb.Key
			for i, v := range vs {
				kc := sdb.KeyCol{V: v.Go()}
				if i < len(attrs) {
					kc.Collate, kc.Desc = attrs[i].Collate, attrs[i].Desc
				}
				k = append(k, kc)
			}
			return k
		}
		ops = append(ops, op{name: "ScanMin(" + name + ", {})", run: func(cb func(string) bool) error {
			k := newKeeper()
			return ix.ScanMin(sdb.Key{}, func(rec sdb.Record) bool { return k.see(0, rec, cb) })
		}})
		ops = append(ops, op{name: "ScanEq(" + name + ", {})", run: func(cb func(string) bool) error {
			k := newKeeper()
			return ix.ScanEq(sdb.Key{}, func(rec sdb.Record) bool { return k.see(0, rec, cb) })
		}})
		if len(entries) > 0 {
			a := entries[next(len(entries))].Values
			b := entries[next(len(entries))].Values
			ka, kb, k1 := mk(a[:1]), mk(b), mk(a[:1])
			ops = append(ops, op{name: fmt.Sprintf("ScanMin(%s, %v)", name, val.Row(a[:1])), run: func(cb func(string) bool) error {
				k := newKeeper()
				return ix.ScanMin(ka, func(rec sdb.Record) bool { return k.see(0, rec, cb) })
			}})
			ops = append(ops, op{name: fmt.Sprintf("ScanEq(%s, %v)", name, val.Row(a[:1])), run: func(cb func(string) bool) error {
				k := newKeeper()
				return ix.ScanEq(k1, func(rec sdb.Record) bool { return k.see(0, rec, cb) })
			}})
			ops = append(ops, op{name: fmt.Sprintf("ScanRange(%s, %v, %v)", name, val.Row(a[:1]), val.Row(b)), run: func(cb func(string) bool) error {
				k := newKeeper()
				return ix.ScanRange(ka, kb, func(rec sdb.Record) bool { return k.see(0, rec, cb) })
			}})
			ops = append(ops, op{name: fmt.Sprintf("ScanRange(%s, {}, %v)", name, val.Row(b)), run: func(cb func(string) bool) error {
				k := newKeeper()
				return ix.ScanRange(sdb.Key{}, kb, func(rec sdb.Record) bool { return k.see(0, rec, cb) })
			}})
		}
	}
	maxDepth := tt.Shape.Depth
	for name, bi := range tt.Indexes {
		ix, err := d.Index(name)
		if err != nil {
			fail("open", "Index(%s): %v", name, err)
			return
		}
		addIndexOps(name, ix, bi.Entries, bi.Key)
		if bi.Shape.Depth > maxDepth {
			maxDepth = bi.Shape.Depth
		}
	}
	if w := built.Tables["w"]; w != nil {
		ix, err := d.NonRowidTable("w")
		if err != nil {
			fail("open", "NonRowidTable(w): %v", err)
			return
		}
		attrs := w.PKKey // (DESC is ignored in files of a schema format before 4)
		addIndexOps("w", ix, w.Entries, attrs)
		ops = append(ops, op{name: "SelectDone(w)", high: true, run: func(cb func(string) bool) error {
			k := newKeeper()
			return hl.SelectDone("w", func(row sqlittle.Row) bool { return k.see(0, row, cb) }, w.Spec.ColNames()...)
		}})
		for name, bi := range w.Indexes {
			ix, err := d.Index(name)
			if err != nil {
				fail("open", "Index(%s): %v", name, err)
				return
			}
			addIndexOps(name, ix, bi.Entries, bi.Key)
			if bi.Shape.Depth > maxDepth {
				maxDepth = bi.Shape.Depth
			}
		}
		if w.IShape.Depth > maxDepth {
			maxDepth = w.IShape.Depth
		}
	}
	stops := 0
	for _, o := range ops {
		var full []string
		if err := o.run(func(row string) bool { full = append(full, row); return false }); err != nil {
			fail("full:error", "%s: full run fails: %v", o.name, err)
			return
		}
		if rowChanged != "" {
			msg := rowChanged
			rowChanged = ""
			fail("full:row-changed", "%s, run to the end: %s", o.name, msg)
			return
		}
		for k := 1; k <= len(full); k++ {
			stops++
			var got []string
			calls := 0
			locks0, unlocks0, outside0 := mem.Locks, mem.Unlocks, mem.ReadOutsideLock
			err := o.run(func(row string) bool {
				calls++
				got = append(got, row)
				return calls >= k // keeps asking to stop if it is called again
			})
			if err != nil {
				fail("stop:error", "%s stopped at row %d of %d: returned error %v", o.name, k, len(full), err)
				return
			}
			if rowChanged != "" {
				msg := rowChanged
				rowChanged = ""
				fail("stop:row-changed", "%s stopped at row %d of %d: %s", o.name, k, len(full), msg)
				return
			}
			if calls != k {
				fail("stop:calls", "%s stopped at row %d of %d: callback ran %d times", o.name, k, len(full), calls)
				return
			}
			for i := 0; i < k; i++ {
				if got[i] != full[i] {
					fail("stop:prefix", "%s stopped at row %d: row %d is %s, in the full result it is %s", o.name, k, i, got[i], full[i])
					return
				}
			}
			if o.high {
				if mem.Locked != 0 || mem.Locks-locks0 != 1 || mem.Unlocks-unlocks0 != 1 {
					fail("stop:lock", "%s stopped at row %d: lock count after return %d (locks %d, unlocks %d)", o.name, k, mem.Locked, mem.Locks-locks0, mem.Unlocks-unlocks0)
					return
				}
				if mem.ReadOutsideLock != outside0 {
					fail("stop:read-outside-lock", "%s stopped at row %d: %d page reads outside the lock", o.name, k, mem.ReadOutsideLock-outside0)
					return
				}
			}
		}
	}
	r.Case(s, maxDepth >= 2 && stops > 0, fmt.Sprintf("maxdepth=%d", maxDepth), fmt.Sprintf("ps=%d", s.Img.PageSize))
	r.Count("stop-positions", stops)
	r.Count("operations", len(ops))
	if vt.Sampled(s, 10) {
		diff, err := bt.SQLiteAgrees(env.O, env.Dir, built)
		if err != nil {
			r.Harness(t, "cross validation: %v", err)
		}
		if diff != "" {
			r.Harness(t, "builder and SQLite disagree: %s", diff)
		}
		r.Count("sqlite-validated", 1)
	}
}
