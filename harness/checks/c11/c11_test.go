// C11 — values compare in SQLite's order.
//
// Oracles: real SQLite (every grid pair, one batched query per collation) and
// refcmp (random values), refcmp itself being validated against SQLite on the
// grid in the same run. Observed through the public db.Equals / db.Search.
package c11

import (
	"fmt"
	"os"
	"path/filepath"
	"testing"

	sdb "github.com/alicebob/sqlittle/db"
	"pgregory.net/rapid"

	"verif/gen"
	"verif/grid"
	"verif/oracle"
	"verif/refcmp"
	"verif/val"
	"verif/vt"
)

// sqSign observes sqlittle's comparison of a with b through the public
// predicates. Search(key{a}, rec{b}) is "b >= a" (ascending) or "b <= a"
// (descending); Equals is a == b.
func sqSign(a, b val.V, coll string) (sign int, problem string) {
	defer func() {
		if p := recover(); p != nil {
			sign, problem = 0, fmt.Sprintf("panic: %v", p)
		}
	}()
	c := coll
	if c == refcmp.Binary && (len(a.B)+len(b.B))%2 == 0 {
		c = "" // empty collation name means binary as well
	}
	rec := sdb.Record{b.Go()}
	ge := sdb.Search(sdb.Key{{V: a.Go(), Collate: c}}, rec)
	le := sdb.Search(sdb.Key{{V: a.Go(), Collate: c, Desc: true}}, rec)
	eq := sdb.Equals(sdb.Key{{V: a.Go(), Collate: c}}, rec)
	eqd := sdb.Equals(sdb.Key{{V: a.Go(), Collate: c, Desc: true}}, rec)
	switch {
	case eq != eqd:
		return 0, "Equals depends on Desc"
	case !ge && !le:
		return 0, "record neither >= nor <= key"
	case eq != (ge && le):
		return 0, fmt.Sprintf("Equals=%v but Search asc=%v desc=%v", eq, ge, le)
	case ge && le:
		return 0, ""
	case ge:
		return -1, "" // b > a
	default:
		return 1, ""
	}
}

type pairSpec struct {
	A, B val.V
	Coll string
}

func sigOf(a, b val.V, coll string) string {
	x, y := a.T, b.T
	if x > y {
		x, y = y, x
	}
	return fmt.Sprintf("cmp:%c%c:%s", x, y, coll)
}

func nontrivialPair(a, b val.V) bool {
	rank := func(v val.V) int {
		switch v.T {
		case 'n':
			return 0
		case 'i', 'r':
			return 1
		case 't':
			return 2
		}
		return 3
	}
	return rank(a) == rank(b) && !a.Equal(b)
}

func checkPair(r *vt.Run, t vt.TB, s pairSpec, want int) {
	got, problem := sqSign(s.A, s.B, s.Coll)
	if problem != "" {
		r.Violation(t, s, sigOf(s.A, s.B, s.Coll)+":inconsistent", "%s vs %s under %s: %s", s.A, s.B, s.Coll, problem)
		return
	}
	if got != want {
		r.Violation(t, s, sigOf(s.A, s.B, s.Coll), "compare(%s, %s) under %s: sqlittle sign %d, SQLite sign %d", s.A, s.B, s.Coll, got, want)
	}
}

// TestC11Grid: every ordered pair of the grid x every collation that can
// matter, against real SQLite; validates refcmp on the way.
func TestC11Grid(t *testing.T) {
	r := vt.Begin("C11", "TestC11Grid")
	defer r.End()
	if os.Getenv("VERIF_REPLAY") != "" {
		t.Skip("grid enumeration has no replay form; failing pairs replay through TestC11Pairs")
	}
	shard, _ := vt.Shard()
	if shard != 0 {
		t.Skip("grid runs on shard 0 only")
	}
	o, err := oracle.Start()
	if err != nil {
		r.Harness(t, "oracle: %v", err)
	}
	defer o.Stop()
	dir := t.TempDir()
	path := filepath.Join(dir, "grid.db")
	if err := o.Open("g", path); err != nil {
		r.Harness(t, "open: %v", err)
	}
	g := grid.All()
	stmts := []oracle.Stmt{{SQL: "CREATE TABLE g(id INTEGER PRIMARY KEY, v)"}, {SQL: "BEGIN"}}
	for i, v := range g {
		sql := "INSERT INTO g VALUES(?, ?)"
		if v.T == 't' {
			sql = "INSERT INTO g VALUES(?, CAST(? AS TEXT))"
		}
		stmts = append(stmts, oracle.Stmt{SQL: sql, Params: []val.V{val.Int(int64(i)), v}})
	}
	stmts = append(stmts, oracle.Stmt{SQL: "COMMIT"})
	res, err := o.Script("g", stmts, true)
	if err != nil {
		r.Harness(t, "script: %v", err)
	}
	for _, x := range res {
		if !x.Ok {
			r.Harness(t, "grid insert: %s", x.Err)
		}
	}
	// the values must have been stored as sent (oracle transport self-check)
	back, err := o.Query("g", "SELECT v FROM g ORDER BY id")
	if err != nil || len(back) != len(g) {
		r.Harness(t, "grid read back: %v (%d rows)", err, len(back))
	}
	for i := range g {
		if !back[i][0].Equal(g[i]) {
			r.Harness(t, "grid value %d stored as %s, sent %s", i, back[i][0], g[i])
		}
	}
	refDisagree := 0
	for _, coll := range refcmp.Collations {
		where := "a.v IS NOT NULL AND b.v IS NOT NULL"
		if coll != refcmp.Binary {
			where = "typeof(a.v)='text' AND typeof(b.v)='text'"
		}
		rows, err := o.Query("g", fmt.Sprintf(
			"SELECT a.id, b.id, a.v < b.v COLLATE %s, a.v = b.v COLLATE %s FROM g a, g b WHERE %s", coll, coll, where))
		if err != nil {
			r.Harness(t, "pair query: %v", err)
		}
		for _, row := range rows {
			i, j := int(row[0].I), int(row[1].I)
			want := 1
			if row[2].I == 1 {
				want = -1
			} else if row[3].I == 1 {
				want = 0
			}
			a, b := g[i], g[j]
			if rc := refcmp.Compare(a, b, coll); rc != want {
				refDisagree++
				r.Harness(t, "refcmp disagrees with SQLite: %s vs %s under %s: refcmp %d, SQLite %d", a, b, coll, rc, want)
			}
			r.CaseKey(uint64(i)<<32|uint64(j)<<8|uint64(coll[0]), nontrivialPair(a, b), fmt.Sprintf("grid:%c%c:%s", a.T, b.T, coll),
				func() interface{} { return pairSpec{a, b, coll} })
			checkPair(r, t, pairSpec{a, b, coll}, want)
		}
	}
	// NULL handling and the total order: SQLite's ORDER BY must be
	// non-decreasing under refcmp, NULL first.
	for _, coll := range refcmp.Collations {
		rows, err := o.Query("g", fmt.Sprintf("SELECT id FROM g ORDER BY v COLLATE %s", coll))
		if err != nil {
			r.Harness(t, "order query: %v", err)
		}
		for k := 1; k < len(rows); k++ {
			a, b := g[rows[k-1][0].I], g[rows[k][0].I]
			if refcmp.Compare(a, b, coll) > 0 {
				r.Harness(t, "refcmp disagrees with ORDER BY: %s sorts before %s under %s", a, b, coll)
			}
		}
		if g[rows[0][0].I].T != 'n' {
			r.Harness(t, "NULL does not sort first in SQLite?")
		}
	}
	// pairs with NULL, by refcmp (now validated)
	for i, a := range g {
		for _, pair := range [][2]val.V{{val.Null(), a}, {a, val.Null()}} {
			want := refcmp.Compare(pair[0], pair[1], refcmp.Binary)
			r.CaseKey(uint64(i)<<1|uint64(pair[0].T&1)|1<<60, false, "grid:null", nil)
			checkPair(r, t, pairSpec{pair[0], pair[1], refcmp.Binary}, want)
		}
	}
	r.Extra("grid_size", len(g))
	r.Extra("refcmp_validated_against_sqlite", true)
}

// TestC11Pairs: random pairs (second value often a neighbour of the first)
// against refcmp; antisymmetry checked on sqlittle's own answers.
func TestC11Pairs(t *testing.T) {
	vt.Exec(t, vt.Check[pairSpec]{
		ID: "C11", Test: "TestC11Pairs",
		Gen: func(t *rapid.T) pairSpec {
			a := gen.Value().Draw(t, "a")
			var b val.V
			if rapid.IntRange(0, 2).Draw(t, "near") > 0 {
				b = gen.Near(a).Draw(t, "b")
			} else {
				b = gen.Value().Draw(t, "b")
			}
			if rapid.Bool().Draw(t, "swap") {
				a, b = b, a
			}
			return pairSpec{a, b, rapid.SampledFrom(refcmp.Collations).Draw(t, "coll")}
		},
		Run: func(r *vt.Run, t vt.TB, s pairSpec) {
			r.Case(s, nontrivialPair(s.A, s.B), fmt.Sprintf("pair:%c%c:%s", s.A.T, s.B.T, s.Coll))
			want := refcmp.Compare(s.A, s.B, s.Coll)
			checkPair(r, t, s, want)
			checkPair(r, t, pairSpec{s.B, s.A, s.Coll}, -want)
		},
	})
}

type tripleSpec struct {
	A, B, C val.V
	Coll    string
}

// TestC11Triples: the relation is a total preorder — transitivity of <= on
// sqlittle's own answers (no oracle needed), for triples of near values.
func TestC11Triples(t *testing.T) {
	vt.Exec(t, vt.Check[tripleSpec]{
		ID: "C11", Test: "TestC11Triples",
		Gen: func(t *rapid.T) tripleSpec {
			a := gen.Value().Draw(t, "a")
			b := gen.Near(a).Draw(t, "b")
			c := gen.Near(rapid.SampledFrom([]val.V{a, b}).Draw(t, "base")).Draw(t, "c")
			vs := rapid.Permutation([]val.V{a, b, c}).Draw(t, "perm")
			return tripleSpec{vs[0], vs[1], vs[2], rapid.SampledFrom(refcmp.Collations).Draw(t, "coll")}
		},
		Run: func(r *vt.Run, t vt.TB, s tripleSpec) {
			nt := nontrivialPair(s.A, s.B) && nontrivialPair(s.B, s.C)
			r.Case(s, nt, fmt.Sprintf("triple:%c%c%c:%s", s.A.T, s.B.T, s.C.T, s.Coll))
			ab, p1 := sqSign(s.A, s.B, s.Coll)
			bc, p2 := sqSign(s.B, s.C, s.Coll)
			ac, p3 := sqSign(s.A, s.C, s.Coll)
			if p1+p2+p3 != "" {
				r.Violation(t, s, "triple:inconsistent", "%s %s %s", p1, p2, p3)
				return
			}
			// a<=b and b<=c  =>  a<=c ; and strictness is kept
			if ab <= 0 && bc <= 0 {
				if ac > 0 || ((ab < 0 || bc < 0) && ac == 0) {
					r.Violation(t, s, "triple:transitivity", "not transitive under %s: %s (%d) %s (%d) %s, but a?c = %d", s.Coll, s.A, ab, s.B, bc, s.C, ac)
				}
			}
			if ab >= 0 && bc >= 0 {
				if ac < 0 || ((ab > 0 || bc > 0) && ac == 0) {
					r.Violation(t, s, "triple:transitivity", "not transitive under %s: %s (%d) %s (%d) %s, but a?c = %d", s.Coll, s.A, ab, s.B, bc, s.C, ac)
				}
			}
		},
	})
}

type keyColSpec struct {
	V    val.V
	Coll string
	Desc bool
}

type keySpec struct {
	Key []keyColSpec
	Rec []val.V
}

// TestC11Keys: multi-column keys of every prefix length against records
// shorter, equal and longer; Equals and Search vs the lexicographic reference
// with per-column collation and DESC.
func TestC11Keys(t *testing.T) {
	vt.Exec(t, vt.Check[keySpec]{
		ID: "C11", Test: "TestC11Keys",
		Gen: func(t *rapid.T) keySpec {
			n := rapid.IntRange(0, 4).Draw(t, "ncols")
			var s keySpec
			for i := 0; i < n; i++ {
				s.Key = append(s.Key, keyColSpec{
					V:    gen.Value().Draw(t, "kv"),
					Coll: rapid.SampledFrom([]string{"", "binary", "nocase", "rtrim"}).Draw(t, "kc"),
					Desc: rapid.Bool().Draw(t, "kd"),
				})
			}
			m := rapid.IntRange(0, n+2).Draw(t, "nrec")
			for i := 0; i < m; i++ {
				if i < n {
					switch rapid.IntRange(0, 3).Draw(t, "rk") {
					case 0, 1:
						s.Rec = append(s.Rec, s.Key[i].V)
					case 2:
						s.Rec = append(s.Rec, gen.Near(s.Key[i].V).Draw(t, "rn"))
					default:
						s.Rec = append(s.Rec, gen.Value().Draw(t, "rv"))
					}
				} else {
					s.Rec = append(s.Rec, gen.Value().Draw(t, "rx"))
				}
			}
			return s
		},
		Run: func(r *vt.Run, t vt.TB, s keySpec) {
			var key sdb.Key
			var rk []refcmp.KeyCol
			var rec sdb.Record
			for _, k := range s.Key {
				key = append(key, sdb.KeyCol{V: k.V.Go(), Collate: k.Coll, Desc: k.Desc})
				rk = append(rk, refcmp.KeyCol{V: k.V, Collate: k.Coll, Desc: k.Desc})
			}
			for _, v := range s.Rec {
				rec = append(rec, v.Go())
			}
			cls := "keys:len="
			switch {
			case len(s.Rec) < len(s.Key):
				cls += "short"
			case len(s.Rec) == len(s.Key):
				cls += "equal"
			default:
				cls += "long"
			}
			anyDesc := false
			for _, k := range s.Key {
				anyDesc = anyDesc || k.Desc
			}
			r.Case(s, len(s.Key) >= 2, cls, fmt.Sprintf("keys:ncols=%d", len(s.Key)), fmt.Sprintf("keys:desc=%v", anyDesc))
			var eq, ge bool
			func() {
				defer func() {
					if p := recover(); p != nil {
						r.Violation(t, s, "keys:panic", "panic: %v", p)
					}
				}()
				eq, ge = sdb.Equals(key, rec), sdb.Search(key, rec)
			}()
			weq, wge := refcmp.Equals(rk, s.Rec), refcmp.NotLess(rk, s.Rec)
			if eq != weq {
				r.Violation(t, s, "keys:equals", "Equals(%v, %v) = %v, reference %v", s.Key, s.Rec, eq, weq)
			}
			if ge != wge {
				r.Violation(t, s, "keys:search", "Search(%v, %v) = %v, reference %v", s.Key, s.Rec, ge, wge)
			}
		},
	})
}
