package c13

import (
	"fmt"
	"strings"
	"testing"
	"verif/fold"

	"github.com/alicebob/sqlittle"
	sdb "github.com/alicebob/sqlittle/db"
	"pgregory.net/rapid"

	"verif/e1"
	"verif/refcmp"
	"verif/sqdb"
	"verif/sqlgen"
	"verif/val"
	"verif/vt"
)

// The same metamorphic relation on index b-trees SQLite built (and then
// deleted from / updated / vacuumed): free blocks, underfull pages, entries
// moved by rebalancing. Key flags come from SQLite's index_xinfo.

type sqSpec struct {
	DB   e1.Spec
	Seed uint64
}

func TestC13SQLite(t *testing.T) {
	vt.Exec(t, vt.Check[sqSpec]{
		ID: "C13", Test: "TestC13SQLite",
		Setup: func(r *vt.Run, t *testing.T) {
			var err error
			if env, err = sqdb.NewEnv(); err != nil {
				r.Harness(t, "env: %v", err)
			}
		},
		Teardown: func() { env.Close() },
		Gen: func(t *rapid.T) sqSpec {
			return sqSpec{DB: e1.Gen(t, e1.Opts{MaxTables: 1, Indexes: true, History: true, Conservative: true, BigRows: vt.Pick(700, 3000), PageSizes: []int{512, 512, 1024, 4096}}), Seed: rapid.Uint64().Draw(t, "seed")}
		},
		Run: runSQLite,
	})
}

func runSQLite(r *vt.Run, t vt.TB, s sqSpec) {
	path := env.NewPath()
	defer sqdb.Remove(path)
	created, _ := e1.Build(r, t, env, s.DB, path)
	if !created[0] {
		r.Exclude("sqlite-rejects-create-table")
		return
	}
	if err := env.O.Open("q", path); err != nil {
		r.Harness(t, "open: %v", err)
	}
	defer env.O.Close("q")
	ts := s.DB.Tables[0]
	name := ts.Def.Ident.Name
	cat := e1.ReadCatalog(r, t, env.O, "q", name)
	hl, err := sqlittle.Open(path)
	if err != nil {
		r.Violation(t, s, "open-error", "a database written by SQLite does not open: %v", err)
		return
	}
	defer hl.Close()
	d := sqlittle.VerifLow(hl)
	if err := d.RLock(); err != nil {
		r.Harness(t, "rlock: %v", err)
	}
	defer d.RUnlock()
	rs := s.Seed
	next := func(n int) int {
		rs = rs*6364136223846793005 + 1442695040888963407
		if n <= 0 {
			return 0
		}
		return int((rs >> 33) % uint64(n))
	}
	compared, cuts := 0, 0
	maxEntries := 0
	type tgt struct {
		ii  e1.IndexInfo
		def *sqlgen.Index
		ix  *sdb.Index
	}
	var tgts []tgt
	for _, ii := range cat.Indexes {
		ix, err := d.Index(ii.Name)
		if err != nil {
			r.Violation(t, s, "open-index-error", "Index(%q): %v", ii.Name, err)
			return
		}
		var def *sqlgen.Index
		for k := range ts.Indexes {
			if fold.Equal(ts.Indexes[k].Ident.Name, ii.Name) {
				def = &ts.Indexes[k]
			}
		}
		tgts = append(tgts, tgt{ii, def, ix})
	}
	if cat.WithoutRowid && cat.PKIndex != nil {
		ix, err := d.NonRowidTable(name)
		if err != nil {
			r.Violation(t, s, "open-index-error", "NonRowidTable(%q): %v", name, err)
			return
		}
		// the table itself: key columns first, then the other columns in table order
		pk := *cat.PKIndex
		tgts = append(tgts, tgt{pk, nil, ix})
	}
	for _, tg := range tgts {
		// how SQLite orders and what it stores in this index
		var exprs, orderBy []string
		var attrs []refcmp.KeyCol
		ok := true
		k := 0
		for _, x := range tg.ii.Cols {
			var e string
			switch {
			case x.Cid >= 0:
				e = e1.QIdent(x.Name)
			case x.Cid == -1:
				e = cat.RowidName()
				if e == "" {
					ok = false
				}
			default:
				if tg.def == nil || k >= len(tg.def.Exprs) {
					ok = false
				} else {
					e = "(" + tg.def.Exprs[k] + ")"
				}
			}
			if x.Key {
				k++
			}
			exprs = append(exprs, e)
			o := e + " COLLATE " + x.Coll
			if x.Desc {
				o += " DESC"
			}
			orderBy = append(orderBy, o)
			attrs = append(attrs, refcmp.KeyCol{Collate: fold.Lower(x.Coll), Desc: x.Desc})
		}
		if !ok {
			r.Exclude("index-not-expressible")
			continue
		}
		where := ""
		if tg.ii.Partial {
			if tg.def == nil || tg.def.Where == "" {
				continue
			}
			where = " WHERE " + tg.def.Where
		}
		want, err := env.O.Query("q", "SELECT "+strings.Join(exprs, ", ")+" FROM "+e1.QIdent(name)+where+" ORDER BY "+strings.Join(orderBy, ", "))
		if err != nil {
			r.Harness(t, "reference query for %s: %v", tg.ii.Name, err)
		}
		full, err := scanAll(tg.ix.Scan)
		if err != nil {
			r.Violation(t, s, "sqlite:scan-error", "index %s: Scan: %v (SQLite has %d entries)", tg.ii.Name, err, len(want))
			return
		}
		// the table b-tree of a WITHOUT ROWID table stores all columns; compare the indexed prefix
		same := len(full) == len(want)
		for i := 0; same && i < len(full); i++ {
			isTable := tg.def == nil && tg.ii.Origin == "pk" && cat.WithoutRowid
			if len(full[i]) < len(want[i]) && !isTable {
				same = false
				break
			}
			for j := range want[i] {
				if j >= len(full[i]) {
					break // a short row of the table itself (columns added later by ALTER TABLE)
				}
				g := full[i][j]
				if !e1.SameValue(g.Go(), want[i][j]) {
					same = false
				}
			}
		}
		if !same {
			r.Violation(t, s, "sqlite:scan-differs", "index %s (%v): full scan gives %s, SQLite %d entries %v", tg.ii.Name, orderBy, show(full), len(want), firstRows(want))
			return
		}
		compared++
		if len(full) > maxEntries {
			maxEntries = len(full)
		}
		// cut points: sampled entries, each prefix
		var cutsL [][]val.V
		cutsL = append(cutsL, nil)
		step := 1
		if len(full) > 60 {
			step = len(full) / 60
		}
		nkey := 0
		for _, x := range tg.ii.Cols {
			if x.Key {
				nkey++
			}
		}
		for pos := 0; pos < len(full); pos += step {
			e := full[pos]
			for p := 1; p <= nkey+1 && p <= len(e); p++ {
				cutsL = append(cutsL, e[:p])
			}
		}
		for _, x := range []val.V{val.Null(), val.Blob([]byte{0xff, 0xff}), val.Int(0), val.Text("a"), val.Text("A "), val.Real(1.5)} {
			cutsL = append(cutsL, []val.V{x})
		}
		for _, c := range cutsL {
			cuts++
			key, rk := mkKey(c, attrs)
			first := len(full)
			for i, e := range full {
				if refcmp.NotLess(rk, e) {
					first = i
					break
				}
			}
			got, err := scanAll(func(cb sdb.RecordCB) error { return tg.ix.ScanMin(key, cb) })
			if err != nil || !sameList(got, full[first:]) {
				r.Violation(t, s, "sqlite:min-differs", "index %s (%v): ScanMin(%v) gives %s (err %v); full scan from position %d of %d: %s", tg.ii.Name, orderBy, val.Row(c), show(got), err, first, len(full), show(full[first:]))
				return
			}
			var eq [][]val.V
			for _, e := range full {
				if refcmp.Equals(rk, e) {
					eq = append(eq, e)
				}
			}
			got, err = scanAll(func(cb sdb.RecordCB) error { return tg.ix.ScanEq(key, cb) })
			if err != nil || !sameList(got, eq) {
				r.Violation(t, s, "sqlite:eq-differs", "index %s (%v): ScanEq(%v) gives %s (err %v); equal entries: %s", tg.ii.Name, orderBy, val.Row(c), show(got), err, show(eq))
				return
			}
		}
		for i := 0; i < 40 && len(cutsL) > 1; i++ {
			a, b := cutsL[next(len(cutsL))], cutsL[next(len(cutsL))]
			ka, rka := mkKey(a, attrs)
			kb, rkb := mkKey(b, attrs)
			var exp [][]val.V
			for _, e := range full {
				if refcmp.NotLess(rka, e) && !refcmp.NotLess(rkb, e) {
					exp = append(exp, e)
				}
			}
			got, err := scanAll(func(cb sdb.RecordCB) error { return tg.ix.ScanRange(ka, kb, cb) })
			if err != nil || !sameList(got, exp) {
				r.Violation(t, s, "sqlite:range-differs", "index %s (%v): ScanRange(%v, %v) gives %s (err %v); expected %s", tg.ii.Name, orderBy, val.Row(a), val.Row(b), show(got), err, show(exp))
				return
			}
			cuts++
		}
	}
	if compared == 0 {
		r.Exclude("no-index")
		return
	}
	r.Case(s, maxEntries > 40 && len(s.DB.History) > 0, fmt.Sprintf("sqlite:entries<=%d", bucket(maxEntries)), fmt.Sprintf("sqlite:ps=%d", s.DB.PageSize))
	r.Count("sqlite:cut-points", cuts)
}

func firstRows(rows []val.Row) string {
	s := ""
	for i, r := range rows {
		if i >= 4 {
			break
		}
		s += " " + r.String()
	}
	return s
}

func bucket(n int) int {
	for _, b := range []int{0, 10, 100, 1000, 10000} {
		if n <= b {
			return b
		}
	}
	return 100000
}
