// C13 — low-level range scans agree with the full scan and the comparison
// order. Index trees of chosen shape come from the independent builder; cut
// points are enumerated from the stored entries; the oracle filters the full
// scan with the reference comparator.
package c13

import (
	"fmt"
	"testing"

	sdb "github.com/alicebob/sqlittle/db"
	"pgregory.net/rapid"

	"verif/bt"
	"verif/btgen"
	"verif/gen"
	"verif/refcmp"
	"verif/sqdb"
	"verif/val"
	"verif/vt"
)

var env *sqdb.Env

type spec struct {
	Img   bt.Image
	Extra []val.V // extra probe values (neighbours, other classes)
	Seed  uint64  // picks the range pairs
}

type target struct {
	name    string
	open    func(d *sdb.Database) (*sdb.Index, error)
	entries []bt.Entry
	attrs   []refcmp.KeyCol
	shape   interface{ interiorSet() map[int]bool }
	inter   map[int]bool
	edge    map[int]bool
}

func mkKey(vals []val.V, attrs []refcmp.KeyCol) (sdb.Key, []refcmp.KeyCol) {
	var k sdb.Key
	var rk []refcmp.KeyCol
	for i, v := range vals {
		var a refcmp.KeyCol
		if i < len(attrs) {
			a = attrs[i]
		}
		k = append(k, sdb.KeyCol{V: v.Go(), Collate: a.Collate, Desc: a.Desc})
		rk = append(rk, refcmp.KeyCol{V: v, Collate: a.Collate, Desc: a.Desc})
	}
	return k, rk
}

func scanAll(f func(cb sdb.RecordCB) error) ([][]val.V, error) {
	var out [][]val.V
	var bad error
	err := f(func(rec sdb.Record) bool {
		vs, ok := bt.RecordVals(rec)
		if !ok {
			bad = fmt.Errorf("foreign value type in record %v", rec)
			return true
		}
		out = append(out, vs)
		return false
	})
	if bad != nil {
		return out, bad
	}
	return out, err
}

func sameList(a, b [][]val.V) bool {
	if len(a) != len(b) {
		return false
	}
	for i := range a {
		if !bt.ValsEqual(a[i], b[i]) {
			return false
		}
	}
	return true
}

func show(l [][]val.V) string {
	s := fmt.Sprintf("%d entries", len(l))
	for i, e := range l {
		if i >= 4 {
			s += " ..."
			break
		}
		s += " " + val.Row(e).String()
	}
	return s
}

func TestC13Ranges(t *testing.T) {
	vt.Exec(t, vt.Check[spec]{
		ID: "C13", Test: "TestC13Ranges",
		Setup: func(r *vt.Run, t *testing.T) {
			var err error
			if env, err = sqdb.NewEnv(); err != nil {
				r.Harness(t, "env: %v", err)
			}
		},
		Teardown: func() { env.Close() },
		Gen: func(t *rapid.T) spec {
			s := spec{Img: btgen.Image(t, btgen.Opts{MaxRows: 50, Indexes: true, WR: true, LongValues: true, RowidAlias: true})}
			n := rapid.IntRange(0, 6).Draw(t, "nextra")
			for i := 0; i < n; i++ {
				s.Extra = append(s.Extra, gen.Value().Draw(t, "extra"))
			}
			s.Seed = rapid.Uint64().Draw(t, "pairseed")
			return s
		},
		Run: run,
	})
}

func run(r *vt.Run, t vt.TB, s spec) {
	built, err := bt.Build(&s.Img)
	if err != nil {
		r.Exclude("layout-impossible")
		return
	}
	fail := func(sig, format string, args ...interface{}) {
		problem := fmt.Sprintf(format, args...)
		diff, err := bt.SQLiteAgrees(env.O, env.Dir, built)
		if err != nil {
			r.Harness(t, "cross validation failed to run: %v (sqlittle: %s)", err, problem)
		}
		if diff != "" {
			r.Harness(t, "builder and SQLite disagree about the image (%s); sqlittle: %s", diff, problem)
		}
		r.Violation(t, s, sig, "%s", problem)
	}
	d, _, err := bt.Open(built.Img)
	if err != nil {
		fail("open", "open: %v", err)
		return
	}
	defer d.Close()

	type tgt struct {
		name    string
		ix      *sdb.Index
		entries []bt.Entry
		attrs   []refcmp.KeyCol
		shape   *[3][]int // interior, leaf first, leaf last positions
		depth   int
	}
	var tgts []tgt
	tt := built.Tables["t"]
	for name, bi := range tt.Indexes {
		ix, err := d.Index(name)
		if err != nil {
			fail("open", "Index(%s): %v", name, err)
			return
		}
		tgts = append(tgts, tgt{name, ix, bi.Entries, bi.Key, &[3][]int{bi.Shape.InteriorEntry, bi.Shape.LeafFirst, bi.Shape.LeafLast}, bi.Shape.Depth})
	}
	if w := built.Tables["w"]; w != nil {
		ix, err := d.NonRowidTable("w")
		if err != nil {
			fail("open", "NonRowidTable(w): %v", err)
			return
		}
		attrs := w.PKKey // (DESC is ignored in files of a schema format before 4)
		tgts = append(tgts, tgt{"w", ix, w.Entries, attrs, &[3][]int{w.IShape.InteriorEntry, w.IShape.LeafFirst, w.IShape.LeafLast}, w.IShape.Depth})
		// its secondary indexes (entries end in primary key columns, not a rowid)
		for name, bi := range w.Indexes {
			ix, err := d.Index(name)
			if err != nil {
				fail("open", "Index(%s): %v", name, err)
				return
			}
			tgts = append(tgts, tgt{name, ix, bi.Entries, bi.Key, &[3][]int{bi.Shape.InteriorEntry, bi.Shape.LeafFirst, bi.Shape.LeafLast}, bi.Shape.Depth})
		}
	}
	maxDepth, boundaryCuts, cuts := 0, 0, 0
	rs := s.Seed
	next := func(n int) int {
		rs = rs*6364136223846793005 + 1442695040888963407
		if n <= 0 {
			return 0
		}
		return int((rs >> 33) % uint64(n))
	}
	for _, tg := range tgts {
		if tg.depth > maxDepth {
			maxDepth = tg.depth
		}
		full, err := scanAll(tg.ix.Scan)
		if err != nil {
			fail("scan:error", "%s: Scan: %v", tg.name, err)
			return
		}
		var want [][]val.V
		for _, e := range tg.entries {
			want = append(want, e.Values)
		}
		if !sameList(full, want) {
			fail("scan:differs", "%s: full scan gives %s, the builder stored %s", tg.name, show(full), show(want))
			return
		}
		boundary := map[int]bool{}
		for _, l := range tg.shape {
			for _, p := range l {
				boundary[p] = true
			}
		}
		// cut points
		type cut struct {
			vals     []val.V
			boundary bool
		}
		var cutsL []cut
		cutsL = append(cutsL, cut{nil, false})
		for pos, e := range full {
			maxp := len(tg.attrs) + 1
			if maxp > len(e) {
				maxp = len(e)
			}
			for p := 1; p <= maxp; p++ {
				cutsL = append(cutsL, cut{e[:p], boundary[pos]})
			}
			if pos%3 == 0 {
				// longer than the stored record
				cutsL = append(cutsL, cut{append(append([]val.V{}, e...), val.Int(0)), boundary[pos]})
			}
		}
		for _, x := range append([]val.V{val.Null(), val.Blob([]byte{0xff, 0xff, 0xff}), val.Int(-9223372036854775808), val.Text("")}, s.Extra...) {
			cutsL = append(cutsL, cut{[]val.V{x}, false})
			if len(full) > 0 && len(full[0]) > 1 {
				cutsL = append(cutsL, cut{[]val.V{full[next(len(full))][0], x}, false})
			}
		}
		for _, c := range cutsL {
			cuts++
			if c.boundary {
				boundaryCuts++
			}
			key, rk := mkKey(c.vals, tg.attrs)
			// expected
			first := len(full)
			for i, e := range full {
				if refcmp.NotLess(rk, e) {
					first = i
					break
				}
			}
			got, err := scanAll(func(cb sdb.RecordCB) error { return tg.ix.ScanMin(key, cb) })
			if err != nil {
				fail("min:error", "%s: ScanMin(%v): %v", tg.name, val.Row(c.vals), err)
				return
			}
			if !sameList(got, full[first:]) {
				fail("min:differs", "%s (depth %d): ScanMin(%v) gives %s; the full scan from the first entry not less than the key (position %d of %d) is %s",
					tg.name, tg.depth, val.Row(c.vals), show(got), first, len(full), show(full[first:]))
				return
			}
			var eq [][]val.V
			for _, e := range full {
				if refcmp.Equals(rk, e) {
					eq = append(eq, e)
				}
			}
			got, err = scanAll(func(cb sdb.RecordCB) error { return tg.ix.ScanEq(key, cb) })
			if err != nil {
				fail("eq:error", "%s: ScanEq(%v): %v", tg.name, val.Row(c.vals), err)
				return
			}
			if !sameList(got, eq) {
				fail("eq:differs", "%s (depth %d): ScanEq(%v) gives %s; entries equal to the key: %s", tg.name, tg.depth, val.Row(c.vals), show(got), show(eq))
				return
			}
		}
		// ranges: consecutive cut points and pseudo random pairs
		npairs := 2 * len(cutsL)
		if npairs > 200 {
			npairs = 200
		}
		for i := 0; i < npairs; i++ {
			a, b := cutsL[next(len(cutsL))], cutsL[next(len(cutsL))]
			if i%2 == 0 {
				j := next(len(cutsL) - 1)
				a, b = cutsL[j], cutsL[j+1]
			}
			ka, rka := mkKey(a.vals, tg.attrs)
			kb, rkb := mkKey(b.vals, tg.attrs)
			var exp [][]val.V
			for _, e := range full {
				if refcmp.NotLess(rka, e) && !refcmp.NotLess(rkb, e) {
					exp = append(exp, e)
				}
			}
			got, err := scanAll(func(cb sdb.RecordCB) error { return tg.ix.ScanRange(ka, kb, cb) })
			if err != nil {
				fail("range:error", "%s: ScanRange(%v, %v): %v", tg.name, val.Row(a.vals), val.Row(b.vals), err)
				return
			}
			if !sameList(got, exp) {
				fail("range:differs", "%s (depth %d): ScanRange(%v, %v) gives %s; entries >= from and < to: %s", tg.name, tg.depth, val.Row(a.vals), val.Row(b.vals), show(got), show(exp))
				return
			}
			cuts++
		}
	}
	r.Case(s, boundaryCuts > 0 && maxDepth >= 2, fmt.Sprintf("maxdepth=%d", maxDepth), fmt.Sprintf("ps=%d", s.Img.PageSize))
	r.Count("cut-points", cuts)
	r.Count("cut-points-at-page-boundary-or-interior-entry", boundaryCuts)
	if vt.Sampled(s, 10) {
		diff, err := bt.SQLiteAgrees(env.O, env.Dir, built)
		if err != nil {
			r.Harness(t, "cross validation: %v", err)
		}
		if diff != "" {
			r.Harness(t, "builder and SQLite disagree: %s", diff)
		}
		r.Count("sqlite-validated", 1)
	}
}
