// Package sqdb builds database files with real SQLite (through the oracle
// co-process) and reads them back with real SQLite.
package sqdb

import (
	"fmt"
	"os"
	"path/filepath"

	"verif/oracle"
	"verif/val"
	"verif/vt"
)

// Env is a per-process environment: one oracle, one scratch directory.
type Env struct {
	O   *oracle.Oracle
	Dir string
	seq int
}

// NewEnv starts the oracle and makes a scratch directory (removed by Close).
func NewEnv() (*Env, error) {
	o, err := oracle.Start()
	if err != nil {
		return nil, err
	}
	base := os.Getenv("VERIF_SCRATCH")
	if base == "" {
		base = os.TempDir()
	}
	dir, err := os.MkdirTemp(base, "sqdb-")
	if err != nil {
		o.Stop()
		return nil, err
	}
	return &Env{O: o, Dir: dir}, nil
}

func (e *Env) Close() {
	if e == nil {
		return
	}
	e.O.Stop()
	os.RemoveAll(e.Dir)
}

// NewPath gives a fresh database path (nothing exists there).
func (e *Env) NewPath() string {
	e.seq++
	return filepath.Join(e.Dir, fmt.Sprintf("db%06d.sqlite", e.seq))
}

// Remove deletes a database and its journal.
func Remove(path string) {
	if keep := os.Getenv("VERIF_KEEP_DB"); keep != "" {
		// debugging aid for replays: keep a copy of the database file
		if b, err := os.ReadFile(path); err == nil {
			os.WriteFile(keep, b, 0o644)
		}
	}
	os.Remove(path)
	os.Remove(path + "-journal")
	os.Remove(path + "-wal")
	os.Remove(path + "-shm")
}

// Create makes a new database file on connection conn with the page size and
// auto_vacuum mode, then runs the statements (stopping at the first error,
// which is returned as the result list shows). The connection stays open.
func (e *Env) Create(conn, path string, pageSize, autoVacuum int, stmts []oracle.Stmt) ([]oracle.StmtResult, error) {
	Remove(path)
	if err := e.O.Open(conn, path); err != nil {
		return nil, err
	}
	pre := []oracle.Stmt{
		{SQL: fmt.Sprintf("PRAGMA page_size=%d", pageSize)},
		{SQL: fmt.Sprintf("PRAGMA auto_vacuum=%d", autoVacuum)},
	}
	return e.O.Script(conn, append(pre, stmts...), true)
}

// CreateLegacy is Create for a file of schema format 2 or 3: an empty file
// gets that format into its header, and SQLite keeps the format for everything
// it creates in the file afterwards (until a VACUUM rebuilds it as format 4).
// In those formats DESC in an index is ignored: the index is stored ascending.
func (e *Env) CreateLegacy(conn, path string, pageSize, autoVacuum, format int, stmts []oracle.Stmt) ([]oracle.StmtResult, error) {
	Remove(path)
	if err := e.O.Open(conn, path); err != nil {
		return nil, err
	}
	pre := []oracle.Stmt{
		{SQL: fmt.Sprintf("PRAGMA page_size=%d", pageSize)},
		{SQL: fmt.Sprintf("PRAGMA auto_vacuum=%d", autoVacuum)},
	}
	if _, err := e.O.Script(conn, append(append([]oracle.Stmt{}, pre...), oracle.Stmt{SQL: "VACUUM"}), true); err != nil {
		return nil, err
	}
	if err := e.O.Close(conn); err != nil {
		return nil, err
	}
	b, err := os.ReadFile(path)
	if err != nil || len(b) < 100 {
		return nil, fmt.Errorf("legacy format: the empty database has %d bytes: %v", len(b), err)
	}
	b[44], b[45], b[46], b[47] = 0, 0, 0, byte(format)
	b[56], b[57], b[58], b[59] = 0, 0, 0, 1 // UTF-8, which SQLite sets together with the format
	if err := os.WriteFile(path, b, 0o644); err != nil {
		return nil, err
	}
	if err := e.O.Open(conn, path); err != nil {
		return nil, err
	}
	return e.O.Script(conn, append(pre, stmts...), true)
}

// TextParam renders the SQL for a parameter holding v: text goes through a
// CAST of the blob parameter so that any byte sequence survives.
func TextParam(v val.V) string {
	if v.T == 't' {
		return "CAST(? AS TEXT)"
	}
	return "?"
}

// MustOK fails the run as a harness error when any statement failed.
func MustOK(r *vt.Run, t vt.TB, what string, res []oracle.StmtResult, err error, n int) {
	t.Helper()
	if err != nil {
		r.Harness(t, "%s: %v", what, err)
	}
	for i, x := range res {
		if !x.Ok {
			r.Harness(t, "%s: statement %d failed: %s", what, i, x.Err)
		}
	}
	if n >= 0 && len(res) != n {
		r.Harness(t, "%s: %d results for %d statements", what, len(res), n)
	}
}
