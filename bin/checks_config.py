"""Per-property job tables for bin/check.

job: name, pkg (harness/checks/<pkg>), run (go test -run regex), tests (test
function names, for replay dispatch), checks {tier: rapid case count per
shard}, shards {tier: processes}, race.
"""

def job(name, pkg, tests, q, t, qs=1, ts=8, race=False, **kw):
    j = {
        "name": name, "pkg": pkg, "tests": tests,
        "run": "^(" + "|".join(tests) + ")$",
        "checks": {"quick": q, "thorough": t},
        "shards": {"quick": qs, "thorough": ts},
        "race": race,
    }
    j.update(kw)
    return j


HOOK_COMMITS = ["6e86ca7"]

# reasons for properties without a registered check (kept current)
NOT_YET = {}

CHECKS = {
    "C11": {
        "level": "exploration",
        "manifest": {
            "technique": "property-based testing: exhaustive grid pairs differential against real SQLite + rapid-generated pairs/triples/multi-column keys against a reference comparator validated on SQLite in the same run",
            "level_text": "Generated-input search over pairs, triples and multi-column keys of storable values with an explicit oracle (SQLite itself on the grid, a math/big reference elsewhere). Exhaustive over the stated grid, sampled elsewhere; absence of counterexamples outside the explored cases is not shown.",
            "level_note": "Trusts the system libsqlite3 3.40.1 as the definition of SQLite's order; reference comparator is re-validated against it on ~90k pairs every run. Text restricted to valid UTF-8, no NaN.",
        },
        "rule": ("grid: every ordered pair of a value grid (all storage classes; ints at +-2^7..2^62 and int64 extremes +-2; reals +-0, subnormal, "
                 "+-2^31..2^64 and neighbours, +-Inf; text case/blank/NUL/non-ASCII/prefix variants; blobs) x collations that can matter, oracle = real SQLite "
                 "(a.v < b.v COLLATE c, a.v = b.v COLLATE c); random pairs/triples/multi-column keys by rapid (second value usually a neighbour of the first), "
                 "oracle = refcmp validated against SQLite on the grid in the same run. Non-trivial: two different values of the same class rank (order not "
                 "decided by class rank alone); for multi-column keys: >= 2 key columns. Distinct = fingerprint of the case spec."),
        "assumptions": ["system libsqlite3 (3.40.1) through python3 sqlite3 is the reference", "text is valid UTF-8, NaN is not a storable value"],
        "min_nontrivial": {"quick": 1000, "thorough": 10000},
        "required_classes": ["grid:ir", "grid:tt:nocase", "grid:tt:rtrim", "keys:len=short", "keys:len=long", "triple:"],
        "timeout": {"quick": 300, "thorough": 1500},
        "jobs": [
            job("grid", "c11", ["TestC11Grid"], 1, 1, 1, 1),
            job("pairs", "c11", ["TestC11Pairs"], 30000, 400000, 1, 6),
            job("triples", "c11", ["TestC11Triples"], 20000, 300000, 1, 4),
            job("keys", "c11", ["TestC11Keys"], 20000, 300000, 1, 4),
        ],
    },
    "C16": {
        "level": "exploration",
        "manifest": {
            "technique": "property-based testing: rapid-generated strings (random runes/bytes, hostile token soup, deep nesting, grammar sentences with token mutations) for totality+determinism; metamorphic locality check on SQLite-validated CREATE TABLE/INDEX statements (element alone / reordered / neighbours removed must be reported identically); native go fuzzing in the thorough tier",
            "level_text": "Generated-input search with an invariant oracle (returns, no panic, same result on repeat and after unrelated parses) and a metamorphic oracle (per-element reports equal across contexts), restricted to statements real SQLite accepts (checked in the run). Sampled, not exhaustive.",
            "level_note": "SQLite 3.40.1 decides which statements are valid; the comparison is between the parser's own outputs, so no reference parser is trusted. A watchdog of 40 s per Parse call stands in for non-termination.",
        },
        "rule": ("totality/determinism: inputs drawn from six generators (random runes, random bytes, soup of hostile tokens, nesting up to depth 3000, statements from the "
                 "CREATE TABLE/INDEX/SELECT grammar, the same with 1-3 token mutations); non-trivial = non-empty input. locality: statement generated as a list of elements; "
                 "variants = each column alone, each table constraint with plain columns, each indexed column alone, WHERE removed, elements permuted; all validated by real SQLite; "
                 "non-trivial = >= 3 elements (or >= 2 indexed columns) where an element carrying an attribute is followed by one without. Distinct = fingerprint of the case spec."),
        "assumptions": ["system libsqlite3 (3.40.1) decides validity of statements"],
        "min_nontrivial": {"quick": 300, "thorough": 5000},
        "required_classes": ["total:grammar:accepted", "total:deep", "local:table:compared", "local:index:compared"],
        "timeout": {"quick": 300, "thorough": 1500},
        "jobs": [
            job("total", "c16", ["TestC16Total"], 20000, 400000, 1, 6, pending=True),
            job("local", "c16", ["TestC16Local"], 6000, 60000, 2, 10),
            job("long", "c16", ["TestC16Long"], 25, 250, 2, 6, pending=True),
            job("concurrent", "c16", ["TestC16Concurrent"], 150, 3000, 2, 6, race=True, pending=True),
            job("fuzz", "c16", ["FuzzC16Parse"], 1, 1, 1, 1, fuzz={"target": "FuzzC16Parse", "convert": "TestC16FromFuzzFile", "time": {"quick": 0, "thorough": 240}}),
        ],
    },
    "C18": {
        "level": "exploration",
        "manifest": {
            "technique": "property-based testing: rapid-generated (row, destination list) pairs against a conversion model written from the Scan documentation (three-valued: exact / must-error / either) plus a metamorphic single-vs-combined scan relation; rapid-generated scan/mutate/reread/close/overwrite histories on SQLite-written files for the copy guarantee",
            "level_text": "Generated-input search against a reference model of the documented conversions, and generated operation histories with the invariant that scanned values and later reads never change. Sampled; the model's grey zone (inf/nan/hex text, out-of-range float->int, REAL/BLOB timestamps, non-integral->bool) only demands totality.",
            "level_note": "The conversion model is my reading of the doc comment of Row.Scan (strict decimal/float syntax by regular expression, Go numeric conversions, the two time layouts). Files are written by SQLite 3.40.1.",
        },
        "rule": ("conversions: rows of 0-4 values (value grid, random values, a pool of numeric-looking / malformed / time-like texts and the same as blobs) x 0..n+2 destinations over the nine supported "
                 "kinds, nil and four unsupported kinds; non-trivial = at least one destination and one column. lifetime: page size x rows with blob/text lengths 0..5000 (inline and overflow) x "
                 "first select into fresh per-row variables or into one variable that outlives the callback (results kept) x 1-8 actions from {overwrite scanned slice, append to scanned slice, reread, rowid read, close, overwrite file, remove file}; non-trivial = a read after a mutation, or a shared destination with a later blob that fits the capacity of an earlier one. "
                 "Distinct = fingerprint of the case spec."),
        "assumptions": ["system libsqlite3 (3.40.1) writes the files for the lifetime histories"],
        "min_nontrivial": {"quick": 300, "thorough": 5000},
        "required_classes": ["conv:t->int64", "conv:missing->", "conv:args=more", "conv:args=fewer", "life:mutate-then-read=true", "life:overflow=true", "life:shared-dest-not-growing=true"],
        "timeout": {"quick": 300, "thorough": 1500},
        "jobs": [
            job("conv", "c18", ["TestC18Conv", "TestC18Shortcuts"], 30000, 500000, 1, 4),
            job("life", "c18", ["TestC18Lifetime"], 400, 5000, 2, 10),
            job("files", "c18", ["TestC18Files"], 300, 6000, 2, 8),
        ],
    },
    "C14": {
        "level": "exploration",
        "exhaustive_claim": False,
        "manifest": {
            "technique": "property-based testing, round-trip oracle: an independent record/cell/page/b-tree encoder (written from the file-format spec, cross-validated by SQLite's integrity_check and SELECT in the run) writes rapid-generated records and an exhaustive enumeration of payload lengths; sqlittle must decode bit-identical values",
            "level_text": "Round-trip search: every value/width/varint-length/page-size combination generated is encoded by a builder that shares no code with the decoder and must be read back identically through Table.Scan, Index.Scan and Select. Payload lengths 2..3U+8 are enumerated completely for U=512 (quick) and U=512,1024,2048 (thorough) in table-leaf, index-leaf and index-interior cells; the other page sizes get the X/M/K neighbourhoods.",
            "level_note": "Trusts the builder's reading of the format, itself validated against SQLite 3.40.1 on a 1-in-8 sample of generated images and on every violation candidate before it is reported (a disagreement between builder and SQLite is exit 2, not a violation).",
        },
        "rule": ("records: 1-12 rows x 1-6 columns (or 120-200 columns for headers > 127 bytes) of grid/random values and long text/blobs sized around the spill thresholds, integers forced through "
                 "every legal width, optional padded varints (payload size <= 8 bytes, rowid/header size/serial type up to 9), short rows, all 8 page sizes, scattered page numbers, shuffled "
                 "cells, free blocks, chosen cells-per-page (depth 1-4); each row set is stored in a rowid table and a WITHOUT ROWID table (index cells). Non-trivial = an overflowing payload, a "
                 "negative integer or a multi-byte varint. payload lengths: one case per (page size, length, cell kind); non-trivial = payload not wholly local. Distinct = fingerprint / key."),
        "assumptions": ["system libsqlite3 (3.40.1) validates the builder", "usable size == page size (reserved space is refused by sqlittle, see C15)"],
        "min_nontrivial": {"quick": 1500, "thorough": 8000},
        "required_classes": ["rec:overflow=true", "rec:widehdr=true", "rec:depth=3", "rec:idxdepth=2", "rec:ps=65536", "lens:ps=512:index-interior", "lens:ps=65536:table-leaf", "rec:sqlite-validated", "rec:in-header-size-stale=true", "rec:text-not-utf8=true", "rec:autovacuum=1", "rec:autovacuum=2", "rec:autovacuum-beyond-second-map-page=true", "rec:page1-interior-without-key=true", "rec:index-entries-of-2001-fields=true"],
        "timeout": {"quick": 300, "thorough": 1800},
        "jobs": [
            job("records", "c14", ["TestC14Records"], 1200, 12000, 3, 12),
            job("lens", "c14", ["TestC14PayloadLensEnum", "TestC14PayloadLens"], 1, 1, 1, 4, run="^TestC14PayloadLensEnum$"),
        ],
    },
    "C04": {
        "level": "exploration",
        "manifest": {
            "technique": "property-based testing against a reference map: rapid-generated rowid tables laid out by the independent builder with chosen cells per page (depth 1-7, slack separator keys, extreme rowids); the probe set of every table is enumerated completely (present rowids, both neighbours, separators, leaf first/last, 0, +-1, int64 min/max), each lookup repeated with a generated subset of the columns, incl. none (existence check)",
            "level_text": "Generated tables x complete probe enumeration, oracle = the rowid->row map the builder was given (SQLite confirms sampled images and every violation candidate). Covers Table.Rowid, DB.SelectRowid and PKSelect on INTEGER PRIMARY KEY tables. Sampled over tables, exhaustive over the stated probe classes per table.",
            "level_note": "Trusts the builder (validated against SQLite 3.40.1 integrity_check + SELECT on a sample and before any report).",
        },
        "rule": ("tables: 0-80 rows, 1-4 columns, rowids dense/gapped/random/extreme, cells per leaf 1-4 or as many as fit, fan-out 2-4 or max, separator keys optionally above the left subtree's maximum, "
                 "page sizes 512/1024/4096, overflowing values, optional INTEGER PRIMARY KEY alias; plus tables written by SQLite (core grammar, bulk rows) and then deleted from / updated / vacuumed, probed at every present rowid, "
                 "both neighbours, 0, +-1 and int64 min/max against SQLite's own SELECT. One evaluation = one table with all its probes (probe counts are reported per depth). "
                 "Non-trivial = tree depth >= 2. Distinct = fingerprint of the image spec."),
        "assumptions": ["system libsqlite3 (3.40.1) validates the builder"],
        "min_nontrivial": {"quick": 200, "thorough": 3000},
        "required_classes": ["depth=2", "depth=3", "depth=4", "alias=true", "sqlite-validated", "sqlite:rows<=1000", "sqlite:pages<=100"],
        "timeout": {"quick": 300, "thorough": 1500},
        "jobs": [
            job("builder", "c04", ["TestC04Builder"], 1500, 20000, 2, 10),
            job("sqlite", "c04", ["TestC04SQLite"], 150, 2500, 2, 6),
        ],
    },
    "C13": {
        "level": "exploration",
        "manifest": {
            "technique": "property-based testing, metamorphic oracle: rapid-generated index and WITHOUT ROWID b-trees of chosen shape (independent builder); cut points enumerated from every stored entry's every prefix plus neighbours/extremes/over-long keys; ScanMin/ScanEq/ScanRange must equal the full Scan filtered with the reference comparator",
            "level_text": "Generated index trees (depth 1-5, entries in interior pages, duplicate runs across pages, per-column COLLATE/DESC) x enumerated cut points; oracle = filter of the full scan by refcmp (validated against SQLite in C11), full scan itself compared with the builder's entry list. Sampled over trees, exhaustive over the stated cut-point classes per tree.",
            "level_note": "Key flags are taken from the index definition (the documented precondition). Builder validated against SQLite 3.40.1 on a sample and before any report.",
        },
        "rule": ("images: rowid table with 1-2 indexes of 1-3 columns (random COLLATE/DESC) and a WITHOUT ROWID table with 1-2 key columns; values from a small pool so that duplicates and collation ties are "
                 "frequent; cells per leaf 1-4, fan-out 2-4. Cut points per tree: the empty key, every prefix of every entry, each third entry extended beyond the record, lowest/highest values, "
                 "random extra values alone and as second column; up to 200 (from,to) pairs per tree. One evaluation = one image with all cut points (counted separately). "
                 "Non-trivial = depth >= 2 and at least one cut point equal to an interior entry or the first/last entry of a leaf."),
        "assumptions": ["system libsqlite3 (3.40.1) validates the builder", "refcmp is validated against SQLite by C11"],
        "min_nontrivial": {"quick": 150, "thorough": 2000},
        "required_classes": ["maxdepth=2", "maxdepth=3", "maxdepth=4", "sqlite-validated", "cut-points-at-page-boundary", "sqlite:entries<=1000"],
        "timeout": {"quick": 300, "thorough": 1500},
        "jobs": [
            job("ranges", "c13", ["TestC13Ranges"], 600, 6000, 2, 10),
            job("sqlite", "c13", ["TestC13SQLite"], 120, 2000, 2, 6),
        ],
    },
    "C17": {
        "level": "exploration",
        "manifest": {
            "technique": "property-based testing with exhaustive stop positions: rapid-generated table/index/WITHOUT ROWID trees of chosen shape (independent builder); for every operation with a stop signal and every k = 1..n the stopped run must deliver exactly the first k rows of the full run, call back k times, return nil and (high-level API) release the read lock with no page read outside it",
            "level_text": "Generated trees x all stop positions per operation (Table.Scan, Index.Scan, ScanMin, ScanEq, ScanRange, SelectDone on rowid and WITHOUT ROWID tables); oracle = the operation's own complete result (metamorphic), lock state from the counting memory pager. Sampled over trees, exhaustive in k per (tree, operation).",
            "level_note": "Lock release is observed on the harness pager behind the verif hook (lock/unlock counts and reads outside the lock); the real fcntl locks on files are C06's subject.",
        },
        "rule": ("images as for C13 (0-40 rows per tree, cells per leaf 1-4, fan-out 2-4, depth 1-6); operations: full scans, from-key/equality/range scans with the empty key and with keys taken from stored "
                 "entries, SelectDone on both table kinds; every stop position k in 1..len(result). One evaluation = one image with all its (operation, k) pairs (counted separately as stop-positions). "
                 "Non-trivial = some tree of depth >= 2 and at least one stop position."),
        "assumptions": ["system libsqlite3 (3.40.1) validates the builder"],
        "min_nontrivial": {"quick": 150, "thorough": 2000},
        "required_classes": ["maxdepth=2", "maxdepth=3", "maxdepth=4", "sqlite-validated", "stop-positions"],
        "timeout": {"quick": 300, "thorough": 1500},
        "jobs": [
            job("stop", "c17", ["TestC17EarlyStop"], 600, 6000, 2, 10),
        ],
    },
    "C15": {
        "level": "exploration",
        "exhaustive_claim": True,
        "manifest": {
            "technique": "exhaustive enumeration inside the property-based harness: every header byte 0..99 x every value 0..255 on valid base images of all 8 page sizes, judged by a three-valued reference validator (must-reject / must-accept / either) derived from the statement; the same mutations applied under a long-lived handle (header re-read); real SQLite-written WAL (with unmerged WAL content), UTF-16le/be and plain files, and a live switch to WAL",
            "level_text": "Complete enumeration of single-byte header mutations (204k images) plus the re-read variants, with an explicit oracle: rejected classes must error and deliver no rows, harmless fields must be accepted with identical rows, grey fields must not change rows if accepted. Multi-byte combinations are not enumerated.",
            "level_note": "The validator encodes my reading of the statement: legal-but-wrong page sizes are excluded (that is a corrupt file, C05); write version, payload fractions, schema formats 0/1, unknown encodings, reserved-for-expansion and the vacuum fields are 'either'. Base images come from the independent builder and are accepted by SQLite 3.40.1 (integrity_check) in the run.",
        },
        "rule": ("one case per (page size, header offset, byte value != original): open through the memory pager, Tables, Select on a rowid and a WITHOUT ROWID table, SelectRowid, PKSelect, low-level scan under "
                 "explicit RLock; re-read: same mutations written into the image after a successful read on an open handle (page sizes 512/4096/65536 quick, all thorough); real: 6 kinds x 4 page sizes "
                 "written by SQLite. Non-trivial = every mutation that changes the byte and is not excluded (for re-read: the must-reject ones). Distinct by key (page size, offset, value)."),
        "assumptions": ["system libsqlite3 (3.40.1) writes the WAL/UTF-16 files and validates the base images", "schema format 1 files cannot be produced with this SQLite build (legacy_file_format is a no-op); covered header-only"],
        "min_nontrivial": {"quick": 200000, "thorough": 200000},
        "required_classes": ["must-reject:magic", "must-reject:read-version", "must-reject:reserved-space", "must-reject:text-encoding", "must-reject:schema-format", "must-reject:page-size", "must-accept:change-counter", "must-accept:user-version", "reread:must-reject", "real:wal-open", "real:utf16le", "real:switch-to-wal", "real:switch-to-wal-two-handles", "real:wal-before-first-table"],
        "timeout": {"quick": 300, "thorough": 1500},
        "jobs": [
            job("enum", "c15", ["TestC15HeaderEnum", "TestC15Mutation"], 1, 1, 4, 8, run="^TestC15HeaderEnum$"),
            job("reread", "c15", ["TestC15RereadEnum", "TestC15Reread"], 1, 1, 4, 8, run="^TestC15RereadEnum$"),
            job("real", "c15", ["TestC15RealEnum", "TestC15Real"], 1, 1, 1, 1, run="^TestC15RealEnum$"),
        ],
    },
    "C12": {
        "level": "fault_enumeration",
        "tools": ["peer"],
        "manifest": {
            "technique": "fault enumeration inside the property-based harness: rapid-generated databases (independent builder, and files written by SQLite with secondary indexes on WITHOUT ROWID tables and partial indexes); for every operation the number n of page reads is measured and the k-th read is failed for every k in 1..n as I/O error, short read (io.EOF) and 0xFF-filled page, plus a failing RLock; oracle = error returned and delivered rows a prefix of the fault-free result; plus structural damage: builder images in which index entries have lost their table row (an index select meeting such an entry must fail, having delivered exactly the rows before it)",
            "level_text": "Exhaustive in k (every page read from Open to the end of the operation) and in three fault kinds per (database, operation); databases and operation arguments are sampled. Oracle: err != nil and rows a positional prefix of the fault-free rows, no panic.",
            "level_note": "Faults are injected in the harness pager behind the verif hook (one fault per run, fresh handle per run). 0xFF-filled overflow pages are excluded and counted: no reader can detect them. The database/sql driver's error hand-off is covered under C19 with corrupted files.",
        },
        "rule": ("builder images: 0-25 rows per tree, depth 1-5, overflow values, 1-2 indexes, WITHOUT ROWID table; operations: Select, Columns, SelectRowid, PKSelect, IndexedSelect, IndexedSelectEq and the low-level "
                 "Table.Scan/Rowid, Index.Scan/ScanMin/ScanEq/ScanRange; SQLite-built: WITHOUT ROWID table with two secondary indexes + partial index on a rowid table, 1-40 rows with overflow. "
                 "One evaluation = one database with all (operation, k, kind) faults (counted as faults-injected). Non-trivial = at least one fault on an operation performing nested lookups "
                 "(table row fetched inside an index scan callback). Distinct = fingerprint of the database spec."),
        "assumptions": ["system libsqlite3 (3.40.1) writes the SQLite-built files and validates builder images before a report"],
        "min_nontrivial": {"quick": 60, "thorough": 1000},
        "required_classes": ["builder:depth=2", "builder:depth=3", "sqlite-built", "faults-on-operations-with-nested-lookups", "lock-failure:raw-shared-range", "lock-failure:sqlite-exclusive", "inconsistent:entries-cut-short=true", "damaged:alias=true", "damaged:through-indexes=true", "damaged:rows-in-front=true"],
        "timeout": {"quick": 300, "thorough": 1500},
        "jobs": [
            job("builder", "c12", ["TestC12Builder"], 150, 2500, 2, 8),
            job("sqlite", "c12", ["TestC12SQLite"], 60, 1000, 2, 6),
            job("inconsistent", "c12", ["TestC12Inconsistent"], 400, 8000, 2, 8),
            job("damaged", "c12", ["TestC12DamagedRecord"], 400, 8000, 1, 4),
            job("lock", "c12", ["TestC12LockFailure"], 60, 1200, 1, 4),
        ],
    },
    "C05": {
        "level": "exploration",
        "manifest": {
            "technique": "property-based testing + coverage-guided fuzzing with an invariant oracle: rapid-generated structure-aware corruptions of valid images (page pointers, cell pointer arrays, counts, page types, payload/rowid/header/serial-type varints, truncation, random bytes, journals), lying sqlite_master catalogues with generated and hostile SQL text, the database/sql driver on corrupted files, and native go fuzzing of the same worker in the thorough tier; oracle = no panic, no process death, page reads per operation under a budget computed by the harness' own shape analysis of the input",
            "level_text": "Generated-input search with an invariant oracle (returns normally, bounded work) over every public operation (Open, Tables, Indexes, Info, Schema, Def, Columns, Select*, IndexedSelect*, PKSelect, low-level Scan/ScanMin/ScanEq/ScanRange/Rowid, Row.Scan, database/sql). Sampled; finds crashes and unbounded loops, does not show their absence.",
            "level_note": "Bounded work is judged with a page-read budget derived from a dynamic-programming bound of an honest traversal; inputs on which the reader's recursion limit of 31 permits a large (but bounded) traversal (shared children, interior cycles: predicted > 2000 page visits) are excluded and counted. A 60 s watchdog only confirms hangs that repeat. Fatal process deaths are re-run and count only if they repeat.",
        },
        "rule": ("mutate: valid builder image (0-20 rows per tree, indexes, WITHOUT ROWID, overflow, page sizes 512/1024/4096) + 0-3 field mutations chosen by class (pointers / page header numbers / page type / varints) "
                 "with hostile values (self, other pages, 0, out of range; 0, U+-1, 0xFFFF; 9-byte negative and huge varints, serial types 10/11), header numbers (in-header size with matching version-valid-for, freelist, change counter, page size, reserved bytes), the runaway combination (a leaf cell declaring 2^24..2^63 payload bytes on an overflow chain closed to a loop, with and without a header claiming billions of pages), optional random byte flips, truncation at any per-mille, "
                 "arbitrary or nearly valid journal files; schema: the builder's catalogue made to lie in 1-3 ways (other SQL text from a hostile list / the CREATE grammar / random runes, other root page, "
                 "other type/name/tbl_name, short/long/wrong-class rows) plus extra objects; driver: mutated files through database/sql; raw: header + random pages. Non-trivial = at least one mutation / lie. "
                 "Distinct = fingerprint of the case spec."),
        "assumptions": ["an honest reader visits a page at most once per path and follows an overflow chain over distinct pages only"],
        "min_nontrivial": {"quick": 3000, "thorough": 50000},
        "required_classes": ["mut:cell.child", "mut:ovfl.next", "mut:cell.ovfl", "mut:page.cellptr", "mut:rec.serial", "mut:cell.paysize", "mut:truncated", "mut:journal", "mut:runaway.chain+header-size", "mut:runaway.chain", "mut:hdr.28", "schema:rows", "driver", "raw"],
        "timeout": {"quick": 400, "thorough": 2400},
        "jobs": [
            job("mutate", "c05", ["TestC05Mutate"], 2500, 60000, 3, 10, pending=True),
            job("schema", "c05", ["TestC05Schema"], 2500, 40000, 3, 8, pending=True),
            job("driver", "c05", ["TestC05Driver"], 300, 6000, 1, 4),
            job("raw", "c05", ["TestC05Raw"], 3000, 100000, 1, 2, pending=True),
            job("fuzz", "c05", ["FuzzC05Image"], 1, 1, 1, 1, fuzz={"target": "FuzzC05Image", "convert": "TestC05FromFuzzFile", "time": {"quick": 0, "thorough": 420}}),
        ],
    },
    "C01": {
        "level": "exploration",
        "manifest": {
            "technique": "property-based differential testing against real SQLite: rapid-generated schemas (CREATE TABLE grammar incl. rowid aliases, WITHOUT ROWID, constraints, quoting), rows (value grid, payloads sized around the spill thresholds, explicit extreme rowids, bulk rows computed by SQLite for depth 3-4 trees) and histories (DELETE/UPDATE/ALTER ADD COLUMN/VACUUM/incremental_vacuum/REINDEX) are executed by SQLite; sqlittle's Select on the resulting file must equal SQLite's SELECT ... ORDER BY rowid|primary key for generated column lists",
            "level_text": "Generated (database, column list) pairs; oracle = SQLite 3.40.1 itself on the same file, compared positionally and by storage class (only tolerance: an integral REAL may surface as an integer). A table whose definition sqlittle rejects must yield an error and no rows. Sampled.",
            "level_note": "Page sizes 512..65536 and auto_vacuum 0/1/2 are generated; depth-4 trees only in the thorough tier. Statements SQLite rejects are skipped (SQLite decides what exists).",
        },
        "rule": ("database spec: page size, auto_vacuum, 1-2 tables from the CREATE TABLE grammar (25% beyond the core grammar), 0-45 parameter rows + optional bulk rows (30..1500, thorough 6000) computed by SQLite, "
                 "0-3 indexes, 0-5 history statements; column list: all columns or 1-6 picks incl. rowid/oid/_rowid_ spellings and duplicates. Non-trivial = a compared table with rows that spans several pages, has an "
                 "overflowing row, was grown by ALTER TABLE, or is WITHOUT ROWID. Distinct = fingerprint of the spec."),
        "assumptions": ["system libsqlite3 (3.40.1) is the reference"],
        "min_nontrivial": {"quick": 150, "thorough": 3000},
        "required_classes": ["table:rowid", "table:without-rowid", "table:altered", "table:overflow", "rows<=10000", "ps=512", "ps=65536", "autovacuum=1"],
        "timeout": {"quick": 400, "thorough": 2400},
        "jobs": [
            job("select", "c01", ["TestC01Select"], 300, 3000, 6, 14),
        ],
    },
    "C02": {
        "level": "exploration",
        "manifest": {
            "technique": "property-based differential testing against real SQLite: generated tables with explicit, partial, expression, UNIQUE and automatic indexes on rowid and WITHOUT ROWID tables; IndexedSelect through every index sqlittle reports must equal SQLite's SELECT [WHERE partial] ORDER BY <index_xinfo key columns with their collation and direction, then rowid / remaining primary key>",
            "level_text": "Generated (database, index) pairs; oracle = SQLite's own description of the index (index_xinfo) turned into a total ORDER BY, exact sequence equality (hence every indexed row once, none extra, table-row values). Sampled.",
            "level_note": "Indexes SQLite has but sqlittle leaves out are allowed by the statement and not compared; expression columns are ordered by the expression text of the generated statement.",
        },
        "rule": ("database spec as for C01 (0-3 generated indexes per table + automatic ones, per-column COLLATE/DESC, 25% partial, 20% expression columns, duplicates and NULLs from small value pools, bulk rows up to 1200 / 5000). "
                 "One evaluation = one database with all its comparable indexes. Non-trivial = a compared index with rows that is partial, on a WITHOUT ROWID table, or has > 40 entries. Distinct = fingerprint of the spec."),
        "assumptions": ["system libsqlite3 (3.40.1) is the reference"],
        "min_nontrivial": {"quick": 100, "thorough": 2000},
        "required_classes": ["index:rowid:explicit", "index:rowid:auto-unique", "index:rowid:auto-pk", "index:without-rowid:explicit", "index:without-rowid:auto-unique", "index:rowid:explicit:partial", "index-rows<=1000"],
        "timeout": {"quick": 400, "thorough": 2400},
        "jobs": [
            job("indexed", "c02", ["TestC02IndexedSelect"], 300, 3000, 6, 14),
        ],
    },
    "C03": {
        "level": "exploration",
        "manifest": {
            "technique": "property-based differential testing against real SQLite: for every index / index-backed or WITHOUT ROWID primary key of generated databases, keys derived from stored entries (every prefix length, neighbours: +-1, int<->real, case swapped, trailing blank/tab, other classes, NULL, random values) are searched with IndexedSelectEq / PKSelect and compared with SQLite's SELECT ... WHERE +(expr) COLLATE c IS ? ... (unary plus: no affinity, no index use) in index order",
            "level_text": "Generated (database, index, key) triples; oracle = SQLite's raw storage-class comparison under the index column's collation; exact sequence equality (no row missing, none extra, index order). Sampled.",
            "level_note": "Collation and direction of the key columns are taken from SQLite's index_xinfo, not from sqlittle; text parameters are bound through +CAST(? AS TEXT) so that no affinity is applied. A second part runs equality searches on images from the independent file builder (schema formats 2-4, DESC declared on indexes that a pre-4 format stores ascending, secondary indexes on WITHOUT ROWID tables); there the expected rows are the builder's own content filtered with the reference comparator, and SQLite cross-validates the image (integrity_check + content) for every disagreement and a sample of the agreeing cases.",
        },
        "rule": ("database spec as for C02; 3-12 key picks per database, each applied to every index and eligible primary key: stored row -> key columns -> prefix of length 0..n -> optional mutation of the last column "
                 "(neighbour or arbitrary value). Non-trivial = the result is a proper non-empty subset of the indexed rows, or a non-binary collation decides, or the key was mutated to a neighbour. "
                 "Distinct = fingerprint of the spec; searches are counted separately."),
        "assumptions": ["system libsqlite3 (3.40.1) is the reference"],
        "min_nontrivial": {"quick": 100, "thorough": 2000},
        "required_classes": ["search:rowid:IndexedSelectEq", "search:without-rowid:IndexedSelectEq", "search:without-rowid:PKSelect", "search:rowid:PKSelect", "search:prefix=0", "search:prefix=2", "search:hits<=10", "builder:schema-format=4", "builder:schema-format=3", "builder:schema-format=2", "builder:legacy-format-with-desc-index"],
        "timeout": {"quick": 400, "thorough": 2400},
        "jobs": [
            job("search", "c02", ["TestC03EqualitySearch"], 200, 2500, 4, 14),
            job("builder", "c02", ["TestC03Builder"], 700, 12000, 2, 8),
        ],
    },
    "C10": {
        "level": "exploration",
        "manifest": {
            "technique": "property-based differential testing over generated programs: CREATE TABLE / CREATE INDEX / ALTER TABLE statements from a grammar (any order and mix of column and table constraints, duplicates and overlaps, COLLATE at every level, ASC/DESC, quoting styles, type names, WITHOUT ROWID, partial and expression indexes) are executed by SQLite; sqlittle's Schema / Tables / Indexes / Columns must agree with PRAGMA table_xinfo, table_list, index_list and index_xinfo of the same file",
            "level_text": "Generated programs; oracle = SQLite's own catalogue. Compared: object names, column names and order, WITHOUT ROWID, rowid alias column, primary key columns/collations/directions, store order, and for every index sqlittle reports: existence under that name, key columns, collations, directions, and where the primary key columns sit inside the entries of WITHOUT ROWID indexes. sqlittle may reject a table or leave an index out. Sampled.",
            "level_note": "Names are compared case-insensitively. Appended key columns are compared functionally (the position sqlittle reads a primary-key column from must hold that column in SQLite's layout).",
        },
        "rule": ("1-2 tables x 0-3 indexes from the grammar, optionally ALTER TABLE ADD COLUMN / RENAME; statements SQLite rejects are skipped. Non-trivial = a definition with >= 2 UNIQUE/PRIMARY KEY constraints, or one plus "
                 "COLLATE / DESC / WITHOUT ROWID (constraints that interact: shared automatic index, numbering, alias rule, inherited collation). Distinct = fingerprint of the spec."),
        "assumptions": ["system libsqlite3 (3.40.1) is the reference"],
        "min_nontrivial": {"quick": 500, "thorough": 10000},
        "required_classes": ["no-primary-key-tables-asked-by-primary-key", "definition-accepted", "interacting-constraints", "index:u", "index:pk", "index:c", "index:appended-columns-checked"],
        "timeout": {"quick": 400, "thorough": 2400},
        "jobs": [
            job("schema", "c10", ["TestC10Schema"], 700, 12000, 4, 14),
        ],
    },
    "C08": {
        "level": "exploration",
        "manifest": {
            "technique": "stateful property-based testing (generated operation histories, replayable as one value): a real SQLite connection commits generated write transactions (DML, bulk growth past the size at open and past the 100-page cache, CREATE/DROP TABLE and INDEX, ALTER, VACUUM, incremental vacuum, growth that leaves the header the way a pre-3.7.0 writer does: in-header size stale) between generated reads on one long-lived high-level handle and one long-lived low-level handle with explicit RLock/RUnlock; every read is compared with SQLite's answer at that moment and repeated reads must be identical",
            "level_text": "Generated histories (read | committed write)* of 2-24 steps, oracle = SQLite on the same connection that wrote (so always the latest committed state), for Select, IndexedSelect, SelectRowid, PKSelect, Columns and low-level Tables/Indexes/Schema/Table.Scan. Sampled.",
            "level_note": "The writer commits each statement (autocommit) and holds no lock during reads; lock interaction is C06/C07. Table shapes are fixed simple ones (rowid alias, plain, WITHOUT ROWID) so that sqlittle accepts every definition.",
        },
        "rule": ("history of 2-24 operations, half reads half writes, on databases with page size 512/1024/4096 and auto_vacuum 0/1/2. Non-trivial = the history contains a read by a handle that had read before and had not yet "
                 "seen an intervening commit (classes: after dml / ddl / growth / shrink / vacuum). Distinct = fingerprint of the spec."),
        "assumptions": ["system libsqlite3 (3.40.1) is writer and reference"],
        "min_nontrivial": {"quick": 150, "thorough": 3000},
        "required_classes": ["handle-opened-mid-transaction", "reads-refused-in-between", "read-while-sibling-handle-in-transaction", "read-while-another-connection-has-an-open-write-transaction", "read-after:dml", "read-after:ddl", "read-after:growth", "read-after:vacuum", "read-after:pagesize", "file-grew", "more-than-100-pages", "short-tail-row-read-twice", "index-redefined-under-its-name", "starts-in-schema-format=2", "starts-in-schema-format=3", "every-row-rewritten", "change-counter-wraps=true", "wal-excursion-with-schema-change", "file-grown-by-a-writer-that-leaves-the-in-header-size-stale"],
        "timeout": {"quick": 400, "thorough": 2400},
        "jobs": [
            job("history", "c08", ["TestC08History"], 130, 2500, 4, 12),
            job("atlock", "c08", ["TestC08CommitAtLock"], 250, 5000, 2, 8),
        ],
    },
    "C07": {
        "level": "exploration",
        "tools": ["peer"],
        "manifest": {
            "technique": "stateful property-based testing with a harness-owned schedule: a real SQLite connection in another process is moved through its lock states by generated moves (BEGIN / IMMEDIATE / EXCLUSIVE, small write, cache-spilling write, cursors of a second connection, COMMIT that may be blocked and park the writer in PENDING, ROLLBACK) and parked; after each move a generated sqlittle read runs; the lock state observed with F_GETLK decides the expected outcome and a model of the writer cross-checks the observation",
            "level_text": "Generated move/read sequences over all lock states a SQLite connection can be parked in (UNLOCKED, SHARED, RESERVED with and without journal, PENDING after a blocked commit, EXCLUSIVE with and without spilled uncommitted pages); oracle: PENDING/EXCLUSIVE observed => error and zero rows; otherwise success with exactly the rows of the last successful COMMIT. The writer is parked while the reader runs, so outcomes do not depend on timing. Sampled over sequences.",
            "level_note": "Lock states are observed from the reading process with fcntl(F_GETLK) on SQLite's pending byte, reserved byte and shared range; disagreement between observation and writer model is a harness error (exit 2). Interleavings inside a single lock acquisition are not explored.",
        },
        "rule": ("2-14 (move, read) steps per case; reads: Select, Open+Select, SelectRowid, IndexedSelectEq, PKSelect on a WITHOUT ROWID table, Columns, low-level RLock+Table.Scan. Non-trivial = some read was attempted while the writer "
                 "held PENDING or EXCLUSIVE, or RESERVED with a journal on disk. Distinct = fingerprint of the spec."),
        "assumptions": ["system libsqlite3 (3.40.1) unix VFS with POSIX advisory locks is the writer"],
        "min_nontrivial": {"quick": 150, "thorough": 3000},
        "required_classes": ["at-probe:writer-rollback", "read-meets-unseen-commit-and-open-transaction", "writer-changes-schema", "state:UNLOCKED", "state:SHARED", "state:RESERVED", "state:RESERVED+journal", "state:PENDING", "state:EXCLUSIVE", "state:EXCLUSIVE+journal+spilled", "sync-off=true", "sync-off=false", "state:PENDING+commit-blocked-by-our-own-handle", "state:shared-range-write-locked-without-pending"],
        "timeout": {"quick": 400, "thorough": 2400},
        "jobs": [
            job("states", "c07", ["TestC07LockStates"], 250, 5000, 3, 10),
            job("atprobe", "c07", ["TestC07WriterEndsAtProbe"], 60, 1200, 1, 4),
        ],
    },
    "C06": {
        "level": "exploration",
        "tools": ["lockprobe", "peer"],
        "manifest": {
            "technique": "stateful property-based testing with a harness-owned schedule: the real file pager is wrapped in a tracing pager (verif hook) whose hook runs generated side actions at generated pager-call / callback positions of a generated operation and exit path; observers are an out-of-process fcntl(F_GETLK) probe, the lock/page/unlock event order, and a real SQLite COMMIT attempted meanwhile and after return",
            "level_text": "Generated (operation, exit path, side-action schedule) histories; invariants: at every page read and callback inside the call the shared range is read-locked by this process, every page read lies between lock and unlock, nothing of ours stays locked after return (normal, early stop, error, injected page fault, callback panic), a SQLite writer cannot commit during the call and can after it. Side actions: writer commit attempts, handles on another file, a reader in another process (passing and parked), second handles of the same process. Sampled over schedules at pager-call granularity.",
            "level_note": "POSIX locks are invisible to their holder, so the probe is a helper process; the window between the two fcntl calls inside one RLock is not explored; the Windows pager cannot run here. Second handles of the same process on the same file (open, read, close inside the call) are judged like every other history since db48f07 repaired the per-process lock bookkeeping.",
        },
        "rule": ("operation x exit path (normal, stop at k, unknown column/table/index, page fault at read j, panic in callback k) x 0-4 side actions at event positions 0-30, on databases of 1-120 rows with page sizes 512/1024/4096, optionally with a SQLite writer's open transaction (journal on disk, RESERVED held) or the journal of a crashed transaction present before the call; "
                 "plus database/sql result sets read for k rows then closed / cancelled / drained. Non-trivial = at least one side action ran. Distinct = fingerprint of the spec."),
        "assumptions": ["Linux POSIX record locks; system libsqlite3 (3.40.1) is the writer"],
        "min_nontrivial": {"quick": 150, "thorough": 3000},
        "required_classes": ["side:peer-parked-on-a-forgotten-handle", "exit:normal", "exit:stop", "exit:error-column", "exit:fault", "exit:panic", "side:commit-attempt", "side:peer-hold", "side:other-file", "side:same-process-read", "side:same-process-close-then-read", "side:open-while-writer-pending:opened", "side:driver-failed-query-inside-read", "side:driver-connect-inside-read", "op:IndexedSelect-wr", "driver:cancel", "writer:open-txn", "writer:hot-journal", "writer:raw-exclusive", "concurrent:procs="],
        "timeout": {"quick": 400, "thorough": 2400},
        "jobs": [
            job("held", "c06", ["TestC06Held"], 220, 4000, 3, 10),
            job("driver", "c06", ["TestC06Driver"], 120, 1500, 1, 3),
            job("concurrent", "c06", ["TestC06Concurrent"], 25, 300, 2, 6),
        ],
    },
    "C09": {
        "level": "fault_enumeration",
        "tools": ["peer"],
        "ctools": [
            {"src": "crashshim.c", "out": "crashshim.so", "args": ["-shared", "-fPIC", "-O1"], "libs": ["-ldl"]},
            {"src": "crashwriter.c", "out": "crashwriter", "args": ["-O1"], "libs": ["/usr/lib/x86_64-linux-gnu/libsqlite3.so.0"], "optional": True},
        ],
        "manifest": {
            "technique": "crash-point enumeration inside the property-based harness: rapid generates base databases and write transactions; a real SQLite writer process (small cache, so dirty pages spill before commit; journal modes DELETE/TRUNCATE/PERSIST) runs under an LD_PRELOAD shim that numbers its pwrite/write/ftruncate/fsync/fdatasync/unlink calls and is killed before its k-th one for every k, plus a half-written variant of every write; the files left behind are read by sqlittle and, on a copy, by real SQLite after its own recovery",
            "level_text": "Exhaustive in k (every system-call boundary of the writer on the database and its journal, plus torn halves of every write) per generated (base, transaction, journal mode, page size); oracle: sqlittle errors, or returns exactly SQLite's post-recovery content; and when no recovery is pending (journal absent, empty or zero-headered) sqlittle must read without error. Transactions are sampled.",
            "level_note": "Crash points are system-call boundaries of the stock unix VFS with sector sizes 512 and 4096 (psow=0) and the writer's synchronous setting FULL / NORMAL / EXTRA / OFF (OFF: journal never synced, record count 0xFFFFFFFF); reordering of unsynced writes is not modelled. SQLite 3.40.1 performs the reference recovery.",
        },
        "rule": ("transaction: 1-4 statements from a pool of UPDATE/DELETE/INSERT..SELECT/CREATE/DROP/ALTER on a database of 30-150 rows (rowid table + index + WITHOUT ROWID table), cache_size 3, synchronous FULL/NORMAL/EXTRA/OFF; "
                 "one evaluation = one (transaction, k, torn) crash. Non-trivial = killed after the first write to the database file and not after the last journal operation, with a journal carrying the magic left behind "
                 "(database pages already overwritten, recovery pending). Distinct = fingerprint of (spec, k, torn)."),
        "assumptions": ["system libsqlite3 (3.40.1) is writer and recovery reference", "LD_PRELOAD interposition sees every file operation of the writer (checked: the uninterrupted run's log is non-empty and the kill happens at each k)"],
        "min_nontrivial": {"quick": 60, "thorough": 2000},
        "required_classes": ["crash:DELETE", "crash:TRUNCATE", "crash:PERSIST", "journal-left:magic", "journal-left:absent", "sqlittle-read", "sqlittle-refused", "sector:4096", "sector:512", "synchronous:OFF", "synchronous:FULL", "journal-size-limit-set", "journal-left:zero-shorter-than-a-header", "reads-without-file-descriptors", "handles-opened-under-a-live-spilled-transaction", "long-named-database-read", "first-transaction:refused", "first-transaction:read-as-recovered", "attached:refused", "attached:read-as-recovered", "reads-with-a-failing-reserved-probe"],
        "timeout": {"quick": 400, "thorough": 2400},
        "jobs": [
            job("crash", "c09", ["TestC09Crash"], 4, 60, 4, 12),
            job("first", "c09", ["TestC09FirstTransaction"], 3, 30, 1, 4),
            job("attached", "c09", ["TestC09Attached"], 2, 18, 1, 4),
        ],
    },
    "C19": {
        "level": "exploration",
        "tools": ["lockprobe"],
        "manifest": {
            "technique": "property-based differential testing of the database/sql driver against the native API, under the race detector: rapid-generated SQLite-written databases x generated SELECT statements (`*` anywhere in the list, column lists with rowid spellings and duplicates, unknown table/column, non-SELECT and malformed text) x consumption plans (read all, Close after k rows, cancel after k rows, cancel from another goroutine after a generated number of scheduler yields, a page overwritten with 0xFF or the file truncated before the scan, a prepared statement executed twice, optionally with an ALTER TABLE ADD/RENAME/DROP COLUMN by SQLite between the executions, two result sets open at once on one transaction / sql.Conn, a prepared statement executed while SQLite has the file in WAL mode and again after it switched back)",
            "level_text": "Generated (database, query, plan) triples; oracle: rows equal the native Select with `*` expanded to Columns() in definition order; whenever the native call fails an error surfaces through Query, Scan or rows.Err (a short result with a nil error is the violation); after Close/cancel rows.Close returns, no producer goroutine remains (stack dump, polled up to 5 s) and an out-of-process probe sees no lock of ours. Built with -race. Schedules of the cancel/producer race are sampled by the Go scheduler, not enumerated.",
            "level_note": "Corruption is applied to the file before the query (pages other than the first), so 'mid-scan' means pages the scan reaches later. Column names are compared case-insensitively.",
        },
        "rule": ("database: one table from the core CREATE TABLE grammar with 0-45 parameter rows and optional bulk rows (<= 400), page size 512/1024/4096. Non-trivial = anything but a plain complete read of an empty result "
                 "(a plan other than 'all', a bad query, or rows). Distinct = fingerprint of the spec."),
        "assumptions": ["system libsqlite3 (3.40.1) writes the databases"],
        "min_nontrivial": {"quick": 150, "thorough": 3000},
        "required_classes": ["foreign-context-failed-queries", "empty-blob-scanned-into-byte-slice", "plan:all", "plan:close", "plan:cancel", "plan:cancel-async", "plan:corrupt", "plan:truncate", "plan:prepared", "plan:prepared-alter", "plan:nested", "plan:prepared-wal", "bad:table", "bad:column", "bad:not-select", "star=true", "rows<=1000"],
        "timeout": {"quick": 500, "thorough": 2400},
        "jobs": [
            job("driver", "c19", ["TestC19Driver"], 200, 3000, 3, 10, race=True),
        ],
    },
    "C20": {
        "level": "exploration",
        "tools": ["lockprobe"],
        "manifest": {
            "technique": "randomised concurrent execution under the race detector, driven by the property-based harness: rapid generates plans of 2-16 goroutines x 1-8 operations (native selects / index searches / primary key lookups on rowid and WITHOUT ROWID tables, low-level scans and Schema under explicit RLock, sql.Parse, comparator calls, Open/Close churn, database/sql queries on a shared pool) over three shared files and one file per plan whose stored DDL (and the statements of a parse operation) spell their keywords in a generated letter case and which is first touched inside the concurrent phase, with GOMAXPROCS 1..16 and optional yields inside row callbacks; every result must equal the result of the same operation run alone; half of the goroutines open the files under another name (hard link), and a probed select asks an out-of-process F_GETLK probe from inside its row callback whether the process still holds the SHARED lock",
            "level_text": "Generated plans, oracle = the operation's own sequential result (computed first in the same process; for operations on the plan's fresh file and fresh spellings computed after the concurrent phase, so that lazily filled shared state is filled under concurrency) plus the Go race detector (the check binary is built with -race; any report fails the run). Interleavings are whatever the Go scheduler produces for the generated GOMAXPROCS / yield settings; not enumerated, not reproducible schedule-by-schedule.",
            "level_note": "Each goroutine uses its own native handles (the documented usage); the database/sql pool is shared, as database/sql intends.",
        },
        "rule": ("plan = GOMAXPROCS in {1,2,4,8,16} x 2-16 workers x 1-8 operations each, operation kinds drawn from 16 kinds, files from 3 fixed ones (5 / 60 / 700 rows; page sizes 512 / 1024 / 4096; the second one in journal_mode=PERSIST, i.e. with a non-empty journal next to it) and the plan's fresh file (25 rows, keyword case pattern of 24 generated bits). "
                 "Non-trivial = at least two goroutines use the same file. Distinct = fingerprint of the plan. "
                 "Open storm (no race detector, results only): 8-32 goroutines x 200-800 rounds of open / read all rows / close, each on its own one of 16 files that keep a zeroed PERSIST journal (every open and every read transaction opens and closes a second file), every second goroutine through a hard link; every round must give what the file gives when read alone - what is shared here is the process' descriptor table, not Go memory. Non-trivial = at least 8 goroutines on at least 4 procs."),
        "assumptions": ["the Go race detector sees the accesses of the interleavings that actually happen"],
        "min_nontrivial": {"quick": 60, "thorough": 1500},
        "required_classes": ["procs=1", "procs=16", "same-file=true", "yield=true", "workers<=16", "fresh-state-shared=true", "op:select-probed", "storm:open-read-close-rounds"],
        "timeout": {"quick": 500, "thorough": 2400},
        "jobs": [
            job("concurrent", "c20", ["TestC20Concurrent"], 40, 500, 3, 8, race=True, shrinktime="5s"),
            job("storm", "c20", ["TestC20OpenStorm"], 8, 80, 1, 2, shrinktime="5s"),
        ],
    },
}
